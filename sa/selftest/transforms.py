"""Whole-tree behaviour-preserving source transformations used as standing twins of every check (applied to a scratch copy only).

  unparse-all       every Python file re-printed from its ast (formatting, comments)
  rename-locals     every function-local variable that is safe to rename gets a new name (x -> x_r)
  invert-branches   `if c: A else: B` with a simple test becomes `if not c: B else: A`
  return-via-local  `return <expr>` becomes `rv_ = <expr>; return rv_`
  hoist-call-args   positional arguments that are calls are evaluated into locals first
  comp-to-loop      `x = [E for t in IT if c]` becomes `x = []; for t_k in IT: if c: x.append(E)`
  guard-clauses     a trailing `if c: A else: B` of a loop body / procedure becomes `if c: A; continue|return` followed by B

A rule that depends on how a local is called, or on which arm of an `if` is written first, alarms or errs on these."""
from __future__ import annotations

import ast
import os


def _py_files(root):
    for d, _dirs, files in os.walk(os.path.join(root, 'generation')):
        for fn in files:
            if fn.endswith('.py'):
                yield os.path.join(d, fn)


class _Scope(ast.NodeVisitor):
    """collect facts of one function body without entering nested function / lambda / class scopes"""

    def __init__(self):
        self.stored: set[str] = set()
        self.banned: set[str] = set()
        self.nested: list[ast.AST] = []

    def visit_FunctionDef(self, n):
        self.banned.add(n.name)
        self.nested.append(n)

    visit_AsyncFunctionDef = visit_FunctionDef

    def visit_ClassDef(self, n):
        self.banned.add(n.name)
        self.nested.append(n)

    def visit_Lambda(self, n):
        self.nested.append(n)

    def visit_Name(self, n):
        if isinstance(n.ctx, (ast.Store, ast.Del)):
            self.stored.add(n.id)

    def visit_Global(self, n):
        self.banned.update(n.names)

    visit_Nonlocal = visit_Global

    def visit_ExceptHandler(self, n):
        if n.name:
            self.banned.add(n.name)
        self.generic_visit(n)

    def visit_alias(self, n):
        self.banned.add((n.asname or n.name).split('.')[0])

    def visit_MatchAs(self, n):
        if n.name:
            self.banned.add(n.name)
        self.generic_visit(n)

    def visit_MatchStar(self, n):
        if n.name:
            self.banned.add(n.name)

    def visit_MatchMapping(self, n):
        if n.rest:
            self.banned.add(n.rest)
        self.generic_visit(n)

    def _comp(self, n):
        for g in n.generators:
            for t in ast.walk(g.target):
                if isinstance(t, ast.Name):
                    self.banned.add(t.id)          # comprehension variables live in their own scope: leave them alone
        self.generic_visit(n)

    visit_ListComp = visit_SetComp = visit_DictComp = visit_GeneratorExp = _comp


class _Rename(ast.NodeTransformer):
    def __init__(self, names):
        self.names = names

    def visit_Name(self, n):
        if n.id in self.names:
            n.id = self.names[n.id]
        return n

    def visit_FunctionDef(self, n):
        return n                                     # nested scopes are handled on their own

    visit_AsyncFunctionDef = visit_ClassDef = visit_Lambda = visit_FunctionDef


def rename_locals_in(tree: ast.Module) -> int:
    count = 0
    funcs = [n for n in ast.walk(tree) if isinstance(n, (ast.FunctionDef, ast.AsyncFunctionDef))]
    for fn in funcs:
        sc = _Scope()
        for st in fn.body:
            sc.visit(st)
        params = {a.arg for a in fn.args.posonlyargs + fn.args.args + fn.args.kwonlyargs}
        if fn.args.vararg:
            params.add(fn.args.vararg.arg)
        if fn.args.kwarg:
            params.add(fn.args.kwarg.arg)
        mentioned_nested = {x.id for nn in sc.nested for x in ast.walk(nn) if isinstance(x, ast.Name)}
        calls_locals = any(isinstance(x, ast.Call) and isinstance(x.func, ast.Name) and x.func.id in ('locals', 'vars', 'eval', 'exec')
                           for x in ast.walk(fn))
        if calls_locals:
            continue
        all_names = {x.id for x in ast.walk(fn) if isinstance(x, ast.Name)}
        cands = {x for x in sc.stored if x not in params and x not in sc.banned and x not in mentioned_nested and not x.startswith('__')}
        mapping = {}
        for x in sorted(cands):
            new = x + '_r'
            while new in all_names or new in params:
                new += 'r'
            mapping[x] = new
        if mapping:
            r = _Rename(mapping)
            fn.body = [r.visit(st) for st in fn.body]
            count += len(mapping)
    return count


def _simple_test(e) -> bool:
    return isinstance(e, (ast.Name, ast.Attribute, ast.Call, ast.Compare, ast.Subscript)) or \
        (isinstance(e, ast.UnaryOp) and isinstance(e.op, ast.Not))


class _Invert(ast.NodeTransformer):
    def __init__(self):
        self.count = 0

    def visit_If(self, n):
        self.generic_visit(n)
        # leave elif chains alone (the else arm is a single If): inverting them nests the chain the other way round
        if n.orelse and not (len(n.orelse) == 1 and isinstance(n.orelse[0], ast.If)) and _simple_test(n.test) \
                and not any(isinstance(x, ast.NamedExpr) for x in ast.walk(n.test)):
            if isinstance(n.test, ast.UnaryOp) and isinstance(n.test.op, ast.Not):
                test = n.test.operand
            else:
                test = ast.UnaryOp(op=ast.Not(), operand=n.test)
            self.count += 1
            return ast.copy_location(ast.If(test=test, body=n.orelse, orelse=n.body), n)
        return n


class _ReturnViaLocal(ast.NodeTransformer):
    """`return <expr>` becomes `rv_ = <expr>; return rv_` (not inside lambdas; generators and bare returns untouched)"""

    def __init__(self):
        self.count = 0

    def _body(self, stmts):
        out = []
        for st in stmts:
            st = self.visit(st)
            if isinstance(st, ast.Return) and st.value is not None and not isinstance(st.value, (ast.Name, ast.Constant)):
                self.count += 1
                tmp = ast.copy_location(ast.Assign(targets=[ast.Name(id='rv_', ctx=ast.Store())], value=st.value), st)
                out.append(tmp)
                out.append(ast.copy_location(ast.Return(value=ast.Name(id='rv_', ctx=ast.Load())), st))
            else:
                out.append(st)
        return out

    def generic_visit(self, node):
        for fld in ('body', 'orelse', 'finalbody'):
            v = getattr(node, fld, None)
            if isinstance(v, list) and v and isinstance(v[0], ast.stmt):
                setattr(node, fld, self._body(v))
        if isinstance(node, ast.Try):
            for h in node.handlers:
                h.body = self._body(h.body)
        if isinstance(node, ast.Match):
            for c in node.cases:
                c.body = self._body(c.body)
        if isinstance(node, (ast.With, ast.AsyncWith)):
            pass
        return node

    def visit_Lambda(self, node):
        return node


class _HoistCallArgs(ast.NodeTransformer):
    """`f(g(x), y)` as a whole statement (expression statement, plain assignment or return) becomes `a0_ = g(x); f(a0_, y)`:
    positional arguments that are themselves calls are evaluated into locals first, left to right.  Only when the callee expression
    is a plain name or an attribute chain on a name (its evaluation has no side effect) and no argument before the last hoisted one is
    anything but a call, a name, an attribute or a constant (so the order of evaluation of the arguments is kept)."""

    def __init__(self):
        self.count = 0
        self.k = 0

    @staticmethod
    def _pure_callee(f):
        while isinstance(f, ast.Attribute):
            f = f.value
        return isinstance(f, ast.Name)

    def _split(self, st, call):
        if not isinstance(call, ast.Call) or not self._pure_callee(call.func) or call.keywords and any(k.arg is None for k in call.keywords):
            return None
        pre, new_args, seen_call = [], [], False
        last_call = max([i for i, a in enumerate(call.args) if isinstance(a, ast.Call)], default=-1)
        if last_call < 0:
            return None
        for i, a in enumerate(call.args):
            if i <= last_call and not isinstance(a, (ast.Call, ast.Name, ast.Attribute, ast.Constant)):
                return None
            if isinstance(a, ast.Call) and not any(isinstance(x, (ast.Yield, ast.YieldFrom, ast.Await, ast.NamedExpr, ast.Starred)) for x in ast.walk(a)):
                name = f'a{self.k}_'
                self.k += 1
                pre.append(ast.copy_location(ast.Assign(targets=[ast.Name(id=name, ctx=ast.Store())], value=a), st))
                new_args.append(ast.copy_location(ast.Name(id=name, ctx=ast.Load()), a))
            elif isinstance(a, ast.Call):
                return None
            else:
                # a name evaluated before a later hoisted call could be rebound by that call only through nonlocal tricks: keep simple
                new_args.append(a)
        call.args = new_args
        self.count += len(pre)
        return pre

    def _body(self, stmts):
        out = []
        for st in stmts:
            st = self.visit(st)
            pre = None
            if isinstance(st, ast.Expr):
                pre = self._split(st, st.value)
            elif isinstance(st, ast.Assign) and len(st.targets) == 1 and isinstance(st.targets[0], ast.Name):
                pre = self._split(st, st.value)
            elif isinstance(st, ast.Return) and st.value is not None:
                pre = self._split(st, st.value)
            out.extend(pre or [])
            out.append(st)
        return out

    def generic_visit(self, node):
        for fld in ('body', 'orelse', 'finalbody'):
            v = getattr(node, fld, None)
            if isinstance(v, list) and v and isinstance(v[0], ast.stmt):
                setattr(node, fld, self._body(v))
        if isinstance(node, ast.Try):
            for h in node.handlers:
                h.body = self._body(h.body)
        if isinstance(node, ast.Match):
            for c in node.cases:
                c.body = self._body(c.body)
        return node

    def visit_Lambda(self, node):
        return node

    def visit_ClassDef(self, node):
        # class bodies: only the methods
        node.body = [self.visit(x) if isinstance(x, (ast.FunctionDef, ast.AsyncFunctionDef, ast.ClassDef)) else x for x in node.body]
        return node

    def visit_Module(self, node):
        node.body = [self.visit(x) if isinstance(x, (ast.FunctionDef, ast.AsyncFunctionDef, ast.ClassDef)) else x for x in node.body]
        return node


class _GuardClauses(ast.NodeTransformer):
    """an `if c: A else: B` that is the LAST statement of a loop body becomes `if c: A; continue` followed by B; as the last
    statement of a function that returns nothing it becomes `if c: A; return` followed by B.  (The else arm must not be a single
    nested `if` - an elif chain keeps its shape - and A must not already end in a jump.)"""

    def __init__(self):
        self.count = 0

    @staticmethod
    def _jumps(stmts):
        return bool(stmts) and isinstance(stmts[-1], (ast.Return, ast.Raise, ast.Continue, ast.Break))

    def _tail(self, body, jump):
        if not body or not isinstance(body[-1], ast.If):
            return body
        last = body[-1]
        if not last.orelse or (len(last.orelse) == 1 and isinstance(last.orelse[0], ast.If)) or self._jumps(last.body):
            return body
        self.count += 1
        guard = ast.copy_location(ast.If(test=last.test, body=list(last.body) + [ast.copy_location(jump(), last)], orelse=[]), last)
        return body[:-1] + [guard] + list(last.orelse)

    def visit_For(self, n):
        self.generic_visit(n)
        if not n.orelse:
            n.body = self._tail(n.body, ast.Continue)
        return n

    visit_While = visit_For

    def visit_FunctionDef(self, n):
        self.generic_visit(n)
        own_returns = []
        stack = list(n.body)
        while stack:
            x = stack.pop()
            if isinstance(x, (ast.FunctionDef, ast.AsyncFunctionDef, ast.Lambda, ast.ClassDef)):
                continue
            if isinstance(x, ast.Return):
                own_returns.append(x)
            if isinstance(x, (ast.Yield, ast.YieldFrom)):
                return n
            stack.extend(ast.iter_child_nodes(x))
        if all(r.value is None for r in own_returns):
            n.body = self._tail(n.body, lambda: ast.Return(value=None))
        return n


class _CompToLoop(ast.NodeTransformer):
    """`x = [E for t in IT if c]` (a plain assignment of a list comprehension with one generator, no nested comprehension or lambda
    inside) becomes `x = []; for t_k in IT: if c: x.append(E)` with the loop variable renamed to a fresh name (a comprehension
    variable does not leak, a loop variable does).  Not when x occurs in the comprehension itself."""

    def __init__(self):
        self.count = 0
        self.k = 0

    def _body(self, stmts):
        out = []
        for st in stmts:
            v = st.value if isinstance(st, ast.Assign) and len(st.targets) == 1 and isinstance(st.targets[0], ast.Name) else None
            if isinstance(v, ast.ListComp) and len(v.generators) == 1 and not v.generators[0].is_async \
                    and not any(isinstance(x, (ast.ListComp, ast.SetComp, ast.DictComp, ast.GeneratorExp, ast.Lambda, ast.NamedExpr, ast.Await,
                                               ast.Yield, ast.YieldFrom)) for y in [v.elt] + v.generators[0].ifs + [v.generators[0].iter]
                               for x in ast.walk(y)) \
                    and not any(isinstance(x, ast.Name) and x.id == st.targets[0].id for x in ast.walk(v)):
                g = v.generators[0]
                names = [x.id for x in ast.walk(g.target) if isinstance(x, ast.Name)]
                ren = {}
                for nm in names:
                    ren[nm] = f'{nm}_c{self.k}'
                self.k += 1
                r = _Rename(ren)
                tgt = r.visit(g.target)
                elt = r.visit(v.elt)
                ifs = [r.visit(c) for c in g.ifs]
                x = st.targets[0].id
                app = ast.Expr(value=ast.Call(func=ast.Attribute(value=ast.Name(id=x, ctx=ast.Load()), attr='append', ctx=ast.Load()),
                                              args=[elt], keywords=[]))
                body = [app]
                for c in reversed(ifs):
                    body = [ast.If(test=c, body=body, orelse=[])]
                for_ = ast.For(target=tgt, iter=g.iter, body=body, orelse=[])
                for t in ast.walk(for_.target):
                    if isinstance(t, ast.Name):
                        t.ctx = ast.Store()
                init = ast.Assign(targets=[ast.Name(id=x, ctx=ast.Store())], value=ast.List(elts=[], ctx=ast.Load()))
                out.extend([ast.copy_location(init, st), ast.copy_location(for_, st)])
                self.count += 1
            else:
                out.append(st)
        return out

    def generic_visit(self, node):
        super().generic_visit(node)
        for fld in ('body', 'orelse', 'finalbody'):
            v = getattr(node, fld, None)
            if isinstance(v, list) and v and isinstance(v[0], ast.stmt) and not isinstance(node, (ast.ClassDef, ast.Module)):
                setattr(node, fld, self._body(v))
        return node


def apply(kind: str, root: str) -> int:
    total = 0
    for fp in _py_files(root):
        with open(fp, encoding='utf-8') as f:
            src = f.read()
        tree = ast.parse(src)
        if kind == 'rename-locals':
            total += rename_locals_in(tree)
        elif kind == 'invert-branches':
            t = _Invert()
            tree = t.visit(tree)
            total += t.count
        elif kind == 'hoist-call-args':
            t = _HoistCallArgs()
            tree = t.visit(tree)
            total += t.count
        elif kind == 'return-via-local':
            t = _ReturnViaLocal()
            tree = t.visit(tree)
            total += t.count
        elif kind == 'comp-to-loop':
            t = _CompToLoop()
            tree = t.visit(tree)
            total += t.count
        elif kind == 'guard-clauses':
            t = _GuardClauses()
            tree = t.visit(tree)
            total += t.count
        elif kind == 'unparse-all':
            total += 1
        else:
            raise ValueError(kind)
        ast.fix_missing_locations(tree)
        with open(fp, 'w', encoding='utf-8') as f:
            f.write(ast.unparse(tree) + '\n')
    return total
