"""Mutants (one rule instance broken; must be reported) and benign twins (behaviour kept; must stay silent).

Each variant: id, property, edits [(path, old, new)], expect 'fire' | 'silent', optional `names` (substring that must
appear in the report line, so that the right instance is named).
"""

RS = 'rust/src/lib.rs'
PG = 'generation/src/proof_generation/'

VARIANTS = []


def V(id, prop, edits, expect='fire', names=None):
    VARIANTS.append({'id': id, 'property': prop, 'edits': edits, 'expect': expect, 'names': names})


# ---------------------------------------------------------------- C06 / C01 S6
for prop in ('C06', 'C01'):
    V(f'{prop}-implies-or', prop, [(RS, 'Pattern::Implies { left, right } => left.e_fresh(evar) && right.e_fresh(evar),',
                                    'Pattern::Implies { left, right } => left.e_fresh(evar) || right.e_fresh(evar),')], names='e_fresh/Implies')
    V(f'{prop}-polarity-not-swapped', prop, [(RS, 'Pattern::Implies { left, right } => left.negative(svar) && right.positive(svar),',
                                              'Pattern::Implies { left, right } => left.positive(svar) && right.positive(svar),')], names='positive/Implies')
    V(f'{prop}-esubst-ignores-plug', prop, [(RS, '                pattern.e_fresh(evar) && plug.e_fresh(evar)\n            }\n            Pattern::SSubst { pattern, plug, .. } => {\n                // Assume: substitution is well-formed => plug occurs in the result\n\n                // We can skip checking evar == svar_id',
                                             '                pattern.e_fresh(evar)\n            }\n            Pattern::SSubst { pattern, plug, .. } => {\n                // Assume: substitution is well-formed => plug occurs in the result\n\n                // We can skip checking evar == svar_id')], names='e_fresh/ESubst')
    V(f'{prop}-mu-sfresh-ignores-binder', prop, [(RS, 'Pattern::Mu { var, subpattern } => svar == *var || subpattern.positive(svar),',
                                                  'Pattern::Mu { var, subpattern } => svar != *var || subpattern.positive(svar),')], names='positive/Mu')
    # more conservative judgement: still sound (a C05 deviation, not a C06 one)
    V(f'{prop}-twin-exists-conservative', prop, [(RS, 'Pattern::Exists { var, subpattern } => evar == *var || subpattern.e_fresh(evar),',
                                                  'Pattern::Exists { subpattern, .. } => subpattern.e_fresh(evar),')], expect='silent')
    V(f'{prop}-twin-if-return', prop, [(RS, 'Pattern::App { left, right } => left.s_fresh(svar) && right.s_fresh(svar),',
                                        'Pattern::App { left, right } => {\n                if !left.s_fresh(svar) {\n                    return false;\n                }\n                right.s_fresh(svar)\n            }')], expect='silent')
V('C06-py-exists-and', 'C06', [(PG + 'pattern.py', '        return name == self.var or self.subpattern.evar_is_free(name)',
                                '        return name != self.var or self.subpattern.evar_is_free(name)')], names='evar_is_free/Exists')
V('C06-py-esubst-plug-dropped', 'C06', [(PG + 'pattern.py', '        # We assume that at least one instance will be replaced\n        return self.pattern.evar_is_free(name) and self.plug.evar_is_free(name)\n\n    def metavars(self) -> set[int]:\n        return self.pattern.metavars().union(self.plug.metavars())\n\n    def instantiate(self, delta: Mapping[int, Pattern]) -> Pattern:\n        if not delta:\n            return self\n        return self.pattern.instantiate(delta).apply_esubst(',
                                         '        # We assume that at least one instance will be replaced\n        return self.pattern.evar_is_free(name)\n\n    def metavars(self) -> set[int]:\n        return self.pattern.metavars().union(self.plug.metavars())\n\n    def instantiate(self, delta: Mapping[int, Pattern]) -> Pattern:\n        if not delta:\n            return self\n        return self.pattern.instantiate(delta).apply_esubst(')], names='evar_is_free/ESubst')
V('C06-py-twin-implies-ifs', 'C06', [(PG + 'pattern.py', '    def evar_is_free(self, name: int) -> bool:\n        return self.left.evar_is_free(name) and self.right.evar_is_free(name)\n\n    def metavars(self) -> set[int]:\n        return self.left.metavars().union(self.right.metavars())\n\n    def instantiate(self, delta: Mapping[int, Pattern]) -> Pattern:\n        if not delta:\n            return self\n        return Implies(',
                                      '    def evar_is_free(self, name: int) -> bool:\n        if not self.left.evar_is_free(name):\n            return False\n        return self.right.evar_is_free(name)\n\n    def metavars(self) -> set[int]:\n        return self.left.metavars().union(self.right.metavars())\n\n    def instantiate(self, delta: Mapping[int, Pattern]) -> Pattern:\n        if not delta:\n            return self\n        return Implies(')], expect='silent')

# ---------------------------------------------------------------- C01
V('C01-mp-compare-right', 'C01', [(RS, 'if *left.as_ref() != *premise2.as_ref() {', 'if *right.as_ref() != *premise2.as_ref() {')], names='ModusPonens')
V('C01-mp-no-check', 'C01', [(RS, 'if *left.as_ref() != *premise2.as_ref() {', 'if false {')], names='ModusPonens')
V('C01-gen-fresh-in-left', 'C01', [(RS, 'if !right.e_fresh(evar_id) {', 'if !left.e_fresh(evar_id) {')], names='Generalization')
V('C01-gen-sfresh', 'C01', [(RS, 'if !right.e_fresh(evar_id) {', 'if !right.s_fresh(evar_id) {')], names='Generalization')
V('C01-save-pattern-as-proved', 'C01', [(RS, 'Term::Pattern(p) => memory.push(Entry::Pattern(p.clone())),', 'Term::Pattern(p) => memory.push(Entry::Proved(p.clone())),')], names='Save')
V('C01-load-pattern-as-proved', 'C01', [(RS, 'Entry::Pattern(p) => stack.push(Term::Pattern(p.clone())),', 'Entry::Pattern(p) => stack.push(Term::Proved(p.clone())),')], names='Load')
V('C01-claim-publish-to-memory', 'C01', [(RS, '                    let claim = pop_stack_pattern(stack);\n                    claims.push(claim)', '                    let claim = pop_stack_pattern(stack);\n                    memory.push(Entry::Proved(claim.clone()));\n                    claims.push(claim)')], names='Publish')
V('C01-negative-checked-with-positive', 'C01', [(RS, '.find(|&svar| !plugs[pos].negative(*svar))', '.find(|&svar| !plugs[pos].positive(*svar))')], names='negative')
V('C01-efresh-constraint-dropped', 'C01', [(RS, 'if let Some(evar) = e_fresh.into_iter().find(|&evar| !plugs[pos].e_fresh(*evar)) {', 'if let Some(evar) = e_fresh.into_iter().find(|&_evar| false) {')], names='e_fresh')
V('C01-capture-guard-deleted', 'C01', [(RS, '            assert!(\n                plug.e_fresh(*var),\n                "EVar substitution would capture free variable {}!",\n                var\n            );\n', '')], names='apply_esubst/Exists')
V('C01-capture-wrong-sort', 'C01', [(RS, '            assert!(\n                plug.s_fresh(*var),\n                "SVar substitution would capture free variable {}!",', '            assert!(\n                plug.e_fresh(*var),\n                "SVar substitution would capture free variable {}!",')], names='apply_ssubst/Mu')
V('C01-mu-wf-dropped', 'C01', [(RS, '                if !mu_pat.well_formed() {', '                if false && !mu_pat.well_formed() {')], names='Mu')
V('C01-wf-mu-negative', 'C01', [(RS, 'Pattern::Mu { var, subpattern } => subpattern.positive(*var),', 'Pattern::Mu { var, subpattern } => subpattern.negative(*var),')], names='well_formed/Mu')
V('C01-prop1-wrong', 'C01', [(RS, '        implies(Rc::clone(&phi1), Rc::clone(&phi0)),\n    );', '        implies(Rc::clone(&phi1), Rc::clone(&phi1)),\n    );')], names='Prop1')
V('C01-publish-proof-no-compare', 'C01', [(RS, '                    if claim != theorem {', '                    if false && claim != theorem {')], names='Publish')
V('C01-twin-assert-to-if', 'C01', [(RS, '            assert!(\n                plug.e_fresh(*var),\n                "EVar substitution would capture free variable {}!",\n                var\n            );\n', '            if !plug.e_fresh(*var) {\n                panic!("EVar substitution would capture free variable {}!", var);\n            }\n')], expect='silent')
V('C01-twin-ne-to-not-eq', 'C01', [(RS, 'if *left.as_ref() != *premise2.as_ref() {', 'if !(*left.as_ref() == *premise2.as_ref()) {')], expect='silent')
V('C01-twin-guard-in-helper', 'C01', [(RS, '                    if !right.e_fresh(evar_id) {\n                        panic!("The binding variable has to be fresh in the conclusion.");\n                    }', '                    let is_fresh = right.e_fresh(evar_id);\n                    if !is_fresh {\n                        panic!("The binding variable has to be fresh in the conclusion.");\n                    }')], expect='silent')

# ---------------------------------------------------------------- C05
V('C05-mu-positive-no-shortcut', 'C05', [(RS, 'Pattern::Mu { var, subpattern } => svar == *var || subpattern.positive(svar),', 'Pattern::Mu { subpattern, .. } => subpattern.positive(svar),')], names='positive/Mu')
V('C05-operand-unwrap-or', 'C05', [(RS, '                let id = *iterator\n                    .next()\n                    .expect("Expected id for the EVar to be put on stack")\n                    as Id;', '                let id = *iterator.next().unwrap_or(&0) as Id;')], names='EVar')
V('C05-final-claims-check-deleted', 'C05', [(RS, '    assert!(\n        claims.is_empty(),\n        "Checking finished but there are claims left unproved:\\n{:?}\\n",\n        claims\n    );\n', '')], names='verify')
V('C05-pop-pattern-where-proved', 'C05', [(RS, '                let premise2 = pop_stack_proved(stack);', '                let premise2 = pop_stack_pattern(stack);')], names='ModusPonens')
V('C05-unknown-opcode-ignored', 'C05', [(RS, '            _ => {\n                unimplemented!("Instruction: {}", instr_u32)\n            }', '            _ => {}')], names='reject')
V('C05-bad-byte-default', 'C05', [(RS, '            _ => panic!("Bad Instruction!"),', '            _ => Instruction::Pop,')], names='decode')
V('C05-esubst-pops-swapped', 'C05', [(RS, '                let pattern = pop_stack_pattern(stack);\n                let plug = pop_stack_pattern(stack);\n\n                let esubst_pat', '                let plug = pop_stack_pattern(stack);\n                let pattern = pop_stack_pattern(stack);\n\n                let esubst_pat')], names='ESubst')
V('C05-stack-not-cleared', 'C05', [(RS, '    stack.clear();\n\n    execute_instructions(\n        proof_buffer,', '    execute_instructions(\n        proof_buffer,')], names='verify')
V('C05-load-get-unwrap-or', 'C05', [(RS, '                match &memory[index as usize] {', '                match memory.get(index as usize).unwrap_or(&memory[0]) {')], names='Load')
V('C05-twin-expect-to-match', 'C05', [(RS, '                let id = *iterator\n                    .next()\n                    .expect("Expected id for the SVar to be put on stack")\n                    as Id;', '                let id = match iterator.next() {\n                    Some(b) => *b as Id,\n                    None => panic!("Expected id for the SVar to be put on stack"),\n                };')], expect='silent')
V('C05-twin-arms-reordered', 'C05', [(RS, '            Instruction::Prop1 => {\n                stack.push(Term::Proved(Rc::clone(&prop1)));\n            }\n            Instruction::Prop2 => {\n                stack.push(Term::Proved(Rc::clone(&prop2)));\n            }', '            Instruction::Prop2 => {\n                stack.push(Term::Proved(Rc::clone(&prop2)));\n            }\n            Instruction::Prop1 => {\n                stack.push(Term::Proved(Rc::clone(&prop1)));\n            }')], expect='silent')

# ---------------------------------------------------------------- C02
V('C02-opcode-renumbered-py', 'C02', [(PG + 'instruction.py', '    Mu = 0x07\n    Exists = 0x08', '    Mu = 0x08\n    Exists = 0x07')], names='opcode-byte')
V('C02-esubst-slots-swapped', 'C02', [(PG + 'stateful_interpreter.py', '    def esubst(self, evar_id: int, pattern: MetaVar | ESubst | SSubst, plug: Pattern) -> Pattern:\n        *self.stack, expected_plug, expected_pattern = self.stack', '    def esubst(self, evar_id: int, pattern: MetaVar | ESubst | SSubst, plug: Pattern) -> Pattern:\n        *self.stack, expected_pattern, expected_plug = self.stack')], names='esubst')
V('C02-claims-not-reversed', 'C02', [(PG + 'proof.py', '        for claim in reversed(self._claims):', '        for claim in self._claims:')], names='claim-order')
V('C02-keys-not-reversed', 'C02', [(PG + 'serializing_interpreter.py', '    def instantiate(self, proved: Proved, delta: dict[int, Pattern]) -> Proved:\n        ret = super().instantiate(proved, delta)\n        self.out.write(bytes([Instruction.Instantiate, len(delta), *reversed(delta.keys())]))', '    def instantiate(self, proved: Proved, delta: dict[int, Pattern]) -> Proved:\n        ret = super().instantiate(proved, delta)\n        self.out.write(bytes([Instruction.Instantiate, len(delta), *delta.keys()]))')], names='id-plug-pairing')
V('C02-mu-operand-dropped', 'C02', [(PG + 'serializing_interpreter.py', '        self.out.write(bytes([Instruction.Mu, var]))', '        self.out.write(bytes([Instruction.Mu]))')], names='layout')
V('C02-implies-args-swapped-basic', 'C02', [(PG + 'basic_interpreter.py', '    def implies(self, left: Pattern, right: Pattern) -> Pattern:\n        return Implies(left, right)', '    def implies(self, left: Pattern, right: Pattern) -> Pattern:\n        return Implies(right, left)')], names='wiring')
V('C02-prop2-basic-wrong', 'C02', [(PG + 'basic_interpreter.py', '                Implies(Implies(phi0, phi1), Implies(phi0, phi2)),\n            ),\n        )', '                Implies(Implies(phi0, phi1), Implies(phi1, phi2)),\n            ),\n        )')], names='Prop2')
V('C02-rust-exists-operand-swapped', 'C02', [(RS, '                stack.push(Term::Pattern(exists(id, subpattern)))', '                stack.push(Term::Pattern(mu(id, subpattern)))')], names='exists')
V('C02-gen-writes-wrong-var', 'C02', [(PG + 'serializing_interpreter.py', '        self.out.write(bytes([Instruction.Generalization, var.name]))', '        self.out.write(bytes([Instruction.Generalization, 0]))')], names='exists_generalization')
V('C02-twin-local-bytes', 'C02', [(PG + 'serializing_interpreter.py', '        self.out.write(bytes([Instruction.App]))', '        payload = bytes([Instruction.App])\n        self.out.write(payload)')], expect='silent')
V('C02-twin-stateful-asserts-swapped', 'C02', [(PG + 'stateful_interpreter.py', '    def app(self, left: Pattern, right: Pattern) -> Pattern:\n        *self.stack, expected_left, expected_right = self.stack\n        assert expected_left == left\n        assert expected_right == right', '    def app(self, left: Pattern, right: Pattern) -> Pattern:\n        *self.stack, expected_left, expected_right = self.stack\n        assert right == expected_right\n        assert left == expected_left')], expect='silent')

# ---------------------------------------------------------------- C10
PP = PG + 'proofs/propositional.py'
TT = PG + 'tautology.py'
V('C10-and_l_imp-wrong-arg', 'C10', [(PP, '        return self.con1(self.absurd(p, neg(q)))', '        return self.con1(self.absurd(p, q))')], names='and_l_imp')
V('C10-and_r_imp-swapped', 'C10', [(PP, '        return self.con1(self.prop1_inst(neg(q), p))', '        return self.con1(self.prop1_inst(neg(p), q))')], names='and_r_imp')
V('C10-or_distr_r-wrong-axiom', 'C10', [(TT, '        return self.dynamic_inst(self.load_axiom_by_index(2), _build_subst([pat1, pat2, pat3]))', '        return self.dynamic_inst(self.load_axiom_by_index(3), _build_subst([pat1, pat2, pat3]))')], names='or_distr_r')
V('C10-axiom-list-edited', 'C10', [(TT, '                Implies(_or(_or(phi0, phi1), phi2), _or(phi0, _or(phi1, phi2))),', '                Implies(_or(_or(phi0, phi1), phi2), _or(phi1, _or(phi0, phi2))),')], names='lemma-schema')
V('C10-imp-provable-returns-other-valid', 'C10', [(PP, '        q = q_pf.conc\n        return self.modus_ponens(self.prop1_inst(q, p), q_pf)', '        q = q_pf.conc\n        return self.modus_ponens(self.prop1_inst(q, q), q_pf)')], names='imp_provable')
V('C10-notation-redefined', 'C10', [(PG + 'pattern.py', "_or = Notation('or', 2, Implies(neg(phi0), phi1), '({0} ⋁ {1})')", "_or = Notation('or', 2, Implies(neg(phi1), phi0), '({0} ⋁ {1})')")], names='lemma-schema')
V('C10-thunk-built-in-library', 'C10', [(PP, '    def top_intro(self) -> ProofThunk:\n        """top"""\n        return self.imp_refl(bot())', '    def top_intro(self) -> ProofThunk:\n        """top"""\n        from proof_generation.proof import ProofThunk as PT\n        return ProofThunk(lambda i: self.imp_refl(bot())(i), top())')], names='thunk-confinement')
V('C10-twin-renamed-local', 'C10', [(PP, '        q = q_pf.conc\n        return self.modus_ponens(self.prop1_inst(q, p), q_pf)', '        concl = q_pf.conc\n        step = self.prop1_inst(concl, p)\n        return self.modus_ponens(step, q_pf)')], expect='silent')
V('C10-twin-other-derivation', 'C10', [(PP, '    def top_intro(self) -> ProofThunk:\n        """top"""\n        return self.imp_refl(bot())', '    def top_intro(self) -> ProofThunk:\n        """top"""\n        return self.bot_elim(bot())')], expect='silent')

# ---------------------------------------------------------------- C07
BI = PG + 'basic_interpreter.py'
ST = PG + 'stateful_interpreter.py'
SER = PG + 'serializing_interpreter.py'
V('C07-mp-assert-deleted', 'C07', [(BI, "        assert l == right.conclusion, str(l) + ' != ' + str(right.conclusion)\n", '')], names='modus_ponens')
V('C07-mp-assert-wrong-side', 'C07', [(BI, "        assert l == right.conclusion, str(l) + ' != ' + str(right.conclusion)", "        assert l == left.conclusion, str(l) + ' != ' + str(right.conclusion)")], names='modus_ponens')
V('C07-mp-returns-antecedent', 'C07', [(BI, '        return Proved(r)\n\n    def exists_quantifier', '        return Proved(l)\n\n    def exists_quantifier')], names='modus_ponens')
V('C07-gen-assert-deleted', 'C07', [(BI, "        assert r.evar_is_free(var.name), f'{str(var)} in FV({str(r)})'\n", '')], names='exists_generalization')
V('C07-gen-fresh-in-left', 'C07', [(BI, "        assert r.evar_is_free(var.name), f'{str(var)} in FV({str(r)})'", "        assert l.evar_is_free(var.name), f'{str(var)} in FV({str(r)})'")], names='exists_generalization')
V('C07-override-recomputes', 'C07', [(ST, '        ret = super().modus_ponens(left, right)\n        self.stack.append(ret)\n        return ret', '        ret = super().modus_ponens(left, right)\n        self.stack.append(ret)\n        return Proved(ret.conclusion)')], names='StatefulInterpreter.modus_ponens')
V('C07-override-swaps-args', 'C07', [(SER, '        ret = super().modus_ponens(left, right)', '        ret = super().modus_ponens(right, left)')], names='SerializingInterpreter.modus_ponens')
V('C07-extract-no-assert', 'C07', [(PG + 'pattern.py', "        assert ret is not None, f'Expected a/an {cls.__name__} but got instead: {str(pattern)}\\n'\n", '')], names='Pattern.extract')
V('C07-twin-if-raise', 'C07', [(BI, "        assert l == right.conclusion, str(l) + ' != ' + str(right.conclusion)", "        if l != right.conclusion:\n            raise AssertionError(str(l) + ' != ' + str(right.conclusion))")], expect='silent')
V('C07-twin-no-local', 'C07', [(BI, '        left_conclusion = left.conclusion\n        l, r = Implies.extract(left_conclusion)', '        l, r = Implies.extract(left.conclusion)')], expect='silent')

# ---------------------------------------------------------------- C08
IT = PG + 'interpreter_transformer.py'
V('C08-forwarder-swaps', 'C08', [(IT, '        ret = self.sub_interpreter.modus_ponens(left, right)', '        ret = self.sub_interpreter.modus_ponens(right, left)')], names='modus_ponens')
V('C08-forwarder-no-return', 'C08', [(IT, '        ret = self.sub_interpreter.implies(left, right)\n        return ret', '        ret = self.sub_interpreter.implies(left, right)\n        return left')], names='implies')
V('C08-forwarder-wrong-method', 'C08', [(IT, '        ret = self.sub_interpreter.app(left, right)', '        ret = self.sub_interpreter.implies(left, right)')], names='InterpreterTransformer.app')
V('C08-thunk-assert-deleted', 'C08', [(PG + 'proof.py', '        assert proved.conclusion == self.conc\n', '')], names='ProofThunk.__call__')
V('C08-proved-minted-in-optimizer', 'C08', [(PG + 'optimizing_interpreters.py', '            ret = super().pattern(p)\n            self.save(repr(p), p)\n            return ret', '            ret = super().pattern(p)\n            self.save(repr(p), p)\n            from proof_generation.proved import Proved\n            _ = Proved(p)\n            return ret')], names='proved-confinement')
V('C08-static-mp-wrong', 'C08', [(PG + 'proof.py', '        return ProofThunk((lambda interpreter: interpreter.modus_ponens(left(interpreter), right(interpreter))), q)', '        return ProofThunk((lambda interpreter: interpreter.modus_ponens(left(interpreter), right(interpreter))), p)')], names='static-conclusion')
V('C08-static-prop1-wrong', 'C08', [(PG + 'proof.py', '        return ProofThunk((lambda interpreter: interpreter.prop1()), Implies(phi0, Implies(phi1, phi0)))', '        return ProofThunk((lambda interpreter: interpreter.prop1()), Implies(phi0, Implies(phi1, phi1)))')], names='prop1')
V('C08-optimizer-other-map', 'C08', [(PG + 'optimizing_interpreters.py', '        ret = b_interp.instantiate(proved, delta)', '        ret = b_interp.instantiate(proved, dict(list(delta.items())[:1]))')], names='InstantiationOptimizer.instantiate')
V('C08-twin-forwarder-inline', 'C08', [(IT, '        ret = self.sub_interpreter.mu(var, subpattern)\n        return ret', '        return self.sub_interpreter.mu(var, subpattern)')], expect='silent')

# ---------------------------------------------------------------- C04
V('C04-append-dropped', 'C04', [(ST, '        ret = super().prop2()\n        self.stack.append(ret)\n        return ret', '        ret = super().prop2()\n        return ret')], names='prop2')
V('C04-pop-one-instead-of-two', 'C04', [(ST, '    def app(self, left: Pattern, right: Pattern) -> Pattern:\n        *self.stack, expected_left, expected_right = self.stack\n        assert expected_left == left\n        assert expected_right == right', '    def app(self, left: Pattern, right: Pattern) -> Pattern:\n        *self.stack, expected_right = self.stack\n        assert expected_right == right')], names='app')
V('C04-load-index-of-other-term', 'C04', [(SER, '        self.out.write(bytes([Instruction.Load, self.memory.index(term)]))', '        self.out.write(bytes([Instruction.Load, self.memory.index(self.stack[-1])]))')], names='load-address')
V('C04-memory-append-in-pop', 'C04', [(ST, '        self.stack.pop()\n        super().pop(term)', '        self.stack.pop()\n        self.memory.append(term)\n        super().pop(term)')], names='pop')
V('C04-phase-keeps-stack', 'C04', [(ST, '    def into_proof_phase(self) -> None:\n        self.stack = []\n', '    def into_proof_phase(self) -> None:\n')], names='into_proof_phase')
V('C04-publish-axiom-no-memory', 'C04', [(ST, '        self.memory.append(Proved(axiom))\n', '')], names='memory')
V('C04-twin-explicit-pops', 'C04', [(ST, '    def exists(self, var: int, subpattern: Pattern) -> Pattern:\n        *self.stack, expected_subpattern = self.stack\n        assert expected_subpattern == subpattern', '    def exists(self, var: int, subpattern: Pattern) -> Pattern:\n        expected_subpattern = self.stack[-1]\n        assert expected_subpattern == subpattern\n        self.stack.pop()')], expect='silent')

# ---------------------------------------------------------------- C14
DS = PG + 'deserialize.py'
V('C14-new-opcode-without-reader', 'C14', [(SER, '        self.out.write(bytes([Instruction.Prop3]))', '        self.out.write(bytes([Instruction.Existence]))')], names='Existence')
V('C14-reader-swapped-slots', 'C14', [(DS, "            right = interpreter.stack[-1]\n            left = interpreter.stack[-2]\n            _ = interpreter.implies(left, right)", "            right = interpreter.stack[-2]\n            left = interpreter.stack[-1]\n            _ = interpreter.implies(left, right)")], names='Implies')
V('C14-reader-drops-operand', 'C14', [(DS, "            id = next_byte('Expected Mu binder id.')\n            subpattern = interpreter.stack[-1]\n            _ = interpreter.mu(id, subpattern)", "            id = 0\n            subpattern = interpreter.stack[-1]\n            _ = interpreter.mu(id, subpattern)")], names='Mu')
V('C14-reader-calls-other-method', 'C14', [(DS, "            _ = interpreter.prop2()", "            _ = interpreter.prop1()")], names='Prop2')
V('C14-else-does-not-raise', 'C14', [(DS, "            raise NotImplementedError(f'Unknown instruction: {instruction}')", "            pass")], names='decode-loop')
V('C14-twin-reader-renamed-locals', 'C14', [(DS, "            right = interpreter.stack[-1]\n            left = interpreter.stack[-2]\n            _ = interpreter.app(left, right)", "            top = interpreter.stack[-1]\n            below = interpreter.stack[-2]\n            _ = interpreter.app(below, top)")], expect='silent')

# ---------------------------------------------------------------- C11
PT = PG + 'pattern.py'
V('C11-exists-no-shadowing', 'C11', [(PT, '    def apply_esubst(self, evar_id: int, plug: Pattern) -> Pattern:\n        if evar_id == self.var:\n            return self\n        return Exists(self.var, self.subpattern.apply_esubst(evar_id, plug))', '    def apply_esubst(self, evar_id: int, plug: Pattern) -> Pattern:\n        return Exists(self.var, self.subpattern.apply_esubst(evar_id, plug))')], names='apply_esubst/Exists')
V('C11-mu-wrong-sort-compare', 'C11', [(PT, '    def apply_ssubst(self, svar_id: int, plug: Pattern) -> Pattern:\n        if svar_id == self.var:\n            return self\n        return Mu(self.var, self.subpattern.apply_ssubst(svar_id, plug))', '    def apply_ssubst(self, svar_id: int, plug: Pattern) -> Pattern:\n        if svar_id != self.var:\n            return self\n        return Mu(self.var, self.subpattern.apply_ssubst(svar_id, plug))')], names='apply_ssubst/Mu')
V('C11-implies-inst-left-only', 'C11', [(PT, '        return Implies(self.left.instantiate(delta), self.right.instantiate(delta))', '        return Implies(self.left.instantiate(delta), self.right)')], names='instantiate/Implies')
V('C11-metavar-wraps-wrong-ctor', 'C11', [(PT, '        return ESubst(pattern=self, var=EVar(evar_id), plug=plug)\n\n    def apply_ssubst(self, svar_id: int, plug: Pattern) -> Pattern:\n        if SVar(svar_id) in self.s_fresh:', '        return SSubst(pattern=self, var=SVar(evar_id), plug=plug)\n\n    def apply_ssubst(self, svar_id: int, plug: Pattern) -> Pattern:\n        if SVar(svar_id) in self.s_fresh:')], names='apply_esubst/MetaVar')
V('C11-esubst-inst-plug-not-instantiated', 'C11', [(PT, '        return self.pattern.instantiate(delta).apply_esubst(self.var.name, self.plug.instantiate(delta))', '        return self.pattern.instantiate(delta).apply_esubst(self.var.name, self.plug)')], names='instantiate/ESubst')
V('C11-evar-subst-returns-self', 'C11', [(PT, '        if evar_id == self.name:\n            return plug\n        return self', '        if evar_id == self.name:\n            return self\n        return self')], names='apply_esubst/EVar')
V('C11-notation-subst-on-body', 'C11', [(PT, '        return self.simplify().apply_esubst(evar_id, plug)', '        return Instantiate(self.pattern.apply_esubst(evar_id, plug), self.inst)')], names='Instantiate')
V('C11-rust-app-one-side', 'C11', [(RS, '        Pattern::App { left, right } => app(\n            apply_esubst(left, evar_id, plug),\n            apply_esubst(right, evar_id, plug),\n        ),', '        Pattern::App { left, right } => app(\n            apply_esubst(left, evar_id, plug),\n            Rc::clone(right),\n        ),')], names='apply_esubst/App')
V('C11-rust-inst-exists-drops-binder', 'C11', [(RS, '            Some(exists(*var, new_sub?))', '            Some(mu(*var, new_sub?))')], names='instantiate_internal/Exists')
V('C11-twin-shadow-ne', 'C11', [(PT, '    def apply_esubst(self, evar_id: int, plug: Pattern) -> Pattern:\n        if evar_id == self.var:\n            return self\n        return Exists(self.var, self.subpattern.apply_esubst(evar_id, plug))', '    def apply_esubst(self, evar_id: int, plug: Pattern) -> Pattern:\n        if evar_id != self.var:\n            return Exists(self.var, self.subpattern.apply_esubst(evar_id, plug))\n        return self')], expect='silent')
V('C11-twin-no-empty-shortcut', 'C11', [(PT, '    def instantiate(self, delta: Mapping[int, Pattern]) -> Pattern:\n        if not delta:\n            return self\n        return App(', '    def instantiate(self, delta: Mapping[int, Pattern]) -> Pattern:\n        return App(')], expect='silent')

# ---------------------------------------------------------------- C12
V('C12-deconstruct-no-see-through', 'C12', [(PT, '        if isinstance(pat, Exists):\n            return pat.var, pat.subpattern\n        if isinstance(pat, Instantiate):\n            return Exists.deconstruct(pat.simplify())\n        return None', '        if isinstance(pat, Exists):\n            return pat.var, pat.subpattern\n        return None')], names='Exists.deconstruct')
V('C12-unwrap-no-see-through', 'C12', [(PT, '        if isinstance(pattern, Instantiate):\n            return cls.unwrap(pattern.simplify())\n        if isinstance(pattern, cls):', '        if isinstance(pattern, cls):')], names='unwrap')
V('C12-notation-esubst-on-body', 'C12', [(PT, '        return self.simplify().apply_ssubst(svar_id, plug)', '        return Instantiate(self.pattern.apply_ssubst(svar_id, plug), self.inst)')], names='apply_ssubst')
V('C12-eq-structural', 'C12', [(PT, '        return self.simplify() == o', '        return self.pattern == o')], names='__eq__')
V('C12-nary-no-see-through', 'C12', [(PG + 'proofs/kore.py', '        case Instantiate(_, _):\n            # TODO: Consider something smarter here.\n            return deconstruct_nary_application(p.simplify())\n', '')], names='deconstruct_nary_application')
V('C12-twin-instantiate-first', 'C12', [(PT, '        if isinstance(pat, Mu):\n            return pat.var, pat.subpattern\n        if isinstance(pat, Instantiate):\n            return Mu.deconstruct(pat.simplify())\n        return None', '        if isinstance(pat, Instantiate):\n            return Mu.deconstruct(pat.simplify())\n        if isinstance(pat, Mu):\n            return pat.var, pat.subpattern\n        return None')], expect='silent')

# ---------------------------------------------------------------- C13
V('C13-match-truthiness', 'C13', [(PT, '        if submatch is None:\n            return None', '        if not submatch:\n            return None')], names='match')
V('C13-matches-walrus', 'C13', [(PT, '        match = self.matches(pattern)\n        if match is not None:\n            return match', '        if match := self.matches(pattern):\n            return match')], names='assert_matches')
V('C13-evar-deconstruct-truthiness', 'C13', [(PT, '    if (pat_evar is not None) and (inst_evar is not None):', '    if pat_evar and inst_evar:')], names='pat_evar')
V('C13-rebinds-bound-metavar', 'C13', [(PT, '        if id in ret:\n            if ret[id] != instance:\n                return None\n        else:', '        if id in ret:\n            ret[id] = instance\n        else:')], names='bound-metavariable')
V('C13-twin-tuple-truthiness-fixed-len', 'C13', [(PT, '    if (pat_ex := Exists.deconstruct(pattern)) and (inst_ex := Exists.deconstruct(instance)):', '    pat_ex = Exists.deconstruct(pattern)\n    inst_ex = Exists.deconstruct(instance)\n    if pat_ex and inst_ex:')], expect='silent')
V('C13-twin-is-not-none', 'C13', [(PT, '        if submatch is None:\n            return None', '        if submatch is not None:\n            ret = submatch\n            continue\n        return None')], expect='silent')

# ---------------------------------------------------------------- C03
PR = PG + 'proof.py'
OI = PG + 'optimizing_interpreters.py'
V('C03-axioms-sliced', 'C03', [(PR, '        for axiom in self._axioms:\n            interpreter.publish_axiom(interpreter.pattern(axiom))', '        for axiom in self._axioms[1:]:\n            interpreter.publish_axiom(interpreter.pattern(axiom))')], names='execute_gamma_phase')
V('C03-claims-set', 'C03', [(PR, '        for claim in reversed(self._claims):', '        for claim in reversed(list(dict.fromkeys(self._claims))[:-1]):')], names='execute_claims_phase')
V('C03-publishes-other-pattern', 'C03', [(PR, '            interpreter.publish_claim(interpreter.pattern(claim))', '            interpreter.publish_claim(interpreter.pattern(self._claims[0]))')], names='execute_claims_phase')
V('C03-memoizer-publishes', 'C03', [(OI, '            ret = super().pattern(p)\n            self.save(repr(p), p)\n            return ret', '            ret = super().pattern(p)\n            self.save(repr(p), p)\n            self.publish_axiom(ret)\n            return ret')], names='publish_axiom')
V('C03-optimizer-overrides-publish', 'C03', [(OI, 'class MemoizingInterpreter(InterpreterTransformer):', 'class MemoizingInterpreter(InterpreterTransformer):\n    def publish_claim(self, term: Pattern) -> None:\n        if term not in self._patterns_for_memoization:\n            self.sub_interpreter.publish_claim(term)\n')], names='MemoizingInterpreter.publish_claim')
V('C03-symbol-table-reset', 'C03', [(SER, '    def evar(self, id: int) -> Pattern:\n        ret = super().evar(id)', '    def into_proof_phase(self) -> None:\n        super().into_proof_phase()\n        self._symbol_identifiers = {}\n\n    def evar(self, id: int) -> Pattern:\n        ret = super().evar(id)')], names='created-once')
V('C03-id-masked', 'C03', [(SER, '        self.out.write(bytes([Instruction.Symbol, id]))', '        self.out.write(bytes([Instruction.Symbol, id % 256]))')], names='bounded-write')
V('C03-id-not-len', 'C03', [(SER, '            self._symbol_identifiers[name] = len(self._symbol_identifiers)', '            self._symbol_identifiers[name] = hash(name) % 256')], names='fresh-id-is-len')
V('C03-two-serializers', 'C03', [(PR, '            self.execute_full(MemoizingInterpreter(serializer, analyzer.finalize()))', '            self.execute_full(MemoizingInterpreter(self.get_serializing_interpreter(output_format, ExecutionPhase.Gamma, claims, file_path), analyzer.finalize()))')], names='one-serializer')
V('C03-twin-loop-var-renamed', 'C03', [(PR, '        for axiom in self._axioms:\n            interpreter.publish_axiom(interpreter.pattern(axiom))', '        for ax in self._axioms:\n            interpreter.publish_axiom(interpreter.pattern(ax))')], expect='silent')

# ---------------------------------------------------------------- C09
V('C09-swap-in-inner-loop', 'C09', [(TT, '                    left, right = (cl2, cl1) if resolvant < 0 else (cl1, cl2)\n                    hint[res_set] = ResolutionHintSource(left, right, abs(resolvant))', '                    if resolvant < 0:\n                        cl1, cl2 = cl2, cl1\n                        resolvant = -resolvant\n                    hint[res_set] = ResolutionHintSource(cl1, cl2, resolvant)')], names='outer-element-stable')
V('C09-resolvents-not-appended', 'C09', [(TT, '                    l.append(res_set)\n        return False', '                    pass\n        return False')], names='resolvents-rejoin')
V('C09-inner-over-copy', 'C09', [(TT, '        for cl1 in l:\n            for cl2 in l:\n                if cl2 == cl1:', '        for cl1 in l:\n            for cl2 in list(l)[:2]:\n                if cl2 == cl1:')], names='same-collection')
V('C09-twin-swap-then-break', 'C09', [(TT, '                    if not res_set:\n                        return True\n                    l.append(res_set)', '                    if not res_set:\n                        cl1 = res_set\n                        return True\n                    l.append(res_set)')], expect='silent')

# ---------------------------------------------------------------- C15
CV = PG + 'metamath/converter/converter.py'
V('C15-digit-table-gap', 'C15', [(CV, "            'K': 11,\n            'L': 12,", "            'K': 11,\n            'L': 11,")], names='digit-table')
V('C15-ms-table-shifted', 'C15', [(CV, "msdigit = {'U': 1, 'V': 2, 'W': 3, 'X': 4, 'Y': 5}", "msdigit = {'U': 0, 'V': 1, 'W': 2, 'X': 3, 'Y': 4}")], names='most-significant')
V('C15-numbering-from-set', 'C15', [(CV, '            for metavar in ordered_metavars:', '            for metavar in metavars:')], names='numbering-loop')
V('C15-numbering-sorted', 'C15', [(CV, '            for metavar in ordered_metavars:', '            for metavar in sorted(metavars):')], names='numbering-loop')
V('C15-numbering-from-0', 'C15', [(CV, '            metavars_id = 1\n', '            metavars_id = 0\n')], names='numbering-from-1')
V('C15-twin-tuple-comprehension', 'C15', [(CV, '            ordered_metavars = [var for var in self._floating_patterns if var in metavars]', '            ordered_metavars = list(var for var in self._floating_patterns if var in metavars)')], expect='silent')

# ---------------------------------------------------------------- C17
MA = PG + 'metamath/ast.py'
MS = PG + 'metamath/metamath_extract_slice.py'
V('C17-encoder-handler-missing', 'C17', [(MA, '    def postvisit_disjoint_statement(self, disjoint_statement: DisjointStatement) -> None:', '    def postvisit_disjoint_stmt(self, disjoint_statement: DisjointStatement) -> None:')], names='DisjointStatement')
V('C17-essential-letter-wrong', 'C17', [(MA, "        elif isinstance(stmt, EssentialStatement):\n            return 'e'", "        elif isinstance(stmt, EssentialStatement):\n            return 'a'")], names='EssentialStatement')
V('C17-keyword-mismatch', 'C17', [(MA, "        self.write('$v')", "        self.write('$c')")], names='variable_stmt')
V('C17-letter-chain-drops-provable', 'C17', [(MA, "        elif isinstance(stmt, ProvableStatement):\n            return 'p'\n", '')], names='ProvableStatement')
V('C17-slicer-constant-assert', 'C17', [(MS, "            raise AssertionError(f'Unanticipated statement type: {type(statement)}')", "            assert 'Unanticipated statement type', type(statement)")], names='slice_database')
V('C17-twin-letter-chain-reordered', 'C17', [(MA, "        if isinstance(stmt, FloatingStatement):\n            return 'f'\n        elif isinstance(stmt, EssentialStatement):\n            return 'e'", "        if isinstance(stmt, EssentialStatement):\n            return 'e'\n        elif isinstance(stmt, FloatingStatement):\n            return 'f'")], expect='silent')

# ---------------------------------------------------------------- C18
CI = PG + 'counting_interpreter.py'
V('C18-sorted-removed-in-numbering', 'C18', [(CV, '            for metavar in ordered_metavars:', '            for metavar in metavars:')], names='_import_proof')
V('C18-symbol-table-from-set', 'C18', [(SER, '    def evar(self, id: int) -> Pattern:\n        ret = super().evar(id)', '    def preload(self, names: set[str]) -> None:\n        for n in names:\n            self._symbol_identifiers[n] = len(self._symbol_identifiers)\n\n    def evar(self, id: int) -> Pattern:\n        ret = super().evar(id)'), (PR, '        if optimize:\n            analyzer = CountingInterpreter(ExecutionPhase.Gamma, claims)', '        if hasattr(serializer, "preload"):\n            serializer.preload({str(a) for a in self._axioms})\n        if optimize:\n            analyzer = CountingInterpreter(ExecutionPhase.Gamma, claims)')], names='preload')
V('C18-suggestions-listed', 'C18', [(CI, '        self._finalized = True\n        return self.suggested_for_memoization', '        self._finalized = True\n        self._order = list(self._suggested_for_memoization)\n        return self.suggested_for_memoization')], names='_suggested_for_memoization')
V('C18-module-level-cache', 'C18', [(OI, 'class InstantiationOptimizer(InterpreterTransformer):', '_SEEN: dict = {}\n\n\nclass InstantiationOptimizer(InterpreterTransformer):'), (OI, '    def pattern(self, p: Pattern) -> Pattern:\n', '    def pattern(self, p: Pattern) -> Pattern:\n        _SEEN[id(p)] = p\n')], names='cross-run-state')
V('C18-mutable-default', 'C18', [(PR, '    def add_axioms(self, axioms: list[Pattern]) -> None:', '    def add_axioms(self, axioms: list[Pattern] = []) -> None:')], names='default')
V('C18-twin-sorted-iteration', 'C18', [(PG + 'interpreter.py', '        return list(self._interpreting_warnings)', '        return sorted(self._interpreting_warnings)')], expect='silent')

# ---------------------------------------------------------------- C19
KO = PG + 'proofs/kore.py'
PPI = PG + 'pretty_printing_interpreter.py'
V('C19-format-drops-argument', 'C19', [(KO, "kore_not = Notation('kore-not', 2, _and(neg(phi1), kore_top(phi0)), '(k¬{1}):{0}')", "kore_not = Notation('kore-not', 2, _and(neg(phi1), kore_top(phi0)), '(k¬{1})')")], names='kore-not')
V('C19-fstring-consumes-placeholder', 'C19', [(PG + 'proofs/substitution.py', "f'(∀ x{var} . {{0}})'", "f'(∀ x{var} . {0})'")], names='forall')
V('C19-definition-uses-more', 'C19', [(KO, "kore_next = Notation('kore-next', 2, App(kore_next_symbol, phi1), '♦{1}')", "kore_next = Notation('kore-next', 2, App(App(kore_next_symbol, phi0), phi1), '♦{1}')")], names='kore-next')
V('C19-pretty-label-wrong', 'C19', [(PPI, "        self.out.write('Quantifier')", "        self.out.write('Existence')")], names='exists_quantifier')
V('C19-pretty-not-decorated', 'C19', [(PPI, "    @pretty()\n    def app(self, left: Pattern, right: Pattern) -> None:\n        self.out.write('App')", "    def app(self, left: Pattern, right: Pattern) -> Pattern:\n        return super().app(left, right)")], names='app')
V('C19-nary-placeholder-skipped', 'C19', [(KO, "        fmt_args.append('{' + str(i) + '}')", "        if i > 0:\n            fmt_args.append('{' + str(i) + '}')")], expect='silent')   # see note: still couples i with its placeholder; kept as twin guard
V('C19-twin-unused-arg-omitted', 'C19', [(KO, "kore_top = Notation('kore-top', 1, App(inhabitant_symbol, phi0), 'k⊤:{0}')", "kore_top = Notation('kore-top', 1, App(inhabitant_symbol, phi0), 'k⊤ {0}')")], expect='silent')

# ---------------------------------------------------------------- C20
KE = PG + 'k/execution_proof_generation.py'
KS = PG + 'k/kore_convertion/language_semantics.py'
V('C20-config-updated-before-check', 'C20', [(KE, "        lhs = match[1]\n        rhs = match[2]\n", "        lhs = match[1]\n        rhs = match[2]\n        self._curr_config = rhs\n")], names='config-after-guard')
V('C20-compares-initial-config', 'C20', [(KE, '            lhs == self.current_configuration\n', '            lhs == self.initial_configuration\n')], names='lhs-equals-current-configuration')
V('C20-claims-uninstantiated-rule', 'C20', [(KE, '        self.add_claim(instantiated_axiom)', '        self.add_claim(rule.pattern)')], names='claim-is-instantiated-rule')
V('C20-next-config-is-lhs', 'C20', [(KE, '        self._curr_config = rhs\n        return proof', '        self._curr_config = lhs\n        return proof')], names='next-configuration-is-rhs')
V('C20-sort-param-base-dropped', 'C20', [(KS, 'MetaVar(name=self.SORT_PARAM_METAVAR + len(self._sort_param_metavars))', 'MetaVar(name=len(self._sort_param_metavars))')], names='disjoint-ranges')
V('C20-allocator-no-guard', 'C20', [(KS, "        if name not in self._evars:\n            self._evars[name] = EVar(name=len(self._evars))\n        return self._evars[name]", "        self._evars[name] = EVar(name=len(self._evars))\n        return self._evars[name]")], names='resolve_evar')
V('C20-substitutions-resolve', 'C20', [(KS, '            name = scope.lookup_metavar(var_name).name', '            name = scope.resolve_metavar(var_name).name')], names='convert_substitutions')
V('C20-scope-shared-between-axioms', 'C20', [(KS, "                                scope = ConvertionScope()\n                                parsed_pattern = semantics._convert_pattern(scope, preprocessed_pattern)", "                                parsed_pattern = semantics._convert_pattern(scope, preprocessed_pattern)")], names='scope-per-axiom')
V('C20-twin-if-raise', 'C20', [(KE, "        assert (\n            lhs == self.current_configuration\n        ), f'The current configuration {lhs.pretty(self.pretty_options())} does not match the lhs of the rule {rule.pattern.pretty(self.pretty_options())}'", "        if not (lhs == self.current_configuration):\n            raise AssertionError('The current configuration does not match the lhs of the rule')")], expect='silent')

# ---------------------------------------------------------------- C01 equality
V('C01-custom-eq-ignores-plug', 'C01', [(RS, '#[derive(Debug, Eq, PartialEq, Clone)]\npub enum Pattern {', '#[derive(Debug, Eq, Clone)]\npub enum Pattern {'), (RS, 'impl Pattern {\n    fn e_fresh(&self, evar: Id) -> bool {', 'impl PartialEq for Pattern {\n    fn eq(&self, other: &Pattern) -> bool {\n        match (self, other) {\n            (Pattern::EVar(a), Pattern::EVar(b)) => a == b,\n            (Pattern::SVar(a), Pattern::SVar(b)) => a == b,\n            (Pattern::Symbol(a), Pattern::Symbol(b)) => a == b,\n            (Pattern::Implies { left: a, right: b }, Pattern::Implies { left: c, right: d }) => a == c && b == d,\n            (Pattern::App { left: a, right: b }, Pattern::App { left: c, right: d }) => a == c && b == d,\n            (Pattern::Exists { var: a, subpattern: b }, Pattern::Exists { var: c, subpattern: d }) => a == c && b == d,\n            (Pattern::Mu { var: a, subpattern: b }, Pattern::Mu { var: c, subpattern: d }) => a == c && b == d,\n            (Pattern::MetaVar { id: a, .. }, Pattern::MetaVar { id: b, .. }) => a == b,\n            (Pattern::ESubst { pattern: a, evar_id: b, .. }, Pattern::ESubst { pattern: c, evar_id: d, .. }) => a == c && b == d,\n            (Pattern::SSubst { pattern: a, svar_id: b, plug: e }, Pattern::SSubst { pattern: c, svar_id: d, plug: f }) => a == c && b == d && e == f,\n            _ => false,\n        }\n    }\n}\n\nimpl Pattern {\n    fn e_fresh(&self, evar: Id) -> bool {')], names='structural-equality')
V('C12-metavar-eq-by-name', 'C12', [(PT, '    def metavars(self) -> set[int]:\n        return {self.name}\n', '    def metavars(self) -> set[int]:\n        return {self.name}\n\n    def __eq__(self, o: object) -> bool:\n        return isinstance(o, MetaVar) and o.name == self.name\n\n    def __hash__(self) -> int:\n        return hash(self.name)\n')], names='structural-equality')
V('C05-twin-operand-read-after-pop', 'C05', [(RS, '                let id = *iterator\n                    .next()\n                    .expect("Expected var_id for the exists binder") as Id;\n                let subpattern = pop_stack_pattern(stack);\n                stack.push(Term::Pattern(exists(id, subpattern)))', '                let subpattern = pop_stack_pattern(stack);\n                let id = *iterator\n                    .next()\n                    .expect("Expected var_id for the exists binder") as Id;\n                stack.push(Term::Pattern(exists(id, subpattern)))')], expect='silent')
V('C01-twin-operand-read-after-pop', 'C01', [(RS, '                let id = *iterator\n                    .next()\n                    .expect("Expected var_id for the exists binder") as Id;\n                let subpattern = pop_stack_pattern(stack);\n                stack.push(Term::Pattern(exists(id, subpattern)))', '                let subpattern = pop_stack_pattern(stack);\n                let id = *iterator\n                    .next()\n                    .expect("Expected var_id for the exists binder") as Id;\n                stack.push(Term::Pattern(exists(id, subpattern)))')], expect='silent')
V('C02-twin-operand-read-after-pop', 'C02', [(RS, '                let id = *iterator\n                    .next()\n                    .expect("Expected var_id for the exists binder") as Id;\n                let subpattern = pop_stack_pattern(stack);\n                stack.push(Term::Pattern(exists(id, subpattern)))', '                let subpattern = pop_stack_pattern(stack);\n                let id = *iterator\n                    .next()\n                    .expect("Expected var_id for the exists binder") as Id;\n                stack.push(Term::Pattern(exists(id, subpattern)))')], expect='silent')
V('C04-twin-operand-read-after-pop', 'C04', [(RS, '                let id = *iterator\n                    .next()\n                    .expect("Expected var_id for the exists binder") as Id;\n                let subpattern = pop_stack_pattern(stack);\n                stack.push(Term::Pattern(exists(id, subpattern)))', '                let subpattern = pop_stack_pattern(stack);\n                let id = *iterator\n                    .next()\n                    .expect("Expected var_id for the exists binder") as Id;\n                stack.push(Term::Pattern(exists(id, subpattern)))')], expect='silent')
V('C02-twin-emit-helper', 'C02', [(SER, '    def evar(self, id: int) -> Pattern:\n        ret = super().evar(id)\n        self.out.write(bytes([Instruction.EVar, id]))\n        return ret', '    def _emit(self, *data: int) -> None:\n        self.out.write(bytes([*data]))\n\n    def evar(self, id: int) -> Pattern:\n        ret = super().evar(id)\n        self._emit(Instruction.EVar, id)\n        return ret')], expect='silent')
V('C03-twin-emit-helper', 'C03', [(SER, '    def evar(self, id: int) -> Pattern:\n        ret = super().evar(id)\n        self.out.write(bytes([Instruction.EVar, id]))\n        return ret', '    def _emit(self, *data: int) -> None:\n        self.out.write(bytes([*data]))\n\n    def evar(self, id: int) -> Pattern:\n        ret = super().evar(id)\n        self._emit(Instruction.EVar, id)\n        return ret')], expect='silent')
V('C14-twin-emit-helper', 'C14', [(SER, '    def evar(self, id: int) -> Pattern:\n        ret = super().evar(id)\n        self.out.write(bytes([Instruction.EVar, id]))\n        return ret', '    def _emit(self, *data: int) -> None:\n        self.out.write(bytes([*data]))\n\n    def evar(self, id: int) -> Pattern:\n        ret = super().evar(id)\n        self._emit(Instruction.EVar, id)\n        return ret')], expect='silent')
V('C04-twin-emit-helper', 'C04', [(SER, '    def evar(self, id: int) -> Pattern:\n        ret = super().evar(id)\n        self.out.write(bytes([Instruction.EVar, id]))\n        return ret', '    def _emit(self, *data: int) -> None:\n        self.out.write(bytes([*data]))\n\n    def evar(self, id: int) -> Pattern:\n        ret = super().evar(id)\n        self._emit(Instruction.EVar, id)\n        return ret')], expect='silent')
V('C19-twin-emit-helper', 'C19', [(SER, '    def evar(self, id: int) -> Pattern:\n        ret = super().evar(id)\n        self.out.write(bytes([Instruction.EVar, id]))\n        return ret', '    def _emit(self, *data: int) -> None:\n        self.out.write(bytes([*data]))\n\n    def evar(self, id: int) -> Pattern:\n        ret = super().evar(id)\n        self._emit(Instruction.EVar, id)\n        return ret')], expect='silent')

# ---------------------------------------------------------------- C09 glue
V('C09-glue-flag-swapped', 'C09', [(TT, '            if conj_term.negated:\n                return False, pf_conj_1', '            if conj_term.negated:\n                return True, pf_conj_1')], names='glue-polarity')
V('C09-glue-wrong-direction', 'C09', [(TT, '                    pf_cl_2, self.imp_transitivity(pf_cnf_2, self.imp_transitivity(pf_neg_2, pf_conj_2))', '                    pf_cl_2, self.imp_transitivity(pf_cnf_2, self.imp_transitivity(pf_neg_1, pf_conj_2))')], names='glue-polarity')
V('C09-glue-no-dneg', 'C09', [(TT, '            return True, self.modus_ponens(self.dneg_elim(pat), pf_conj_1)', '            return True, pf_conj_1')], names='glue-polarity')
V('C09-twin-glue-locals', 'C09', [(TT, '            return True, self.modus_ponens(self.dneg_elim(pat), pf_conj_1)', '            dne = self.dneg_elim(pat)\n            return True, self.modus_ponens(dne, pf_conj_1)')], expect='silent')

# ---------------------------------------------------------------- idiom twins
MATCH_MP = ('        left_conclusion = left.conclusion\n        l, r = Implies.extract(left_conclusion)\n        assert l == right.conclusion, str(l) + \' != \' + str(right.conclusion)\n        return Proved(r)',
            '        match left.conclusion:\n            case Implies(l, r):\n                if l != right.conclusion:\n                    raise AssertionError(str(l) + \' != \' + str(right.conclusion))\n                return Proved(r)\n            case _:\n                raise AssertionError(\'not an implication\')')
for prop in ('C07', 'C02', 'C08'):
    V(f'{prop}-twin-mp-with-match', prop, [(BI, MATCH_MP[0], MATCH_MP[1])], expect='silent')
V('C14-next-byte-returns-zero-at-end', 'C14', [(DS, "            case None:\n                raise DeserializingException(err_msg)", "            case None:\n                return 0")], names='operand-reader-raises-at-end')
V('C12-metavars-ignores-plug', 'C12', [(PT, '    def metavars(self) -> set[int]:\n        return self.pattern.metavars().union(self.plug.metavars())\n\n    def instantiate(self, delta: Mapping[int, Pattern]) -> Pattern:\n        if not delta:\n            return self\n        return self.pattern.instantiate(delta).apply_ssubst(', '    def metavars(self) -> set[int]:\n        return self.pattern.metavars()\n\n    def instantiate(self, delta: Mapping[int, Pattern]) -> Pattern:\n        if not delta:\n            return self\n        return self.pattern.instantiate(delta).apply_ssubst(')], names='metavars-arm')
V('C12-twin-metavars-bitor', 'C12', [(PT, '    def metavars(self) -> set[int]:\n        return self.left.metavars().union(self.right.metavars())\n\n    def instantiate(self, delta: Mapping[int, Pattern]) -> Pattern:\n        if not delta:\n            return self\n        return App(', '    def metavars(self) -> set[int]:\n        return self.left.metavars() | self.right.metavars()\n\n    def instantiate(self, delta: Mapping[int, Pattern]) -> Pattern:\n        if not delta:\n            return self\n        return App(')], expect='silent')


# ---------------------------------------------------------------- whole-tree twin: every Python file re-printed from its ast
for _p in ('C01', 'C02', 'C03', 'C04', 'C05', 'C06', 'C07', 'C08', 'C09', 'C10', 'C11', 'C12', 'C13', 'C14', 'C15', 'C17', 'C18', 'C19', 'C20'):
    VARIANTS.append({'id': f'{_p}-twin-reformatted-tree', 'property': _p, 'edits': [], 'expect': 'silent', 'names': None,
                     'transform': 'unparse-all'})
