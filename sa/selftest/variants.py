"""Mutants (one rule instance broken; must be reported) and benign twins (behaviour kept; must stay silent).

Each variant: id, property, edits [(path, old, new)], expect 'fire' | 'silent', optional `names` (substring that must
appear in the report line, so that the right instance is named).
"""

RS = 'rust/src/lib.rs'
PG = 'generation/src/proof_generation/'

VARIANTS = []


def V(id, prop, edits, expect='fire', names=None):
    VARIANTS.append({'id': id, 'property': prop, 'edits': edits, 'expect': expect, 'names': names})


# ---------------------------------------------------------------- C06 / C01 S6
for prop in ('C06', 'C01'):
    V(f'{prop}-implies-or', prop, [(RS, 'Pattern::Implies { left, right } => left.e_fresh(evar) && right.e_fresh(evar),',
                                    'Pattern::Implies { left, right } => left.e_fresh(evar) || right.e_fresh(evar),')], names='e_fresh/Implies')
    V(f'{prop}-polarity-not-swapped', prop, [(RS, 'Pattern::Implies { left, right } => left.negative(svar) && right.positive(svar),',
                                              'Pattern::Implies { left, right } => left.positive(svar) && right.positive(svar),')], names='positive/Implies')
    V(f'{prop}-esubst-ignores-plug', prop, [(RS, '                pattern.e_fresh(evar) && plug.e_fresh(evar)\n            }\n            Pattern::SSubst { pattern, plug, .. } => {\n                // Assume: substitution is well-formed => plug occurs in the result\n\n                // We can skip checking evar == svar_id',
                                             '                pattern.e_fresh(evar)\n            }\n            Pattern::SSubst { pattern, plug, .. } => {\n                // Assume: substitution is well-formed => plug occurs in the result\n\n                // We can skip checking evar == svar_id')], names='e_fresh/ESubst')
    V(f'{prop}-mu-sfresh-ignores-binder', prop, [(RS, 'Pattern::Mu { var, subpattern } => svar == *var || subpattern.positive(svar),',
                                                  'Pattern::Mu { var, subpattern } => svar != *var || subpattern.positive(svar),')], names='positive/Mu')
    # more conservative judgement: still sound (a C05 deviation, not a C06 one)
    V(f'{prop}-twin-exists-conservative', prop, [(RS, 'Pattern::Exists { var, subpattern } => evar == *var || subpattern.e_fresh(evar),',
                                                  'Pattern::Exists { subpattern, .. } => subpattern.e_fresh(evar),')], expect='silent')
    V(f'{prop}-twin-if-return', prop, [(RS, 'Pattern::App { left, right } => left.s_fresh(svar) && right.s_fresh(svar),',
                                        'Pattern::App { left, right } => {\n                if !left.s_fresh(svar) {\n                    return false;\n                }\n                right.s_fresh(svar)\n            }')], expect='silent')
V('C06-py-exists-and', 'C06', [(PG + 'pattern.py', '        return name == self.var or self.subpattern.evar_is_free(name)',
                                '        return name != self.var or self.subpattern.evar_is_free(name)')], names='evar_is_free/Exists')
V('C06-py-esubst-plug-dropped', 'C06', [(PG + 'pattern.py', '        # We assume that at least one instance will be replaced\n        return self.pattern.evar_is_free(name) and self.plug.evar_is_free(name)\n\n    def metavars(self) -> set[int]:\n        return self.pattern.metavars().union(self.plug.metavars())\n\n    def instantiate(self, delta: Mapping[int, Pattern]) -> Pattern:\n        if not delta:\n            return self\n        return self.pattern.instantiate(delta).apply_esubst(',
                                         '        # We assume that at least one instance will be replaced\n        return self.pattern.evar_is_free(name)\n\n    def metavars(self) -> set[int]:\n        return self.pattern.metavars().union(self.plug.metavars())\n\n    def instantiate(self, delta: Mapping[int, Pattern]) -> Pattern:\n        if not delta:\n            return self\n        return self.pattern.instantiate(delta).apply_esubst(')], names='evar_is_free/ESubst')
V('C06-py-twin-implies-ifs', 'C06', [(PG + 'pattern.py', '    def evar_is_free(self, name: int) -> bool:\n        return self.left.evar_is_free(name) and self.right.evar_is_free(name)\n\n    def metavars(self) -> set[int]:\n        return self.left.metavars().union(self.right.metavars())\n\n    def instantiate(self, delta: Mapping[int, Pattern]) -> Pattern:\n        if not delta:\n            return self\n        return Implies(',
                                      '    def evar_is_free(self, name: int) -> bool:\n        if not self.left.evar_is_free(name):\n            return False\n        return self.right.evar_is_free(name)\n\n    def metavars(self) -> set[int]:\n        return self.left.metavars().union(self.right.metavars())\n\n    def instantiate(self, delta: Mapping[int, Pattern]) -> Pattern:\n        if not delta:\n            return self\n        return Implies(')], expect='silent')

# ---------------------------------------------------------------- C01
V('C01-mp-compare-right', 'C01', [(RS, 'if *left.as_ref() != *premise2.as_ref() {', 'if *right.as_ref() != *premise2.as_ref() {')], names='ModusPonens')
V('C01-mp-no-check', 'C01', [(RS, 'if *left.as_ref() != *premise2.as_ref() {', 'if false {')], names='ModusPonens')
V('C01-gen-fresh-in-left', 'C01', [(RS, 'if !right.e_fresh(evar_id) {', 'if !left.e_fresh(evar_id) {')], names='Generalization')
V('C01-gen-sfresh', 'C01', [(RS, 'if !right.e_fresh(evar_id) {', 'if !right.s_fresh(evar_id) {')], names='Generalization')
V('C01-save-pattern-as-proved', 'C01', [(RS, 'Term::Pattern(p) => memory.push(Entry::Pattern(p.clone())),', 'Term::Pattern(p) => memory.push(Entry::Proved(p.clone())),')], names='Save')
V('C01-load-pattern-as-proved', 'C01', [(RS, 'Entry::Pattern(p) => stack.push(Term::Pattern(p.clone())),', 'Entry::Pattern(p) => stack.push(Term::Proved(p.clone())),')], names='Load')
V('C01-claim-publish-to-memory', 'C01', [(RS, '                    let claim = pop_stack_pattern(stack);\n                    claims.push(claim)', '                    let claim = pop_stack_pattern(stack);\n                    memory.push(Entry::Proved(claim.clone()));\n                    claims.push(claim)')], names='Publish')
V('C01-negative-checked-with-positive', 'C01', [(RS, '.find(|&svar| !plugs[pos].negative(*svar))', '.find(|&svar| !plugs[pos].positive(*svar))')], names='negative')
V('C01-efresh-constraint-dropped', 'C01', [(RS, 'if let Some(evar) = e_fresh.into_iter().find(|&evar| !plugs[pos].e_fresh(*evar)) {', 'if let Some(evar) = e_fresh.into_iter().find(|&_evar| false) {')], names='e_fresh')
V('C01-capture-guard-deleted', 'C01', [(RS, '            assert!(\n                plug.e_fresh(*var),\n                "EVar substitution would capture free variable {}!",\n                var\n            );\n', '')], names='apply_esubst/Exists')
V('C01-capture-wrong-sort', 'C01', [(RS, '            assert!(\n                plug.s_fresh(*var),\n                "SVar substitution would capture free variable {}!",', '            assert!(\n                plug.e_fresh(*var),\n                "SVar substitution would capture free variable {}!",')], names='apply_ssubst/Mu')
V('C01-mu-wf-dropped', 'C01', [(RS, '                if !mu_pat.well_formed() {', '                if false && !mu_pat.well_formed() {')], names='Mu')
V('C01-wf-mu-negative', 'C01', [(RS, 'Pattern::Mu { var, subpattern } => subpattern.positive(*var),', 'Pattern::Mu { var, subpattern } => subpattern.negative(*var),')], names='well_formed/Mu')
V('C01-prop1-wrong', 'C01', [(RS, '        implies(Rc::clone(&phi1), Rc::clone(&phi0)),\n    );', '        implies(Rc::clone(&phi1), Rc::clone(&phi1)),\n    );')], names='Prop1')
V('C01-publish-proof-no-compare', 'C01', [(RS, '                    if claim != theorem {', '                    if false && claim != theorem {')], names='Publish')
V('C01-twin-assert-to-if', 'C01', [(RS, '            assert!(\n                plug.e_fresh(*var),\n                "EVar substitution would capture free variable {}!",\n                var\n            );\n', '            if !plug.e_fresh(*var) {\n                panic!("EVar substitution would capture free variable {}!", var);\n            }\n')], expect='silent')
V('C01-twin-ne-to-not-eq', 'C01', [(RS, 'if *left.as_ref() != *premise2.as_ref() {', 'if !(*left.as_ref() == *premise2.as_ref()) {')], expect='silent')
V('C01-twin-guard-in-helper', 'C01', [(RS, '                    if !right.e_fresh(evar_id) {\n                        panic!("The binding variable has to be fresh in the conclusion.");\n                    }', '                    let is_fresh = right.e_fresh(evar_id);\n                    if !is_fresh {\n                        panic!("The binding variable has to be fresh in the conclusion.");\n                    }')], expect='silent')

# ---------------------------------------------------------------- C05
V('C05-mu-positive-no-shortcut', 'C05', [(RS, 'Pattern::Mu { var, subpattern } => svar == *var || subpattern.positive(svar),', 'Pattern::Mu { subpattern, .. } => subpattern.positive(svar),')], names='positive/Mu')
V('C05-operand-unwrap-or', 'C05', [(RS, '                let id = *iterator\n                    .next()\n                    .expect("Expected id for the EVar to be put on stack")\n                    as Id;', '                let id = *iterator.next().unwrap_or(&0) as Id;')], names='EVar')
V('C05-final-claims-check-deleted', 'C05', [(RS, '    assert!(\n        claims.is_empty(),\n        "Checking finished but there are claims left unproved:\\n{:?}\\n",\n        claims\n    );\n', '')], names='verify')
V('C05-pop-pattern-where-proved', 'C05', [(RS, '                let premise2 = pop_stack_proved(stack);', '                let premise2 = pop_stack_pattern(stack);')], names='ModusPonens')
V('C05-unknown-opcode-ignored', 'C05', [(RS, '            _ => {\n                unimplemented!("Instruction: {}", instr_u32)\n            }', '            _ => {}')], names='reject')
V('C05-bad-byte-default', 'C05', [(RS, '            _ => panic!("Bad Instruction!"),', '            _ => Instruction::Pop,')], names='decode')
V('C05-esubst-pops-swapped', 'C05', [(RS, '                let pattern = pop_stack_pattern(stack);\n                let plug = pop_stack_pattern(stack);\n\n                let esubst_pat', '                let plug = pop_stack_pattern(stack);\n                let pattern = pop_stack_pattern(stack);\n\n                let esubst_pat')], names='ESubst')
V('C05-stack-not-cleared', 'C05', [(RS, '    stack.clear();\n\n    execute_instructions(\n        proof_buffer,', '    execute_instructions(\n        proof_buffer,')], names='verify')
V('C05-load-get-unwrap-or', 'C05', [(RS, '                match &memory[index as usize] {', '                match memory.get(index as usize).unwrap_or(&memory[0]) {')], names='Load')
V('C05-twin-expect-to-match', 'C05', [(RS, '                let id = *iterator\n                    .next()\n                    .expect("Expected id for the SVar to be put on stack")\n                    as Id;', '                let id = match iterator.next() {\n                    Some(b) => *b as Id,\n                    None => panic!("Expected id for the SVar to be put on stack"),\n                };')], expect='silent')
V('C05-twin-arms-reordered', 'C05', [(RS, '            Instruction::Prop1 => {\n                stack.push(Term::Proved(Rc::clone(&prop1)));\n            }\n            Instruction::Prop2 => {\n                stack.push(Term::Proved(Rc::clone(&prop2)));\n            }', '            Instruction::Prop2 => {\n                stack.push(Term::Proved(Rc::clone(&prop2)));\n            }\n            Instruction::Prop1 => {\n                stack.push(Term::Proved(Rc::clone(&prop1)));\n            }')], expect='silent')

# ---------------------------------------------------------------- C02
V('C02-opcode-renumbered-py', 'C02', [(PG + 'instruction.py', '    Mu = 0x07\n    Exists = 0x08', '    Mu = 0x08\n    Exists = 0x07')], names='opcode-byte')
V('C02-esubst-slots-swapped', 'C02', [(PG + 'stateful_interpreter.py', '    def esubst(self, evar_id: int, pattern: MetaVar | ESubst | SSubst, plug: Pattern) -> Pattern:\n        *self.stack, expected_plug, expected_pattern = self.stack', '    def esubst(self, evar_id: int, pattern: MetaVar | ESubst | SSubst, plug: Pattern) -> Pattern:\n        *self.stack, expected_pattern, expected_plug = self.stack')], names='esubst')
V('C02-claims-not-reversed', 'C02', [(PG + 'proof.py', '        for claim in reversed(self._claims):', '        for claim in self._claims:')], names='claim-order')
V('C02-keys-not-reversed', 'C02', [(PG + 'serializing_interpreter.py', '    def instantiate(self, proved: Proved, delta: dict[int, Pattern]) -> Proved:\n        ret = super().instantiate(proved, delta)\n        self.out.write(bytes([Instruction.Instantiate, len(delta), *reversed(delta.keys())]))', '    def instantiate(self, proved: Proved, delta: dict[int, Pattern]) -> Proved:\n        ret = super().instantiate(proved, delta)\n        self.out.write(bytes([Instruction.Instantiate, len(delta), *delta.keys()]))')], names='id-plug-pairing')
V('C02-mu-operand-dropped', 'C02', [(PG + 'serializing_interpreter.py', '        self.out.write(bytes([Instruction.Mu, var]))', '        self.out.write(bytes([Instruction.Mu]))')], names='layout')
V('C02-implies-args-swapped-basic', 'C02', [(PG + 'basic_interpreter.py', '    def implies(self, left: Pattern, right: Pattern) -> Pattern:\n        return Implies(left, right)', '    def implies(self, left: Pattern, right: Pattern) -> Pattern:\n        return Implies(right, left)')], names='wiring')
V('C02-prop2-basic-wrong', 'C02', [(PG + 'basic_interpreter.py', '                Implies(Implies(phi0, phi1), Implies(phi0, phi2)),\n            ),\n        )', '                Implies(Implies(phi0, phi1), Implies(phi1, phi2)),\n            ),\n        )')], names='Prop2')
V('C02-rust-exists-operand-swapped', 'C02', [(RS, '                stack.push(Term::Pattern(exists(id, subpattern)))', '                stack.push(Term::Pattern(mu(id, subpattern)))')], names='exists')
V('C02-gen-writes-wrong-var', 'C02', [(PG + 'serializing_interpreter.py', '        self.out.write(bytes([Instruction.Generalization, var.name]))', '        self.out.write(bytes([Instruction.Generalization, 0]))')], names='exists_generalization')
V('C02-twin-local-bytes', 'C02', [(PG + 'serializing_interpreter.py', '        self.out.write(bytes([Instruction.App]))', '        payload = bytes([Instruction.App])\n        self.out.write(payload)')], expect='silent')
V('C02-twin-stateful-asserts-swapped', 'C02', [(PG + 'stateful_interpreter.py', '    def app(self, left: Pattern, right: Pattern) -> Pattern:\n        *self.stack, expected_left, expected_right = self.stack\n        assert expected_left == left\n        assert expected_right == right', '    def app(self, left: Pattern, right: Pattern) -> Pattern:\n        *self.stack, expected_left, expected_right = self.stack\n        assert right == expected_right\n        assert left == expected_left')], expect='silent')

# ---------------------------------------------------------------- C10
PP = PG + 'proofs/propositional.py'
TT = PG + 'tautology.py'
V('C10-and_l_imp-wrong-arg', 'C10', [(PP, '        return self.con1(self.absurd(p, neg(q)))', '        return self.con1(self.absurd(p, q))')], names='and_l_imp')
V('C10-and_r_imp-swapped', 'C10', [(PP, '        return self.con1(self.prop1_inst(neg(q), p))', '        return self.con1(self.prop1_inst(neg(p), q))')], names='and_r_imp')
V('C10-or_distr_r-wrong-axiom', 'C10', [(TT, '        return self.dynamic_inst(self.load_axiom_by_index(2), _build_subst([pat1, pat2, pat3]))', '        return self.dynamic_inst(self.load_axiom_by_index(3), _build_subst([pat1, pat2, pat3]))')], names='or_distr_r')
V('C10-axiom-list-edited', 'C10', [(TT, '                Implies(_or(_or(phi0, phi1), phi2), _or(phi0, _or(phi1, phi2))),', '                Implies(_or(_or(phi0, phi1), phi2), _or(phi1, _or(phi0, phi2))),')], names='lemma-schema')
V('C10-imp-provable-returns-other-valid', 'C10', [(PP, '        q = q_pf.conc\n        return self.modus_ponens(self.prop1_inst(q, p), q_pf)', '        q = q_pf.conc\n        return self.modus_ponens(self.prop1_inst(q, q), q_pf)')], names='imp_provable')
V('C10-notation-redefined', 'C10', [(PG + 'pattern.py', "_or = Notation('or', 2, Implies(neg(phi0), phi1), '({0} ⋁ {1})')", "_or = Notation('or', 2, Implies(neg(phi1), phi0), '({0} ⋁ {1})')")], names='lemma-schema')
V('C10-thunk-built-in-library', 'C10', [(PP, '    def top_intro(self) -> ProofThunk:\n        """top"""\n        return self.imp_refl(bot())', '    def top_intro(self) -> ProofThunk:\n        """top"""\n        from proof_generation.proof import ProofThunk as PT\n        return ProofThunk(lambda i: self.imp_refl(bot())(i), top())')], names='thunk-confinement')
V('C10-twin-renamed-local', 'C10', [(PP, '        q = q_pf.conc\n        return self.modus_ponens(self.prop1_inst(q, p), q_pf)', '        concl = q_pf.conc\n        step = self.prop1_inst(concl, p)\n        return self.modus_ponens(step, q_pf)')], expect='silent')
V('C10-twin-other-derivation', 'C10', [(PP, '    def top_intro(self) -> ProofThunk:\n        """top"""\n        return self.imp_refl(bot())', '    def top_intro(self) -> ProofThunk:\n        """top"""\n        return self.bot_elim(bot())')], expect='silent')

# ---------------------------------------------------------------- C07
BI = PG + 'basic_interpreter.py'
ST = PG + 'stateful_interpreter.py'
SER = PG + 'serializing_interpreter.py'
V('C07-mp-assert-deleted', 'C07', [(BI, "        assert l == right.conclusion, str(l) + ' != ' + str(right.conclusion)\n", '')], names='modus_ponens')
V('C07-mp-assert-wrong-side', 'C07', [(BI, "        assert l == right.conclusion, str(l) + ' != ' + str(right.conclusion)", "        assert l == left.conclusion, str(l) + ' != ' + str(right.conclusion)")], names='modus_ponens')
V('C07-mp-returns-antecedent', 'C07', [(BI, '        return Proved(r)\n\n    def exists_quantifier', '        return Proved(l)\n\n    def exists_quantifier')], names='modus_ponens')
V('C07-gen-assert-deleted', 'C07', [(BI, "        assert r.evar_is_free(var.name), f'{str(var)} in FV({str(r)})'\n", '')], names='exists_generalization')
V('C07-gen-fresh-in-left', 'C07', [(BI, "        assert r.evar_is_free(var.name), f'{str(var)} in FV({str(r)})'", "        assert l.evar_is_free(var.name), f'{str(var)} in FV({str(r)})'")], names='exists_generalization')
V('C07-override-recomputes', 'C07', [(ST, '        ret = super().modus_ponens(left, right)\n        self.stack.append(ret)\n        return ret', '        ret = super().modus_ponens(left, right)\n        self.stack.append(ret)\n        return Proved(ret.conclusion)')], names='StatefulInterpreter.modus_ponens')
V('C07-override-swaps-args', 'C07', [(SER, '        ret = super().modus_ponens(left, right)', '        ret = super().modus_ponens(right, left)')], names='SerializingInterpreter.modus_ponens')
V('C07-extract-no-assert', 'C07', [(PG + 'pattern.py', "        assert ret is not None, f'Expected a/an {cls.__name__} but got instead: {str(pattern)}\\n'\n", '')], names='Pattern.extract')
V('C07-twin-if-raise', 'C07', [(BI, "        assert l == right.conclusion, str(l) + ' != ' + str(right.conclusion)", "        if l != right.conclusion:\n            raise AssertionError(str(l) + ' != ' + str(right.conclusion))")], expect='silent')
V('C07-twin-no-local', 'C07', [(BI, '        left_conclusion = left.conclusion\n        l, r = Implies.extract(left_conclusion)', '        l, r = Implies.extract(left.conclusion)')], expect='silent')

# ---------------------------------------------------------------- C08
IT = PG + 'interpreter_transformer.py'
V('C08-forwarder-swaps', 'C08', [(IT, '        ret = self.sub_interpreter.modus_ponens(left, right)', '        ret = self.sub_interpreter.modus_ponens(right, left)')], names='modus_ponens')
V('C08-forwarder-no-return', 'C08', [(IT, '        ret = self.sub_interpreter.implies(left, right)\n        return ret', '        ret = self.sub_interpreter.implies(left, right)\n        return left')], names='implies')
V('C08-forwarder-wrong-method', 'C08', [(IT, '        ret = self.sub_interpreter.app(left, right)', '        ret = self.sub_interpreter.implies(left, right)')], names='InterpreterTransformer.app')
V('C08-thunk-assert-deleted', 'C08', [(PG + 'proof.py', '        assert proved.conclusion == self.conc\n', '')], names='ProofThunk.__call__')
V('C08-proved-minted-in-optimizer', 'C08', [(PG + 'optimizing_interpreters.py', '            ret = super().pattern(p)\n            self.save(repr(p), p)\n            return ret', '            ret = super().pattern(p)\n            self.save(repr(p), p)\n            from proof_generation.proved import Proved\n            _ = Proved(p)\n            return ret')], names='proved-confinement')
V('C08-static-mp-wrong', 'C08', [(PG + 'proof.py', '        return ProofThunk((lambda interpreter: interpreter.modus_ponens(left(interpreter), right(interpreter))), q)', '        return ProofThunk((lambda interpreter: interpreter.modus_ponens(left(interpreter), right(interpreter))), p)')], names='static-conclusion')
V('C08-static-prop1-wrong', 'C08', [(PG + 'proof.py', '        return ProofThunk((lambda interpreter: interpreter.prop1()), Implies(phi0, Implies(phi1, phi0)))', '        return ProofThunk((lambda interpreter: interpreter.prop1()), Implies(phi0, Implies(phi1, phi1)))')], names='prop1')
V('C08-optimizer-other-map', 'C08', [(PG + 'optimizing_interpreters.py', '        ret = b_interp.instantiate(proved, delta)', '        ret = b_interp.instantiate(proved, dict(list(delta.items())[:1]))')], names='InstantiationOptimizer.instantiate')
V('C08-twin-forwarder-inline', 'C08', [(IT, '        ret = self.sub_interpreter.mu(var, subpattern)\n        return ret', '        return self.sub_interpreter.mu(var, subpattern)')], expect='silent')

# ---------------------------------------------------------------- C04
V('C04-append-dropped', 'C04', [(ST, '        ret = super().prop2()\n        self.stack.append(ret)\n        return ret', '        ret = super().prop2()\n        return ret')], names='prop2')
V('C04-pop-one-instead-of-two', 'C04', [(ST, '    def app(self, left: Pattern, right: Pattern) -> Pattern:\n        *self.stack, expected_left, expected_right = self.stack\n        assert expected_left == left\n        assert expected_right == right', '    def app(self, left: Pattern, right: Pattern) -> Pattern:\n        *self.stack, expected_right = self.stack\n        assert expected_right == right')], names='app')
V('C04-load-index-of-other-term', 'C04', [(SER, '        self.out.write(bytes([Instruction.Load, self.memory.index(term)]))', '        self.out.write(bytes([Instruction.Load, self.memory.index(self.stack[-1])]))')], names='load-address')
V('C04-memory-append-in-pop', 'C04', [(ST, '        self.stack.pop()\n        super().pop(term)', '        self.stack.pop()\n        self.memory.append(term)\n        super().pop(term)')], names='pop')
V('C04-phase-keeps-stack', 'C04', [(ST, '    def into_proof_phase(self) -> None:\n        self.stack = []\n', '    def into_proof_phase(self) -> None:\n')], names='into_proof_phase')
V('C04-publish-axiom-no-memory', 'C04', [(ST, '        self.memory.append(Proved(axiom))\n', '')], names='memory')
V('C04-twin-explicit-pops', 'C04', [(ST, '    def exists(self, var: int, subpattern: Pattern) -> Pattern:\n        *self.stack, expected_subpattern = self.stack\n        assert expected_subpattern == subpattern', '    def exists(self, var: int, subpattern: Pattern) -> Pattern:\n        expected_subpattern = self.stack[-1]\n        assert expected_subpattern == subpattern\n        self.stack.pop()')], expect='silent')

# ---------------------------------------------------------------- C14
DS = PG + 'deserialize.py'
V('C14-new-opcode-without-reader', 'C14', [(SER, '        self.out.write(bytes([Instruction.Prop3]))', '        self.out.write(bytes([Instruction.Existence]))')], names='Existence')
V('C14-reader-swapped-slots', 'C14', [(DS, "            right = interpreter.stack[-1]\n            left = interpreter.stack[-2]\n            _ = interpreter.implies(left, right)", "            right = interpreter.stack[-2]\n            left = interpreter.stack[-1]\n            _ = interpreter.implies(left, right)")], names='Implies')
V('C14-reader-drops-operand', 'C14', [(DS, "            id = next_byte('Expected Mu binder id.')\n            subpattern = interpreter.stack[-1]\n            _ = interpreter.mu(id, subpattern)", "            id = 0\n            subpattern = interpreter.stack[-1]\n            _ = interpreter.mu(id, subpattern)")], names='Mu')
V('C14-reader-calls-other-method', 'C14', [(DS, "            _ = interpreter.prop2()", "            _ = interpreter.prop1()")], names='Prop2')
V('C14-else-does-not-raise', 'C14', [(DS, "            raise NotImplementedError(f'Unknown instruction: {instruction}')", "            pass")], names='decode-loop')
V('C14-twin-reader-renamed-locals', 'C14', [(DS, "            right = interpreter.stack[-1]\n            left = interpreter.stack[-2]\n            _ = interpreter.app(left, right)", "            top = interpreter.stack[-1]\n            below = interpreter.stack[-2]\n            _ = interpreter.app(below, top)")], expect='silent')

# ---------------------------------------------------------------- C11
PT = PG + 'pattern.py'
V('C11-exists-no-shadowing', 'C11', [(PT, '    def apply_esubst(self, evar_id: int, plug: Pattern) -> Pattern:\n        if evar_id == self.var:\n            return self\n        assert plug.evar_is_free(self.var), f\'EVar substitution would capture free variable x{self.var}\'\n        return Exists(self.var, self.subpattern.apply_esubst(evar_id, plug))', '    def apply_esubst(self, evar_id: int, plug: Pattern) -> Pattern:\n        assert plug.evar_is_free(self.var), f\'EVar substitution would capture free variable x{self.var}\'\n        return Exists(self.var, self.subpattern.apply_esubst(evar_id, plug))')], names='apply_esubst/Exists')
V('C11-mu-wrong-sort-compare', 'C11', [(PT, '    def apply_ssubst(self, svar_id: int, plug: Pattern) -> Pattern:\n        if svar_id == self.var:\n            return self\n        return Mu(self.var, self.subpattern.apply_ssubst(svar_id, plug))', '    def apply_ssubst(self, svar_id: int, plug: Pattern) -> Pattern:\n        if svar_id != self.var:\n            return self\n        return Mu(self.var, self.subpattern.apply_ssubst(svar_id, plug))')], names='apply_ssubst/Mu')
V('C11-implies-inst-left-only', 'C11', [(PT, '        return Implies(self.left.instantiate(delta), self.right.instantiate(delta))', '        return Implies(self.left.instantiate(delta), self.right)')], names='instantiate/Implies')
V('C11-metavar-wraps-wrong-ctor', 'C11', [(PT, '        return ESubst(pattern=self, var=EVar(evar_id), plug=plug)\n\n    def apply_ssubst(self, svar_id: int, plug: Pattern) -> Pattern:\n        if SVar(svar_id) in self.s_fresh:', '        return SSubst(pattern=self, var=SVar(evar_id), plug=plug)\n\n    def apply_ssubst(self, svar_id: int, plug: Pattern) -> Pattern:\n        if SVar(svar_id) in self.s_fresh:')], names='apply_esubst/MetaVar')
V('C11-esubst-inst-plug-not-instantiated', 'C11', [(PT, '        return self.pattern.instantiate(delta).apply_esubst(self.var.name, self.plug.instantiate(delta))', '        return self.pattern.instantiate(delta).apply_esubst(self.var.name, self.plug)')], names='instantiate/ESubst')
V('C11-evar-subst-returns-self', 'C11', [(PT, '        if evar_id == self.name:\n            return plug\n        return self', '        if evar_id == self.name:\n            return self\n        return self')], names='apply_esubst/EVar')
V('C11-notation-subst-on-body', 'C11', [(PT, '        return self.simplify().apply_esubst(evar_id, plug)', '        return Instantiate(self.pattern.apply_esubst(evar_id, plug), self.inst)')], names='Instantiate')
V('C11-rust-app-one-side', 'C11', [(RS, '        Pattern::App { left, right } => app(\n            apply_esubst(left, evar_id, plug),\n            apply_esubst(right, evar_id, plug),\n        ),', '        Pattern::App { left, right } => app(\n            apply_esubst(left, evar_id, plug),\n            Rc::clone(right),\n        ),')], names='apply_esubst/App')
V('C11-rust-inst-exists-drops-binder', 'C11', [(RS, '            Some(exists(*var, new_sub?))', '            Some(mu(*var, new_sub?))')], names='instantiate_internal/Exists')
V('C11-twin-shadow-ne', 'C11', [(PT, '    def apply_esubst(self, evar_id: int, plug: Pattern) -> Pattern:\n        if evar_id == self.var:\n            return self\n        assert plug.evar_is_free(self.var), f\'EVar substitution would capture free variable x{self.var}\'\n        return Exists(self.var, self.subpattern.apply_esubst(evar_id, plug))', '    def apply_esubst(self, evar_id: int, plug: Pattern) -> Pattern:\n        if evar_id != self.var:\n            assert plug.evar_is_free(self.var), f\'EVar substitution would capture free variable x{self.var}\'\n            return Exists(self.var, self.subpattern.apply_esubst(evar_id, plug))\n        return self')], expect='silent')
V('C11-twin-no-empty-shortcut', 'C11', [(PT, '    def instantiate(self, delta: Mapping[int, Pattern]) -> Pattern:\n        if not delta:\n            return self\n        return App(', '    def instantiate(self, delta: Mapping[int, Pattern]) -> Pattern:\n        return App(')], expect='silent')

# ---------------------------------------------------------------- C12
V('C12-deconstruct-no-see-through', 'C12', [(PT, '        if isinstance(pat, Exists):\n            return pat.var, pat.subpattern\n        if isinstance(pat, Instantiate):\n            return Exists.deconstruct(pat.simplify())\n        return None', '        if isinstance(pat, Exists):\n            return pat.var, pat.subpattern\n        return None')], names='Exists.deconstruct')
V('C12-unwrap-no-see-through', 'C12', [(PT, '        if isinstance(pattern, Instantiate):\n            return cls.unwrap(pattern.simplify())\n        if isinstance(pattern, cls):', '        if isinstance(pattern, cls):')], names='unwrap')
V('C12-notation-esubst-on-body', 'C12', [(PT, '        return self.simplify().apply_ssubst(svar_id, plug)', '        return Instantiate(self.pattern.apply_ssubst(svar_id, plug), self.inst)')], names='apply_ssubst')
V('C12-eq-structural', 'C12', [(PT, '        return self.simplify() == o', '        return self.pattern == o')], names='__eq__')
V('C12-nary-no-see-through', 'C12', [(PG + 'proofs/kore.py', '        case Instantiate(_, _):\n            # TODO: Consider something smarter here.\n            return deconstruct_nary_application(p.simplify())\n', '')], names='deconstruct_nary_application')
V('C12-twin-instantiate-first', 'C12', [(PT, '        if isinstance(pat, Mu):\n            return pat.var, pat.subpattern\n        if isinstance(pat, Instantiate):\n            return Mu.deconstruct(pat.simplify())\n        return None', '        if isinstance(pat, Instantiate):\n            return Mu.deconstruct(pat.simplify())\n        if isinstance(pat, Mu):\n            return pat.var, pat.subpattern\n        return None')], expect='silent')

# ---------------------------------------------------------------- C13
V('C13-match-truthiness', 'C13', [(PT, '        if submatch is None:\n            return None', '        if not submatch:\n            return None')], names='match')
V('C13-matches-walrus', 'C13', [(PT, '        match = self.matches(pattern)\n        if match is not None:\n            return match', '        if match := self.matches(pattern):\n            return match')], names='assert_matches')
V('C13-evar-deconstruct-truthiness', 'C13', [(PT, '    if (pat_evar is not None) and (inst_evar is not None):', '    if pat_evar and inst_evar:')], names='pat_evar')
V('C13-rebinds-bound-metavar', 'C13', [(PT, '        if id in ret:\n            if ret[id] != instance:\n                return None\n        else:', '        if id in ret:\n            ret[id] = instance\n        else:')], names='bound-metavariable')
V('C13-twin-tuple-truthiness-fixed-len', 'C13', [(PT, '    if (pat_ex := Exists.deconstruct(pattern)) and (inst_ex := Exists.deconstruct(instance)):', '    pat_ex = Exists.deconstruct(pattern)\n    inst_ex = Exists.deconstruct(instance)\n    if pat_ex and inst_ex:')], expect='silent')
V('C13-twin-is-not-none', 'C13', [(PT, '        if submatch is None:\n            return None', '        if submatch is not None:\n            ret = submatch\n            continue\n        return None')], expect='silent')

# ---------------------------------------------------------------- C03
PR = PG + 'proof.py'
OI = PG + 'optimizing_interpreters.py'
V('C03-axioms-sliced', 'C03', [(PR, '        for axiom in self._axioms:\n            interpreter.publish_axiom(interpreter.pattern(axiom))', '        for axiom in self._axioms[1:]:\n            interpreter.publish_axiom(interpreter.pattern(axiom))')], names='execute_gamma_phase')
V('C03-claims-set', 'C03', [(PR, '        for claim in reversed(self._claims):', '        for claim in reversed(list(dict.fromkeys(self._claims))[:-1]):')], names='execute_claims_phase')
V('C03-publishes-other-pattern', 'C03', [(PR, '            interpreter.publish_claim(interpreter.pattern(claim))', '            interpreter.publish_claim(interpreter.pattern(self._claims[0]))')], names='execute_claims_phase')
V('C03-memoizer-publishes', 'C03', [(OI, '            ret = super().pattern(p)\n            self.save(repr(p), p)\n            return ret', '            ret = super().pattern(p)\n            self.save(repr(p), p)\n            self.publish_axiom(ret)\n            return ret')], names='publish_axiom')
V('C03-optimizer-overrides-publish', 'C03', [(OI, 'class MemoizingInterpreter(InterpreterTransformer):', 'class MemoizingInterpreter(InterpreterTransformer):\n    def publish_claim(self, term: Pattern) -> None:\n        if term not in self._patterns_for_memoization:\n            self.sub_interpreter.publish_claim(term)\n')], names='MemoizingInterpreter.publish_claim')
V('C03-symbol-table-reset', 'C03', [(SER, '    def evar(self, id: int) -> Pattern:\n        ret = super().evar(id)', '    def into_proof_phase(self) -> None:\n        super().into_proof_phase()\n        self._symbol_identifiers = {}\n\n    def evar(self, id: int) -> Pattern:\n        ret = super().evar(id)')], names='created-once')
V('C03-id-masked', 'C03', [(SER, '        self.out.write(bytes([Instruction.Symbol, id]))', '        self.out.write(bytes([Instruction.Symbol, id % 256]))')], names='bounded-write')
V('C03-id-not-len', 'C03', [(SER, '            self._symbol_identifiers[name] = len(self._symbol_identifiers)', '            self._symbol_identifiers[name] = hash(name) % 256')], names='fresh-id-is-len')
V('C03-two-serializers', 'C03', [(PR, '            self.execute_full(MemoizingInterpreter(serializer, analyzer.finalize()))', '            self.execute_full(MemoizingInterpreter(self.get_serializing_interpreter(output_format, ExecutionPhase.Gamma, claims, file_path), analyzer.finalize()))')], names='one-serializer')
V('C03-twin-loop-var-renamed', 'C03', [(PR, '        for axiom in self._axioms:\n            interpreter.publish_axiom(interpreter.pattern(axiom))', '        for ax in self._axioms:\n            interpreter.publish_axiom(interpreter.pattern(ax))')], expect='silent')

# ---------------------------------------------------------------- C09
V('C09-swap-in-inner-loop', 'C09', [(TT, '                    left, right = (cl2, cl1) if resolvant < 0 else (cl1, cl2)\n                    hint[res_set] = ResolutionHintSource(left, right, abs(resolvant))', '                    if resolvant < 0:\n                        cl1, cl2 = cl2, cl1\n                        resolvant = -resolvant\n                    hint[res_set] = ResolutionHintSource(cl1, cl2, resolvant)')], names='outer-element-stable')
V('C09-resolvents-not-appended', 'C09', [(TT, '                    l.append(res_set)\n        return False', '                    pass\n        return False')], names='resolvents-rejoin')
V('C09-inner-over-copy', 'C09', [(TT, '        for cl1 in l:\n            for cl2 in l:\n                if cl2 == cl1:', '        for cl1 in l:\n            for cl2 in list(l)[:2]:\n                if cl2 == cl1:')], names='same-collection')
V('C09-twin-swap-then-break', 'C09', [(TT, '                    if not res_set:\n                        return True\n                    l.append(res_set)', '                    if not res_set:\n                        cl1 = res_set\n                        return True\n                    l.append(res_set)')], expect='silent')

# ---------------------------------------------------------------- C15
CV = PG + 'metamath/converter/converter.py'
V('C15-digit-table-gap', 'C15', [(CV, "            'K': 11,\n            'L': 12,", "            'K': 11,\n            'L': 11,")], names='digit-table')
V('C15-ms-table-shifted', 'C15', [(CV, "msdigit = {'U': 1, 'V': 2, 'W': 3, 'X': 4, 'Y': 5}", "msdigit = {'U': 0, 'V': 1, 'W': 2, 'X': 3, 'Y': 4}")], names='most-significant')
V('C15-numbering-from-set', 'C15', [(CV, '            for metavar in ordered_metavars:', '            for metavar in metavars:')], names='numbering-loop')
V('C15-numbering-sorted', 'C15', [(CV, '            for metavar in ordered_metavars:', '            for metavar in sorted(metavars):')], names='numbering-loop')
V('C15-numbering-from-0', 'C15', [(CV, '            metavars_id = 1\n', '            metavars_id = 0\n')], names='numbering-from-1')
_LS_LITERAL = "        lsdigit = {\n" + "".join(f"            '{chr(65 + _i)}': {_i + 1},\n" for _i in range(20)) + "        }"
V('C15-twin-ls-table-by-comprehension', 'C15', [(CV, _LS_LITERAL, "        lsdigit = {letter: digit for digit, letter in enumerate('ABCDEFGHIJKLMNOPQRST', start=1)}")], expect='silent')
V('C15-ls-table-comprehension-from-0', 'C15', [(CV, _LS_LITERAL, "        lsdigit = {letter: digit for digit, letter in enumerate('ABCDEFGHIJKLMNOPQRST')}")], names='least-significant')
V('C15-ls-table-comprehension-short-alphabet', 'C15', [(CV, _LS_LITERAL, "        lsdigit = dict(zip('ABCDEFGHIJKLMNOPQRS', range(1, 21)))")], names='least-significant')
V('C15-twin-numbering-enumerate', 'C15', [(CV, '            for metavar in ordered_metavars:\n                declared_lemmas[metavars_id] = f\'{metavar}-is-pattern\'\n                metavars_id += 1\n', '            for metavars_id, metavar in enumerate(ordered_metavars, start=1):\n                declared_lemmas[metavars_id] = f\'{metavar}-is-pattern\'\n')], expect='silent')
V('C15-numbering-enumerate-from-0', 'C15', [(CV, '            for metavar in ordered_metavars:\n                declared_lemmas[metavars_id] = f\'{metavar}-is-pattern\'\n                metavars_id += 1\n', '            for metavars_id, metavar in enumerate(ordered_metavars):\n                declared_lemmas[metavars_id] = f\'{metavar}-is-pattern\'\n')], names='numbering-from-1')
V('C15-weights-base-4', 'C15', [(CV, 'pow(5, exp) * 20', 'pow(4, exp) * 20')], names='weights')
V('C15-twin-weights-reordered', 'C15', [(CV, 'n += msdigit[letter] * pow(5, exp) * 20', 'n += 20 * 5**exp * msdigit[letter]')], expect='silent')
V('C15-twin-tuple-comprehension', 'C15', [(CV, '            ordered_metavars = [var for var in self._floating_patterns if var in metavars]', '            ordered_metavars = list(var for var in self._floating_patterns if var in metavars)')], expect='silent')

# ---------------------------------------------------------------- C17
MA = PG + 'metamath/ast.py'
MS = PG + 'metamath/metamath_extract_slice.py'
V('C17-encoder-handler-missing', 'C17', [(MA, '    def postvisit_disjoint_statement(self, disjoint_statement: DisjointStatement) -> None:', '    def postvisit_disjoint_stmt(self, disjoint_statement: DisjointStatement) -> None:')], names='DisjointStatement')
V('C17-essential-letter-wrong', 'C17', [(MA, "        elif isinstance(stmt, EssentialStatement):\n            return 'e'", "        elif isinstance(stmt, EssentialStatement):\n            return 'a'")], names='EssentialStatement')
V('C17-keyword-mismatch', 'C17', [(MA, "        self.write('$v')", "        self.write('$c')")], names='variable_stmt')
V('C17-letter-chain-drops-provable', 'C17', [(MA, "        elif isinstance(stmt, ProvableStatement):\n            return 'p'\n", '')], names='ProvableStatement')
V('C17-slicer-constant-assert', 'C17', [(MS, "            raise AssertionError(f'Unanticipated statement type: {type(statement)}')", "            assert 'Unanticipated statement type', type(statement)")], names='slice_database')
V('C17-twin-letter-chain-reordered', 'C17', [(MA, "        if isinstance(stmt, FloatingStatement):\n            return 'f'\n        elif isinstance(stmt, EssentialStatement):\n            return 'e'", "        if isinstance(stmt, EssentialStatement):\n            return 'e'\n        elif isinstance(stmt, FloatingStatement):\n            return 'f'")], expect='silent')

# ---------------------------------------------------------------- C18
CI = PG + 'counting_interpreter.py'
V('C18-sorted-removed-in-numbering', 'C18', [(CV, '            for metavar in ordered_metavars:', '            for metavar in metavars:')], names='_import_proof')
V('C18-symbol-table-from-set', 'C18', [(SER, '    def evar(self, id: int) -> Pattern:\n        ret = super().evar(id)', '    def preload(self, names: set[str]) -> None:\n        for n in names:\n            self._symbol_identifiers[n] = len(self._symbol_identifiers)\n\n    def evar(self, id: int) -> Pattern:\n        ret = super().evar(id)'), (PR, '        if optimize:\n            analyzer = CountingInterpreter(ExecutionPhase.Gamma, claims)', '        if hasattr(serializer, "preload"):\n            serializer.preload({str(a) for a in self._axioms})\n        if optimize:\n            analyzer = CountingInterpreter(ExecutionPhase.Gamma, claims)')], names='preload')
V('C18-suggestions-listed', 'C18', [(CI, '        self._finalized = True\n        return self.suggested_for_memoization', '        self._finalized = True\n        self._order = list(self._suggested_for_memoization)\n        return self.suggested_for_memoization')], names='_suggested_for_memoization')
V('C18-module-level-cache', 'C18', [(OI, 'class InstantiationOptimizer(InterpreterTransformer):', '_SEEN: dict = {}\n\n\nclass InstantiationOptimizer(InterpreterTransformer):'), (OI, '    def pattern(self, p: Pattern) -> Pattern:\n', '    def pattern(self, p: Pattern) -> Pattern:\n        _SEEN[id(p)] = p\n')], names='cross-run-state')
V('C18-mutable-default', 'C18', [(PR, '    def add_axioms(self, axioms: list[Pattern]) -> None:', '    def add_axioms(self, axioms: list[Pattern] = []) -> None:')], names='default')
V('C18-twin-sorted-iteration', 'C18', [(PG + 'interpreter.py', '        return list(self._interpreting_warnings)', '        return sorted(self._interpreting_warnings)')], expect='silent')

# ---------------------------------------------------------------- C19
KO = PG + 'proofs/kore.py'
PPI = PG + 'pretty_printing_interpreter.py'
V('C19-format-drops-argument', 'C19', [(KO, "kore_not = Notation('kore-not', 2, _and(neg(phi1), kore_top(phi0)), '(k¬{1}):{0}')", "kore_not = Notation('kore-not', 2, _and(neg(phi1), kore_top(phi0)), '(k¬{1})')")], names='kore-not')
V('C19-fstring-consumes-placeholder', 'C19', [(PG + 'proofs/substitution.py', "f'(∀ x{var} . {{0}})'", "f'(∀ x{var} . {0})'")], names='forall')
V('C19-definition-uses-more', 'C19', [(KO, "kore_next = Notation('kore-next', 2, App(kore_next_symbol, phi1), '♦{1}')", "kore_next = Notation('kore-next', 2, App(App(kore_next_symbol, phi0), phi1), '♦{1}')")], names='kore-next')
V('C19-pretty-label-wrong', 'C19', [(PPI, "        self.out.write('Quantifier')", "        self.out.write('Existence')")], names='exists_quantifier')
V('C19-pretty-not-decorated', 'C19', [(PPI, "    @pretty()\n    def app(self, left: Pattern, right: Pattern) -> None:\n        self.out.write('App')", "    def app(self, left: Pattern, right: Pattern) -> Pattern:\n        return super().app(left, right)")], names='app')
V('C19-nary-placeholder-skipped', 'C19', [(KO, "        fmt_args.append('{' + str(i) + '}')", "        if i > 0:\n            fmt_args.append('{' + str(i) + '}')")], expect='silent')   # see note: still couples i with its placeholder; kept as twin guard
V('C19-twin-unused-arg-omitted', 'C19', [(KO, "kore_top = Notation('kore-top', 1, App(inhabitant_symbol, phi0), 'k⊤:{0}')", "kore_top = Notation('kore-top', 1, App(inhabitant_symbol, phi0), 'k⊤ {0}')")], expect='silent')

# ---------------------------------------------------------------- C20
KE = PG + 'k/execution_proof_generation.py'
KS = PG + 'k/kore_convertion/language_semantics.py'
V('C20-config-updated-before-check', 'C20', [(KE, "        lhs = match[1]\n        rhs = match[2]\n", "        lhs = match[1]\n        rhs = match[2]\n        self._curr_config = rhs\n")], names='config-after-guard')
V('C20-compares-initial-config', 'C20', [(KE, '            lhs == self.current_configuration\n', '            lhs == self.initial_configuration\n')], names='lhs-equals-current-configuration')
V('C20-claims-uninstantiated-rule', 'C20', [(KE, '        self.add_claim(instantiated_axiom)', '        self.add_claim(rule.pattern)')], names='claim-is-instantiated-rule')
V('C20-next-config-is-lhs', 'C20', [(KE, '        self._curr_config = rhs\n        return proof', '        self._curr_config = lhs\n        return proof')], names='next-configuration-is-rhs')
V('C20-sort-param-base-dropped', 'C20', [(KS, 'MetaVar(name=self.SORT_PARAM_METAVAR + len(self._sort_param_metavars))', 'MetaVar(name=len(self._sort_param_metavars))')], names='disjoint-ranges')
V('C20-allocator-no-guard', 'C20', [(KS, "        if name not in self._evars:\n            self._evars[name] = EVar(name=len(self._evars))\n        return self._evars[name]", "        self._evars[name] = EVar(name=len(self._evars))\n        return self._evars[name]")], names='resolve_evar')
V('C20-substitutions-resolve', 'C20', [(KS, '            name = scope.lookup_metavar(var_name).name', '            name = scope.resolve_metavar(var_name).name')], names='convert_substitutions')
V('C20-scope-shared-between-axioms', 'C20', [(KS, "                                scope = ConvertionScope()\n                                parsed_pattern = semantics._convert_pattern(scope, preprocessed_pattern)", "                                parsed_pattern = semantics._convert_pattern(scope, preprocessed_pattern)")], names='scope-per-axiom')
V('C20-twin-if-raise', 'C20', [(KE, "        assert (\n            lhs == self.current_configuration\n        ), f'The current configuration {lhs.pretty(self.pretty_options())} does not match the lhs of the rule {rule.pattern.pretty(self.pretty_options())}'", "        if not (lhs == self.current_configuration):\n            raise AssertionError('The current configuration does not match the lhs of the rule')")], expect='silent')

# ---------------------------------------------------------------- C01 equality
V('C01-custom-eq-ignores-plug', 'C01', [(RS, '#[derive(Debug, Eq, PartialEq, Clone)]\npub enum Pattern {', '#[derive(Debug, Eq, Clone)]\npub enum Pattern {'), (RS, 'impl Pattern {\n    fn e_fresh(&self, evar: Id) -> bool {', 'impl PartialEq for Pattern {\n    fn eq(&self, other: &Pattern) -> bool {\n        match (self, other) {\n            (Pattern::EVar(a), Pattern::EVar(b)) => a == b,\n            (Pattern::SVar(a), Pattern::SVar(b)) => a == b,\n            (Pattern::Symbol(a), Pattern::Symbol(b)) => a == b,\n            (Pattern::Implies { left: a, right: b }, Pattern::Implies { left: c, right: d }) => a == c && b == d,\n            (Pattern::App { left: a, right: b }, Pattern::App { left: c, right: d }) => a == c && b == d,\n            (Pattern::Exists { var: a, subpattern: b }, Pattern::Exists { var: c, subpattern: d }) => a == c && b == d,\n            (Pattern::Mu { var: a, subpattern: b }, Pattern::Mu { var: c, subpattern: d }) => a == c && b == d,\n            (Pattern::MetaVar { id: a, .. }, Pattern::MetaVar { id: b, .. }) => a == b,\n            (Pattern::ESubst { pattern: a, evar_id: b, .. }, Pattern::ESubst { pattern: c, evar_id: d, .. }) => a == c && b == d,\n            (Pattern::SSubst { pattern: a, svar_id: b, plug: e }, Pattern::SSubst { pattern: c, svar_id: d, plug: f }) => a == c && b == d && e == f,\n            _ => false,\n        }\n    }\n}\n\nimpl Pattern {\n    fn e_fresh(&self, evar: Id) -> bool {')], names='structural-equality')
V('C12-metavar-eq-by-name', 'C12', [(PT, '    def metavars(self) -> set[int]:\n        return {self.name}\n', '    def metavars(self) -> set[int]:\n        return {self.name}\n\n    def __eq__(self, o: object) -> bool:\n        return isinstance(o, MetaVar) and o.name == self.name\n\n    def __hash__(self) -> int:\n        return hash(self.name)\n')], names='structural-equality')
V('C05-twin-operand-read-after-pop', 'C05', [(RS, '                let id = *iterator\n                    .next()\n                    .expect("Expected var_id for the exists binder") as Id;\n                let subpattern = pop_stack_pattern(stack);\n                stack.push(Term::Pattern(exists(id, subpattern)))', '                let subpattern = pop_stack_pattern(stack);\n                let id = *iterator\n                    .next()\n                    .expect("Expected var_id for the exists binder") as Id;\n                stack.push(Term::Pattern(exists(id, subpattern)))')], expect='silent')
V('C01-twin-operand-read-after-pop', 'C01', [(RS, '                let id = *iterator\n                    .next()\n                    .expect("Expected var_id for the exists binder") as Id;\n                let subpattern = pop_stack_pattern(stack);\n                stack.push(Term::Pattern(exists(id, subpattern)))', '                let subpattern = pop_stack_pattern(stack);\n                let id = *iterator\n                    .next()\n                    .expect("Expected var_id for the exists binder") as Id;\n                stack.push(Term::Pattern(exists(id, subpattern)))')], expect='silent')
V('C02-twin-operand-read-after-pop', 'C02', [(RS, '                let id = *iterator\n                    .next()\n                    .expect("Expected var_id for the exists binder") as Id;\n                let subpattern = pop_stack_pattern(stack);\n                stack.push(Term::Pattern(exists(id, subpattern)))', '                let subpattern = pop_stack_pattern(stack);\n                let id = *iterator\n                    .next()\n                    .expect("Expected var_id for the exists binder") as Id;\n                stack.push(Term::Pattern(exists(id, subpattern)))')], expect='silent')
V('C04-twin-operand-read-after-pop', 'C04', [(RS, '                let id = *iterator\n                    .next()\n                    .expect("Expected var_id for the exists binder") as Id;\n                let subpattern = pop_stack_pattern(stack);\n                stack.push(Term::Pattern(exists(id, subpattern)))', '                let subpattern = pop_stack_pattern(stack);\n                let id = *iterator\n                    .next()\n                    .expect("Expected var_id for the exists binder") as Id;\n                stack.push(Term::Pattern(exists(id, subpattern)))')], expect='silent')
V('C02-twin-emit-helper', 'C02', [(SER, '    def evar(self, id: int) -> Pattern:\n        ret = super().evar(id)\n        self.out.write(bytes([Instruction.EVar, id]))\n        return ret', '    def _emit(self, *data: int) -> None:\n        self.out.write(bytes([*data]))\n\n    def evar(self, id: int) -> Pattern:\n        ret = super().evar(id)\n        self._emit(Instruction.EVar, id)\n        return ret')], expect='silent')
V('C03-twin-emit-helper', 'C03', [(SER, '    def evar(self, id: int) -> Pattern:\n        ret = super().evar(id)\n        self.out.write(bytes([Instruction.EVar, id]))\n        return ret', '    def _emit(self, *data: int) -> None:\n        self.out.write(bytes([*data]))\n\n    def evar(self, id: int) -> Pattern:\n        ret = super().evar(id)\n        self._emit(Instruction.EVar, id)\n        return ret')], expect='silent')
V('C14-twin-emit-helper', 'C14', [(SER, '    def evar(self, id: int) -> Pattern:\n        ret = super().evar(id)\n        self.out.write(bytes([Instruction.EVar, id]))\n        return ret', '    def _emit(self, *data: int) -> None:\n        self.out.write(bytes([*data]))\n\n    def evar(self, id: int) -> Pattern:\n        ret = super().evar(id)\n        self._emit(Instruction.EVar, id)\n        return ret')], expect='silent')
V('C04-twin-emit-helper', 'C04', [(SER, '    def evar(self, id: int) -> Pattern:\n        ret = super().evar(id)\n        self.out.write(bytes([Instruction.EVar, id]))\n        return ret', '    def _emit(self, *data: int) -> None:\n        self.out.write(bytes([*data]))\n\n    def evar(self, id: int) -> Pattern:\n        ret = super().evar(id)\n        self._emit(Instruction.EVar, id)\n        return ret')], expect='silent')
V('C19-twin-emit-helper', 'C19', [(SER, '    def evar(self, id: int) -> Pattern:\n        ret = super().evar(id)\n        self.out.write(bytes([Instruction.EVar, id]))\n        return ret', '    def _emit(self, *data: int) -> None:\n        self.out.write(bytes([*data]))\n\n    def evar(self, id: int) -> Pattern:\n        ret = super().evar(id)\n        self._emit(Instruction.EVar, id)\n        return ret')], expect='silent')

# ---------------------------------------------------------------- C09 glue
V('C09-glue-flag-swapped', 'C09', [(TT, '            if conj_term.negated:\n                return False, pf_conj_1', '            if conj_term.negated:\n                return True, pf_conj_1')], names='glue-polarity')
V('C09-glue-wrong-direction', 'C09', [(TT, '                    pf_cl_2, self.imp_transitivity(pf_cnf_2, self.imp_transitivity(pf_neg_2, pf_conj_2))', '                    pf_cl_2, self.imp_transitivity(pf_cnf_2, self.imp_transitivity(pf_neg_1, pf_conj_2))')], names='glue-polarity')
V('C09-glue-no-dneg', 'C09', [(TT, '            return True, self.modus_ponens(self.dneg_elim(pat), pf_conj_1)', '            return True, pf_conj_1')], names='glue-polarity')
V('C09-twin-glue-locals', 'C09', [(TT, '            return True, self.modus_ponens(self.dneg_elim(pat), pf_conj_1)', '            dne = self.dneg_elim(pat)\n            return True, self.modus_ponens(dne, pf_conj_1)')], expect='silent')

# ---------------------------------------------------------------- idiom twins
MATCH_MP = ('        left_conclusion = left.conclusion\n        l, r = Implies.extract(left_conclusion)\n        assert l == right.conclusion, str(l) + \' != \' + str(right.conclusion)\n        return Proved(r)',
            '        match left.conclusion:\n            case Implies(l, r):\n                if l != right.conclusion:\n                    raise AssertionError(str(l) + \' != \' + str(right.conclusion))\n                return Proved(r)\n            case _:\n                raise AssertionError(\'not an implication\')')
for prop in ('C07', 'C02', 'C08'):
    V(f'{prop}-twin-mp-with-match', prop, [(BI, MATCH_MP[0], MATCH_MP[1])], expect='silent')
V('C14-next-byte-returns-zero-at-end', 'C14', [(DS, "            case None:\n                raise DeserializingException(err_msg)", "            case None:\n                return 0")], names='operand-reader-raises-at-end')
V('C12-metavars-ignores-plug', 'C12', [(PT, '    def metavars(self) -> set[int]:\n        return self.pattern.metavars().union(self.plug.metavars())\n\n    def instantiate(self, delta: Mapping[int, Pattern]) -> Pattern:\n        if not delta:\n            return self\n        return self.pattern.instantiate(delta).apply_ssubst(', '    def metavars(self) -> set[int]:\n        return self.pattern.metavars()\n\n    def instantiate(self, delta: Mapping[int, Pattern]) -> Pattern:\n        if not delta:\n            return self\n        return self.pattern.instantiate(delta).apply_ssubst(')], names='metavars-arm')
V('C12-twin-metavars-bitor', 'C12', [(PT, '    def metavars(self) -> set[int]:\n        return self.left.metavars().union(self.right.metavars())\n\n    def instantiate(self, delta: Mapping[int, Pattern]) -> Pattern:\n        if not delta:\n            return self\n        return App(', '    def metavars(self) -> set[int]:\n        return self.left.metavars() | self.right.metavars()\n\n    def instantiate(self, delta: Mapping[int, Pattern]) -> Pattern:\n        if not delta:\n            return self\n        return App(')], expect='silent')


# ---------------------------------------------------------------- whole-tree twin: every Python file re-printed from its ast
for _p in ('C01', 'C02', 'C03', 'C04', 'C05', 'C06', 'C07', 'C08', 'C09', 'C10', 'C11', 'C12', 'C13', 'C14', 'C15', 'C17', 'C18', 'C19', 'C20'):
    VARIANTS.append({'id': f'{_p}-twin-reformatted-tree', 'property': _p, 'edits': [], 'expect': 'silent', 'names': None,
                     'transform': 'unparse-all'})

# ---------------------------------------------------------------- whole-tree twins: locals renamed; if/else arms swapped
# (selftest/transforms.py; each transformation was validated once against the pinned suite: baseline result)
for _p in [f'C{_i:02d}' for _i in range(1, 21)]:
    VARIANTS.append({'id': f'{_p}-twin-locals-renamed', 'property': _p, 'edits': [], 'expect': 'silent', 'names': None,
                     'transform': 'rename-locals'})
    VARIANTS.append({'id': f'{_p}-twin-branches-inverted', 'property': _p, 'edits': [], 'expect': 'silent', 'names': None,
                     'transform': 'invert-branches'})
    VARIANTS.append({'id': f'{_p}-twin-returns-via-local', 'property': _p, 'edits': [], 'expect': 'silent', 'names': None,
                     'transform': 'return-via-local'})
    VARIANTS.append({'id': f'{_p}-twin-call-arguments-hoisted', 'property': _p, 'edits': [], 'expect': 'silent', 'names': None,
                     'transform': 'hoist-call-args'})
    VARIANTS.append({'id': f'{_p}-twin-guard-clauses', 'property': _p, 'edits': [], 'expect': 'silent', 'names': None,
                     'transform': 'guard-clauses'})
    VARIANTS.append({'id': f'{_p}-twin-comprehensions-as-loops', 'property': _p, 'edits': [], 'expect': 'silent', 'names': None,
                     'transform': 'comp-to-loop'})

# ---------------------------------------------------------------- C09 shape / fold
V('C09-cnf-left-branch-no-renormalise', 'C09', [(TT, '                new_term, pf1_, pf2_ = self.to_cnf(CFAnd(CFOr(term_l.left, term_r), CFOr(term_l.right, term_r)))\n                ret_pf1 = self.imp_transitivity(ret_pf1, pf1_)\n                ret_pf2 = self.imp_transitivity(pf2_, ret_pf2)\n                return new_term, ret_pf1, ret_pf2', '                return CFAnd(CFOr(term_l.left, term_r), CFOr(term_l.right, term_r)), ret_pf1, ret_pf2')], names='cnf-shape')
V('C09-fold-forward', 'C09', [(TT, '            for pf in reversed(pfs[:-2]):', '            for pf in pfs[:-2]:')], names='fold-direction')
V('C09-twin-cnf-else-inlined', 'C09', [(TT, '            else:\n                return CFOr(term_l, term_r), ret_pf1, ret_pf2\n        else:\n            raise AssertionError(f\'Unexpected pattern! Expected a term with only _or and _and but got', '            else:\n                clause = CFOr(term_l, term_r)\n                return clause, ret_pf1, ret_pf2\n        else:\n            raise AssertionError(f\'Unexpected pattern! Expected a term with only _or and _and but got')], expect='silent')

# ---------------------------------------------------------------- C10 helper contract
V('C10-twin-build-subst-comprehension', 'C10', [(PP, '    ret = {}\n    for i, p in enumerate(pats):\n        if p != MetaVar(i):\n            ret[i] = p\n    return ret', '    return {i: p for i, p in enumerate(pats) if p != MetaVar(i)}')], expect='silent')
V('C10-twin-build-subst-continue', 'C10', [(PP, '        if p != MetaVar(i):\n            ret[i] = p', '        if MetaVar(i) == p:\n            continue\n        ret[i] = p')], expect='silent')
V('C10-build-subst-off-by-one', 'C10', [(PP, '            ret[i] = p', '            ret[i + 1] = p')], names='helper-contract')

# ---------------------------------------------------------------- C17 slice closure
V('C17-slice-provable-not-scanned', 'C17', [(MS, '    for needed in (provable, *essentials, *(cut_antecedents[lemma_name] for lemma_name in needed_lemmas)):', '    for needed in (*essentials, *(cut_antecedents[lemma_name] for lemma_name in needed_lemmas)):')], names='slice-closure')
V('C17-slice-metavars-only-of-lemmas', 'C17', [(MS, '        needed_metavariables.update(needed.get_metavariables())', '        if needed is not provable:\n            needed_metavariables.update(needed.get_metavariables())')], names='slice-closure')
V('C17-slice-syntax-deps-after-scan', 'C17', [(MS, '    for lemma in needed_lemmas:\n        needed_lemmas |= frozenset(syntax_deps.get(lemma, ()))\n', ''), (MS, '    statements.append(ConstantStatement(tuple(sorted(needed_constants))))', '    for lemma in needed_lemmas:\n        needed_lemmas |= frozenset(syntax_deps.get(lemma, ()))\n    statements.append(ConstantStatement(tuple(sorted(needed_constants))))')], names='label-set-final')
V('C17-slice-block-before-support', 'C17', [(MS, '    statements.append(Block((*essentials, provable)))\n', ''), (MS, '    for lemma_name, lemma_statement in cut_antecedents.items():\n        if lemma_name in needed_lemmas or', '    statements.append(Block((*essentials, provable)))\n    for lemma_name, lemma_statement in cut_antecedents.items():\n        if lemma_name in needed_lemmas or')], names='declarations-first')
V('C17-slice-lemma-before-hypotheses', 'C17', [(MS, 'Block((*essentials, provable))', 'Block((provable, *essentials))')], names='lemma-block-shape')
V('C17-slice-all-floats-kept', 'C17', [(MS, '            isinstance(lemma_statement, FloatingStatement) and lemma_statement.metavariable in needed_metavariables\n', '            isinstance(lemma_statement, FloatingStatement) and lemma_statement.metavariable not in needed_metavariables\n')], names='slice-closure')
V('C17-twin-slice-scan-continue-idiom', 'C17', [(MS, '        if lemma_name in needed_lemmas or (\n            isinstance(lemma_statement, FloatingStatement) and lemma_statement.metavariable in needed_metavariables\n        ):\n            statements.append(lemma_statement)', '        if lemma_name not in needed_lemmas:\n            if not isinstance(lemma_statement, FloatingStatement):\n                continue\n            if lemma_statement.metavariable not in needed_metavariables:\n                continue\n        statements.append(lemma_statement)')], expect='silent')
V('C17-twin-slice-scan-two-loops', 'C17', [(MS, '        needed_constants.update(statements_get_constants((needed,)))\n        needed_metavariables.update(needed.get_metavariables())', '        needed_constants.update(statements_get_constants((needed,)))\n    for needed in (provable, *essentials, *(cut_antecedents[lemma_name] for lemma_name in needed_lemmas)):\n        needed_metavariables.update(needed.get_metavariables())')], expect='silent')

# ---------------------------------------------------------------- C19 renderer
V('C19-renderer-skips-first', 'C19', [(PT, '        pretty_opts = [p.pretty(opts) for p in applied.inst.values()]', '        pretty_opts = [p.pretty(opts) for p in list(applied.inst.values())[1:]]')], names='renderer-transparent')
V('C19-renderer-default-options', 'C19', [(PT, '        pretty_opts = [p.pretty(opts) for p in applied.inst.values()]', '        pretty_opts = [p.pretty(PrettyOptions()) for p in applied.inst.values()]')], names='renderer-transparent')
V('C19-twin-renderer-tuple-generator', 'C19', [(PT, '        pretty_opts = [p.pretty(opts) for p in applied.inst.values()]', '        pretty_opts = tuple(arg.pretty(opts) for arg in applied.inst.values())')], expect='silent')

# ---------------------------------------------------------------- rules that no earlier mutant exercised
for _p in ('C02', 'C03', 'C04'):
    V(f'{_p}-app-writes-nothing', _p, [(SER, '        ret = super().app(left, right)\n        self.out.write(bytes([Instruction.App]))\n', '        ret = super().app(left, right)\n')], names='emit')
    V(f'{_p}-mu-writes-unimplemented-opcode', _p, [(SER, '        self.out.write(bytes([Instruction.Mu, var]))', '        self.out.write(bytes([Instruction.KnasterTarski, var]))')], names='implemented')
    V(f'{_p}-implies-super-args-swapped', _p, [(SER, '        ret = super().implies(left, right)', '        ret = super().implies(right, left)')], names='super-chain')
    V(f'{_p}-load-writes-top-of-memory', _p, [(SER, '        self.out.write(bytes([Instruction.Load, self.memory.index(term)]))', '        self.out.write(bytes([Instruction.Load, len(self.memory) - 1]))')], names='load-address')
V('C02-gamma-phase-never-leaves', 'C02', [(PR, '        if move_into_claim:\n            interpreter.into_claim_phase()', '        if move_into_claim:\n            pass')], names='phase-protocol')
for _p in ('C03', 'C04'):
    V(f'{_p}-app-writes-implies-opcode', _p, [(SER, '        self.out.write(bytes([Instruction.App]))', '        self.out.write(bytes([Instruction.Implies]))')])
    V(f'{_p}-pattern-keys-not-reversed', _p, [(SER, '        ret = super().instantiate_pattern(pattern, delta)\n        self.out.write(bytes([Instruction.Instantiate, len(delta), *reversed(delta.keys())]))', '        ret = super().instantiate_pattern(pattern, delta)\n        self.out.write(bytes([Instruction.Instantiate, len(delta), *delta.keys()]))')], names='id-plug-pairing')
    V(f'{_p}-exists-operand-dropped', _p, [(SER, '        self.out.write(bytes([Instruction.Exists, var]))', '        self.out.write(bytes([Instruction.Exists]))')], names='layout')
    V(f'{_p}-evar-opcode-operand-swapped', _p, [(SER, '        self.out.write(bytes([Instruction.EVar, id]))', '        self.out.write(bytes([id, Instruction.EVar]))')], names='opcode-byte')
V('C04-generalization-freshness-not-checked', 'C04', [(BI, "        assert r.evar_is_free(var.name), f'{str(var)} in FV({str(r)})'\n", '')], names='rule-guards')
V('C05-unsafe-block', 'C05', [(RS, 'fn execute_instructions<\'a>(', '#[allow(dead_code)]\nfn peek_raw(v: &Vec<u8>) -> u8 {\n    unsafe { *v.get_unchecked(0) }\n}\n\nfn execute_instructions<\'a>(')], names='checked-memory')
V('C10-lemma-uses-generalization', 'C10', [(PP, '    def imp_refl(self, p: Pattern = phi0) -> ProofThunk:', '    def gen_helper(self, pf: ProofThunk) -> ProofThunk:\n        return self.exists_generalization(pf, EVar(0))\n\n    def imp_refl(self, p: Pattern = phi0) -> ProofThunk:')], names='primitive-confinement')
V('C14-claim-phase-replays-axiom', 'C14', [(DS, '                interpreter.publish_claim(pattern)', '                interpreter.publish_axiom(pattern)')], names='reader-publish')
for _p in ('C07', 'C12'):
    V(f'{_p}-implies-handwritten-eq', _p, [(PT, 'class Implies(Pattern):\n    left: Pattern\n    right: Pattern\n', 'class Implies(Pattern):\n    left: Pattern\n    right: Pattern\n\n    def __eq__(self, o: object) -> bool:\n        return isinstance(o, Implies) and self.right == o.right\n\n    def __hash__(self) -> int:\n        return hash(self.right)\n')], names='structural-equality')
V('C17-slice-support-sorted-by-label', 'C17', [(MS, '    for lemma_name, lemma_statement in cut_antecedents.items():\n        if lemma_name in needed_lemmas or', '    for lemma_name, lemma_statement in sorted(cut_antecedents.items(), key=lambda kv: kv[0]):\n        if lemma_name in needed_lemmas or')])
V('C17-slice-floats-kept-in-a-set', 'C17', [(MS, '    cut_antecedents: dict[str, FloatingStatement | AxiomaticStatement | Block] = {}', '    cut_antecedents: dict[str, FloatingStatement | AxiomaticStatement | Block] = {}\n    floats: set[str] = set()'), (MS, '        elif isinstance(statement, FloatingStatement):\n            cut_antecedents[statement.label] = statement', '        elif isinstance(statement, FloatingStatement):\n            floats.add(statement.label)\n            cut_antecedents = {**{l: cut_antecedents[l] for l in floats if l in cut_antecedents}, **cut_antecedents, statement.label: statement}')], names='slice-order')

# ---------------------------------------------------------------- C18 class-level state / extend by set
V('C18-class-level-memo-dict', 'C18', [(OI, 'class MemoizingInterpreter(InterpreterTransformer):', 'class MemoizingInterpreter(InterpreterTransformer):\n    _seen_ids: dict[str, int] = {}\n\n    def _note(self, key: str) -> None:\n        self._seen_ids[key] = len(self._seen_ids)\n')], names='cross-run-state')
V('C18-twin-class-level-constant-table', 'C18', [(OI, 'class MemoizingInterpreter(InterpreterTransformer):', 'class MemoizingInterpreter(InterpreterTransformer):\n    _KINDS: dict[str, int] = {"pattern": 0, "proved": 1}\n\n    def _kind(self, key: str) -> int:\n        return self._KINDS[key]\n')], expect='silent')

# ---------------------------------------------------------------- C16 replay-loop discipline
TRL = PG + 'metamath/translate.py'
V('C16-mp-cleanup-one-pop-short', 'C16', [(TRL, '                interpreter().pop(stack()[-1])\n                interpreter().pop(stack()[-1])\n                interpreter().pop(stack()[-1])\n                interpreter().load(conclusion_name, conclusion)', '                interpreter().pop(stack()[-1])\n                interpreter().pop(stack()[-1])\n                interpreter().load(conclusion_name, conclusion)')], names='stack-discipline')
V('C16-get-delta-off-by-one', 'C16', [(TRL, '            pat = stack()[-(nargs + 1) + i]', '            pat = stack()[-nargs + i]')], names='get_delta/index')
V('C16-get-delta-counter-before-read', 'C16', [(TRL, '            pat = stack()[-(nargs + 1) + i]\n            assert isinstance(pat, Pattern)\n            delta[metavar.name] = pat\n            i += 1', '            i += 1\n            pat = stack()[-(nargs + 1) + i]\n            assert isinstance(pat, Pattern)\n            delta[metavar.name] = pat')], names='get_delta/index')
V('C16-prop1-keys-swapped', 'C16', [(TRL, '                    {0: phi0, 1: phi1},', '                    {0: phi1, 1: phi0},')], names='proof-rule-prop-1/keys')
V('C16-prop2-slots-shifted', 'C16', [(TRL, '                phi0 = stack()[-4]\n                phi1 = stack()[-3]\n                phi2 = stack()[-2]', '                phi0 = stack()[-3]\n                phi1 = stack()[-2]\n                phi2 = stack()[-1]')], names='proof-rule-prop-2/keys')
V('C16-mp-premises-swapped', 'C16', [(TRL, '    def do_mp() -> None:\n        left = stack()[-2]\n        right = stack()[-1]', '    def do_mp() -> None:\n        left = stack()[-1]\n        right = stack()[-2]')], names='proof-rule-mp/premises')
V('C16-reuse-index-off-by-one', 'C16', [(TRL, 'interpreter().load(str(mm_memory[lemma - memory_offset - 1]), mm_memory[lemma - memory_offset - 1])', 'interpreter().load(str(mm_memory[lemma - memory_offset]), mm_memory[lemma - memory_offset])')], names='reuse-index')
V('C16-antecedents-loaded-not-discharged', 'C16', [(TRL, '                    pass  # stack[-2]: eh1 -> (eh2 -> (...))\n                    do_mp()  # stack[-1]: eh2 -> (...)', '                    pass  # stack[-2]: eh1 -> (eh2 -> (...))')], names='stack-discipline')
V('C16-antecedent-not-popped', 'C16', [(TRL, '                    interpreter().save(str(stack()[-1]), stack()[-1])\n                    interpreter().pop(stack()[-1])', '                    interpreter().save(str(stack()[-1]), stack()[-1])')], names='stack-discipline')
V('C16-declares-axiom-without-antecedents', 'C16', [(TRL, '            extracted_axioms.append(convert_to_implication(axiom.antecedents, axiom.pattern))\n            continue', '            extracted_axioms.append(axiom.pattern)\n            continue')], names='axioms-declared-as-loaded')
V('C16-target-not-asserted', 'C16', [(TRL, '    assert pat == Proved(converter.get_lemma_by_name(target).pattern)\n', '')], names='target-proved')
V('C16-z-saves-but-forgets', 'C16', [(TRL, '                mm_memory.append(pat)\n', '')], names='Z-saves-top')
V('C16-pattern-instantiate-plugs-not-pushed', 'C16', [(PG + 'interpreter.py', '                for inst in subst.values():\n                    self.pattern(inst)\n', '')], names='pattern-arms')
V('C16-app-operands-swapped', 'C16', [(TRL, "            if lemma_label == 'app-is-pattern':\n                left = stack()[-2]\n                right = stack()[-1]", "            if lemma_label == 'app-is-pattern':\n                left = stack()[-1]\n                right = stack()[-2]")], names='app-is-pattern/operands')
V('C16-twin-get-delta-enumerate', 'C16', [(TRL, '        i = 0\n        for metavar_label in metavars:\n            metavar = converter.resolve_metavar(metavar_label)\n            pat = stack()[-(nargs + 1) + i]\n            assert isinstance(pat, Pattern)\n            delta[metavar.name] = pat\n            i += 1', '        for i, metavar_label in enumerate(metavars):\n            metavar = converter.resolve_metavar(metavar_label)\n            pat = stack()[-(nargs + 1) + i]\n            assert isinstance(pat, Pattern)\n            delta[metavar.name] = pat')], expect='silent')
V('C16-twin-mp-cleanup-loop', 'C16', [(TRL, '                interpreter().pop(stack()[-1])\n                interpreter().pop(stack()[-1])\n                interpreter().pop(stack()[-1])\n                interpreter().load(conclusion_name, conclusion)', '                for _ in range(3):\n                    interpreter().pop(stack()[-1])\n                interpreter().load(conclusion_name, conclusion)')], expect='silent')
V('C16-twin-reformatted-tree', 'C16', [], expect='silent')
VARIANTS[-1]['transform'] = 'unparse-all'

# ---------------------------------------------------------------- C12 full re-dispatch, C13 match(), C14 lossless
V('C12-twin-deconstruct-while-loop', 'C12', [(PT, '        if isinstance(pat, Mu):\n            return pat.var, pat.subpattern\n        if isinstance(pat, Instantiate):\n            return Mu.deconstruct(pat.simplify())\n        return None', '        while isinstance(pat, Instantiate):\n            pat = pat.simplify()\n        if isinstance(pat, Mu):\n            return pat.var, pat.subpattern\n        return None')], expect='silent')
V('C13-match-fails-only-last', 'C13', [(PT, '        submatch = match_single(pattern, instance, ret)\n        if submatch is None:\n            return None\n        ret = submatch\n    return ret', '        submatch = match_single(pattern, instance, ret)\n        if submatch is None:\n            continue\n        ret = submatch\n    return ret')], names='match-shape')
V('C13-match-restarts-substitution', 'C13', [(PT, '        submatch = match_single(pattern, instance, ret)\n        if submatch is None:\n            return None\n        ret = submatch', '        submatch = match_single(pattern, instance, {})\n        if submatch is None:\n            return None\n        ret = submatch')], names='match-shape')
V('C14-generalization-var-not-written', 'C14', [(SER, '        self.out.write(bytes([Instruction.Generalization, var.name]))', '        self.out.write(bytes([Instruction.Generalization, 0]))')], names='writer-lossless')

# ---------------------------------------------------------------- round-2 rules
for _p in ('C11', 'C07', 'C02'):
    V(f'{_p}-twin-implies-instantiate-disjoint-shortcut', _p, [(PT, '    def instantiate(self, delta: Mapping[int, Pattern]) -> Pattern:\n        if not delta:\n            return self\n        return Implies(self.left.instantiate(delta), self.right.instantiate(delta))', '    def instantiate(self, delta: Mapping[int, Pattern]) -> Pattern:\n        if not delta or self.metavars().isdisjoint(delta):\n            return self\n        return Implies(self.left.instantiate(delta), self.right.instantiate(delta))')], expect='silent')
    V(f'{_p}-implies-instantiate-left-disjoint-shortcut', _p, [(PT, '    def instantiate(self, delta: Mapping[int, Pattern]) -> Pattern:\n        if not delta:\n            return self\n        return Implies(self.left.instantiate(delta), self.right.instantiate(delta))', '    def instantiate(self, delta: Mapping[int, Pattern]) -> Pattern:\n        if not delta or self.left.metavars().isdisjoint(delta):\n            return self\n        return Implies(self.left.instantiate(delta), self.right.instantiate(delta))')], names='subst-arm')
V('C08-implies-walk-right-first', 'C08', [(PG + 'interpreter.py', '                return self.implies(self.pattern(left), self.pattern(right))', '                r = self.pattern(right)\n                return self.implies(self.pattern(left), r)')], names='walk-order')
V('C08-twin-esubst-walk-named-temporaries', 'C08', [(PG + 'interpreter.py', '                plug = self.pattern(plug)\n                subpattern = self.pattern(subpattern)\n                assert isinstance(subpattern, MetaVar | ESubst | SSubst)\n                return self.esubst(var.name, subpattern, plug)', '                built_plug = self.pattern(plug)\n                built = self.pattern(subpattern)\n                assert isinstance(built, MetaVar | ESubst | SSubst)\n                return self.esubst(var.name, built, built_plug)')], expect='silent')
V('C08-tracker-identity-on-save', 'C08', [(ST, "        assert self.stack[-1] == term, f'expected: {self.stack[-1]}\\ngot: {term}'\n        self.memory.append(term)", "        assert self.stack[-1] is term, f'expected: {self.stack[-1]}\\ngot: {term}'\n        self.memory.append(term)")], names='tracker-compares-structurally')
V('C02-slot-budget-ignores-axioms', 'C02', [(CI, '        self._max_allowed_slots -= len(self.memory)\n', '')], names='slot-budget')
V('C02-slot-budget-counter-not-decremented', 'C02', [(CI, '            self._suggested_for_memoization.add(pattern)\n            counter -= 1', '            self._suggested_for_memoization.add(pattern)')], names='slot-budget')
V('C02-twin-slot-budget-local', 'C02', [(CI, '        counter = self._max_allowed_slots\n', '        free_slots = self._max_allowed_slots\n        counter = free_slots\n')], expect='silent')

# ---------------------------------------------------------------- round-2 wave B rules
V('C17-twin-disjoint-pairs-combinations', 'C17', [(MS, '            for var1 in statement.metavariables:\n                for var2 in statement.metavariables:\n                    if var1 != var2:\n                        global_disjoints.add(frozenset({var1.name, var2.name}))', '            for i, var1 in enumerate(statement.metavariables):\n                for var2 in statement.metavariables[i + 1 :]:\n                    global_disjoints.add(frozenset({var1.name, var2.name}))')], expect='silent')
V('C17-disjoint-pairs-first-against-rest', 'C17', [(MS, '            for var1 in statement.metavariables:\n                for var2 in statement.metavariables:\n                    if var1 != var2:\n                        global_disjoints.add(frozenset({var1.name, var2.name}))', '            for var2 in statement.metavariables[1:]:\n                global_disjoints.add(frozenset({statement.metavariables[0].name, var2.name}))')], names='disjoint-all-pairs')
V('C15-twin-label-split-whitespace', 'C15', [(CV, "            # Register each lemma with ' ' as a divider\n            buffer = ''", "            for _tok in proof[:0].split():\n                declared_lemmas[len(declared_lemmas) + 1] = _tok\n            # Register each lemma with ' ' as a divider\n            buffer = ''")], expect='silent')
V('C19-twin-instantiate-shares-untouched-in-place', 'C19', [(PT, '        instantiated_subst = frozendict({k: v.instantiate(delta) for k, v in self.inst.items()})', '        instantiated_subst = frozendict({k: v.instantiate(delta) for k, v in self.inst.items()})\n        assert len(instantiated_subst) == len(self.inst)')], expect='silent')
V('C19-instantiate-delta-first', 'C19', [(PT, "        return Instantiate(self.pattern, frozendict({**instantiated_subst, **unshadowed_delta}))", "        return Instantiate(self.pattern, frozendict({**unshadowed_delta, **instantiated_subst}))")], names='argument-order')
V('C19-call-stores-reversed', 'C19', [(PT, '        return Instantiate(self.definition, frozendict(enumerate(args)))', '        return Instantiate(self.definition, frozendict(reversed(list(enumerate(args)))))')], names='argument-order')
V('C19-memoizer-tests-pretty-printer', 'C19', [(OI, 'from .stateful_interpreter import StatefulInterpreter', 'from .stateful_interpreter import StatefulInterpreter\nfrom .pretty_printing_interpreter import PrettyPrintingInterpreter'), (OI, '        if isinstance(self.sub_interpreter, StatefulInterpreter) and p in self.sub_interpreter.memory:', '        if isinstance(self.sub_interpreter, StatefulInterpreter) and not isinstance(self.sub_interpreter, PrettyPrintingInterpreter) and p in self.sub_interpreter.memory:')], names='outputs-treated-alike')
V('C03-twin-symbol-setdefault', 'C03', [(SER, "        if name not in self._symbol_identifiers:\n            self._symbol_identifiers[name] = len(self._symbol_identifiers)\n        id = self._symbol_identifiers[name]", "        id = self._symbol_identifiers.setdefault(name, len(self._symbol_identifiers))")], expect='silent')
V('C02-twin-symbol-setdefault', 'C02', [(SER, "        if name not in self._symbol_identifiers:\n            self._symbol_identifiers[name] = len(self._symbol_identifiers)\n        id = self._symbol_identifiers[name]", "        id = self._symbol_identifiers.setdefault(name, len(self._symbol_identifiers))")], expect='silent')
V('C03-twin-write-through-pack', 'C03', [(SER, 'from proof_generation.instruction import Instruction', 'from proof_generation.instruction import Instruction, pack'), (SER, '        self.out.write(bytes([Instruction.EVar, id]))', '        self.out.write(pack(iter((Instruction.EVar, id))))')], expect='silent')
V('C16-z-save-conditional', 'C16', [(TRL, '                mm_memory.append(pat)\n                interpreter().save(str(pat), pat)', '                if str(pat) not in [str(x) for x in mm_memory]:\n                    mm_memory.append(pat)\n                    interpreter().save(str(pat), pat)')], names='Z-saves-top')

# ---------------------------------------------------------------- C09/C10 stage contracts, C20 fresh map
for _p in ('C09', 'C10'):
    V(f'{_p}-conj-form-or-args-swapped', _p, [(TT, '                    CFOr(pat0_conj, pat1_conj),\n                    self.imim(actual_pat0_r, pat1_l),\n                    self.imim(pat0_l, actual_pat1_r),', '                    CFOr(pat1_conj, pat0_conj),\n                    self.imim(actual_pat0_r, pat1_l),\n                    self.imim(pat0_l, actual_pat1_r),')], names='stage-contract')
    V(f'{_p}-conj-form-flag-not-flipped', _p, [(TT, '            if pat0_conj.negated:\n                pat0_conj.negated = False\n                return (\n                    CFOr(pat0_conj, pat1_conj),', '            if pat0_conj.negated:\n                return (\n                    CFOr(pat0_conj, pat1_conj),')], names='stage-contract')
V('C09-twin-conj-form-local-names', 'C09', [(TT, '                    pf = self.imp_provable(pat0, pat1_l)\n                    return CFBot(True), pf, None', '                    proof_of_implication = self.imp_provable(pat0, pat1_l)\n                    return CFBot(True), proof_of_implication, None')], expect='silent')
V('C09-resolution-parents-swapped', 'C09', [(TT, '            pf = self.resolution_step(pf_l, pf_r, pf)\n            return final_term, pf', '            pf = self.resolution_step(pf_r, pf_l, pf)\n            return final_term, pf')], names='stage-contract')
V('C09-resolution-clause-order', 'C09', [(TT, '            final_term = term_l_rest + term_r_rest', '            final_term = term_r_rest + term_l_rest')], names='stage-contract')
V('C09-resolvant-not-absolute', 'C09', [(TT, '                    hint[res_set] = ResolutionHintSource(left, right, abs(resolvant))', '                    hint[res_set] = ResolutionHintSource(left, right, resolvant)')], names='resolvant-is-absolute')
V('C20-substitution-map-on-self', 'C20', [(KS, '        substitutions = {}\n        scope = self._cached_axiom_scopes[axiom_ordinal]', '        substitutions = self._last_substitutions\n        scope = self._cached_axiom_scopes[axiom_ordinal]')], names='fresh-map')
V('C09-propag-neg-right-not-flipped', 'C09', [(TT, '                term.right.negated = not term.right.negated\n', '')], names='stage-contract')
V('C09-propag-neg-dni-dropped', 'C09', [(TT, '                if not term.left.negated:\n                    term_l_pf1 = self.dni_l_i(term_l_pf1)\n                    term_l_pf2 = self.dni_r_i(term_l_pf2)\n', '')], names='stage-contract')
V('C09-propag-neg-returns-or', 'C09', [(TT, '                return CFAnd(term_l, term_r), ret_pf1, ret_pf2\n            else:\n                term_l, term_l_pf1, term_l_pf2 = self.propag_neg(term.left)', '                return CFOr(term_l, term_r), ret_pf1, ret_pf2\n            else:\n                term_l, term_l_pf1, term_l_pf2 = self.propag_neg(term.left)')], names='stage-contract')
V('C09-cnf-wrong-distribution-axiom', 'C09', [(TT, '                ret_pf1 = self.imp_trans_match2(ret_pf1, self.or_distr_l())', '                ret_pf1 = self.imp_trans_match2(ret_pf1, self.or_distr_r())')], names='stage-contract')
V('C09-cnf-proofs-swapped', 'C09', [(TT, '            return CFAnd(term_l, term_r), ret_pf1, ret_pf2\n        elif isinstance(term, CFOr):\n            term_l, term_l_pf1, term_l_pf2 = self.to_cnf(term.left)', '            return CFAnd(term_l, term_r), ret_pf2, ret_pf1\n        elif isinstance(term, CFOr):\n            term_l, term_l_pf1, term_l_pf2 = self.to_cnf(term.left)')], names='stage-contract')
V('C09-cnf-distributes-wrong-children', 'C09', [(TT, 'self.to_cnf(CFAnd(CFOr(term_l, term_r.left), CFOr(term_l, term_r.right)))', 'self.to_cnf(CFAnd(CFOr(term_l, term_r.left), CFOr(term_l, term_r.left)))')], names='stage-contract')
V('C09-negative-literal-off-by-one', 'C09', [(TT, '                id = -(term.id + 1)', '                id = -term.id')], names='literal-encoding')
V('C09-decoder-off-by-one', 'C09', [(TT, '        return neg(MetaVar(-(id + 1)))', '        return neg(MetaVar(-id))')], names='literal-encoding')
V('C09-clauses-loop-bound-off-by-one', 'C09', [(TT, '                for i in range(0, l - 2):\n                    shift_right = self.imp_trans_match1(\n                        self.and_assoc_r(), self.imim_and_r(MetaVar(i + 3), shift_right)', '                for i in range(0, l - 2):\n                    shift_right = self.imp_trans_match1(\n                        self.and_assoc_r(), self.imim_and_r(MetaVar(i + 2), shift_right)')], names='to_clauses/CFAnd')
V('C09-clauses-or-shift-directions-swapped', 'C09', [(TT, '                ret_pf1 = self.imp_trans_match2(ret_pf1, shift_right)\n                ret_pf2 = self.imp_trans_match1(shift_left, ret_pf2)\n            return [term_l[0] + term_r[0]], ret_pf1, ret_pf2', '                ret_pf1 = self.imp_trans_match2(ret_pf1, shift_left)\n                ret_pf2 = self.imp_trans_match1(shift_right, ret_pf2)\n            return [term_l[0] + term_r[0]], ret_pf1, ret_pf2')], names='to_clauses/CFOr')
V('C09-clauses-no-shift-for-two', 'C09', [(TT, '            l = len(term_l)\n            assert l > 0\n            if l > 1:', '            l = len(term_l)\n            assert l > 0\n            if l > 2:')])

# ---------------------------------------------------------------- round-3 rules
V('C04-twin-claim-head-by-index', 'C04', [(ST, '        expected_claim, *self.claims = self.claims\n', '        expected_claim = self.claims[0]\n        self.claims = self.claims[1:]\n')], expect='silent')
V('C04-claim-compared-with-last', 'C04', [(ST, '        expected_claim, *self.claims = self.claims\n', '        *self.claims, expected_claim = self.claims\n')], names='claim-queue')
V('C08-twin-super-keywords', 'C08', [(CI, '    def ssubst(self, svar_id: int, pattern: MetaVar | ESubst | SSubst, plug: Pattern) -> Pattern:\n        ret = super().ssubst(svar_id, pattern, plug)', '    def ssubst(self, svar_id: int, pattern: MetaVar | ESubst | SSubst, plug: Pattern) -> Pattern:\n        ret = super().ssubst(svar_id, pattern=pattern, plug=plug)')], expect='silent')
V('C08-stateful-implies-super-args-swapped', 'C08', [(ST, '        ret = super().implies(left, right)', '        ret = super().implies(right, left)')], names='super-same-method')
V('C15-twin-steps-by-regex', 'C15', [(CV, "        buffer: str = ''\n        for letter in applied_lemmas:\n            if letter == 'Z':\n                assert buffer == ''\n                # The choice of 0 is arbitrary to denote Load\n                result.applied_lemmas.append(0)\n                continue\n\n            buffer += letter\n            if letter in lsdigit:\n                result.applied_lemmas.append(convert_to_number(buffer))\n                buffer = ''\n                continue\n", "        for step in re.findall(r'Z|[U-Y]*[A-T]', applied_lemmas):\n            if step == 'Z':\n                result.applied_lemmas.append(0)\n            else:\n                result.applied_lemmas.append(convert_to_number(step))\n")], expect='silent')
V('C15-steps-regex-low-digit-class-short', 'C15', [(CV, "        buffer: str = ''\n        for letter in applied_lemmas:\n            if letter == 'Z':\n                assert buffer == ''\n                # The choice of 0 is arbitrary to denote Load\n                result.applied_lemmas.append(0)\n                continue\n\n            buffer += letter\n            if letter in lsdigit:\n                result.applied_lemmas.append(convert_to_number(buffer))\n                buffer = ''\n                continue\n", "        for step in re.findall(r'Z|[U-Y]*[A-S]', applied_lemmas):\n            if step == 'Z':\n                result.applied_lemmas.append(0)\n            else:\n                result.applied_lemmas.append(convert_to_number(step))\n")], names='step-tokens')
V('C02-metavar-always-fresh', 'C02', [(PT, '    def evar_is_free(self, name: int) -> bool:\n        return EVar(name) in self.e_fresh', '    def evar_is_free(self, name: int) -> bool:\n        return True')], names='judgement-agreement')
V('C10-nth-conjunct-count-not-decremented', 'C10', [(TT, '        return self.imp_transitivity(self.and_r_imp(head, term), self.conjunction_implies_nth(term, n - 1, l - 1))', '        return self.imp_transitivity(self.and_r_imp(head, term), self.conjunction_implies_nth(term, n - 1, l))')], names='conjunction_implies_nth')
V('C13-app-second-call-drops-substitution', 'C13', [(PT, '        return match_single(pat_app[1], inst_app[1], ret)', '        return match_single(pat_app[1], inst_app[1])')], names='substitution-threaded')
V('C13-imp-threads-without-failure-test', 'C13', [(PT, '        ret = match_single(pat_imp[0], inst_imp[0], ret)\n        if ret is None:\n            return None\n        return match_single(pat_imp[1], inst_imp[1], ret)', '        ret = match_single(pat_imp[0], inst_imp[0], ret)\n        return match_single(pat_imp[1], inst_imp[1], ret)')], names='substitution-threaded')
V('C13-bound-metavar-not-compared', 'C13', [(PT, '        if id in ret:\n            if ret[id] != instance:\n                return None\n        else:', '        if id in ret:\n            pass\n        else:')], names='bound-metavariable')
V('C13-mu-case-destructures-instance-as-exists', 'C13', [(PT, '(inst_mu := Mu.deconstruct(instance))', '(inst_mu := Exists.deconstruct(instance))')], names='case/Mu')
V('C13-twin-atoms-in-a-loop', 'C13', [(PT, '    pat_svar = SVar.deconstruct(pattern)\n    inst_svar = SVar.deconstruct(instance)\n    if (pat_svar is not None) and (inst_svar is not None):\n        if pat_svar != inst_svar:\n            return None\n        return ret\n    pat_sym = Symbol.deconstruct(pattern)\n    inst_sym = Symbol.deconstruct(instance)\n    if (pat_sym is not None) and (inst_sym is not None):\n        if pat_sym != inst_sym:\n            return None\n        return ret\n', '    for atom in (SVar, Symbol):\n        pat_atom = atom.deconstruct(pattern)\n        inst_atom = atom.deconstruct(instance)\n        if (pat_atom is not None) and (inst_atom is not None):\n            return None if pat_atom != inst_atom else ret\n')], expect='silent')
V('C13-twin-unwrap-local-cache-variable', 'C13', [(PT, '        if isinstance(pattern, Instantiate):\n            return cls.unwrap(pattern.simplify())', '        if isinstance(pattern, Instantiate):\n            expanded = pattern.simplify()\n            return cls.unwrap(expanded)')], expect='silent')

# ---------------------------------------------------------------- round-3 wave C rules
V('C17-application-variables-first-subterm-only', 'C17', [(MA, '        metavars = set()\n        for subterm in self.subterms:\n            metavars.update(subterm.get_metavariables())\n        return metavars', '        metavars = set()\n        for subterm in self.subterms[:1]:\n            metavars.update(subterm.get_metavariables())\n        return metavars')], names='variables-complete')
V('C17-twin-block-variables-comprehension', 'C17', [(MA, '    def get_metavariables(self) -> set[str]:\n        metavars = set()\n        for statement in self.statements:\n            metavars.update(statement.get_metavariables())\n        return metavars', '    def get_metavariables(self) -> set[str]:\n        return set().union(*[statement.get_metavariables() for statement in self.statements])')], expect='silent')
V('C18-metavars-field-read-by-position', 'C18', [(TRL, '            if len(axiom.metavars) > 0:', '            if len(axiom.metavars) > 0 and str(axiom.metavars[0]):')], names='metavar_names')
V('C18-twin-metavars-tuple-built-in-helper', 'C18', [(CV, """                        metavar_names = set(axiom.metavars)
                        for antecedent in antecedents:
                            metavar_names.update(antecedent.metavars)
                        axiom = AxiomWithAntecedents(
                            axiom.name,
                            axiom.args,
                            axiom.type_check,
                            axiom.pattern,
                            tuple(metavar_names),""", """                        def _names(ax, ants):
                            metavar_names = set(ax.metavars)
                            for antecedent in ants:
                                metavar_names.update(antecedent.metavars)
                            return tuple(metavar_names)
                        axiom = AxiomWithAntecedents(
                            axiom.name,
                            axiom.args,
                            axiom.type_check,
                            axiom.pattern,
                            _names(axiom, antecedents),""")], expect='silent')
V('C17-needed-lemmas-loop-keeps-order', 'C17', [(PG + 'metamath/metamath_extract_slice.py', '        needed_metavariables.update(needed.get_metavariables())\n', '        needed_metavariables.update(needed.get_metavariables())\n        statements.append(needed)\n')], names='needed_lemmas')
V('C18-sorted-with-key-over-set', 'C18', [(CI, '                suitable.sort(key=lambda pattern: self._pattern_usage[pattern].complexity_score, reverse=True)\n                return suitable', '                return sorted(set(suitable), key=lambda pattern: self._pattern_usage[pattern].complexity_score, reverse=True)')], names='iteration-order')

# ---------------------------------------------------------------- C16 / C20 round-3 rules
V('C16-twin-get-delta-store-via-local', 'C16', [(TRL, '            delta[metavar.name] = pat\n', '            key = metavar.name\n            delta[key] = pat\n')], expect='silent')
V('C16-lemma-floats-from-pattern', 'C16', [(CV, "        metavars: tuple[str, ...] = tuple(sorted({var for var in notation.args if scope.is_metavar(var)}))\n        axiom_pattern = notation(*args)\n        lemma = Lemma(", "        axiom_pattern = notation(*args)\n        metavars: tuple[str, ...] = tuple(sorted({var for var in notation.args if scope.is_metavar(var) and scope.resolve(var).name in axiom_pattern.metavars()}))\n        lemma = Lemma(")], names='floats-from-statement')
V('C20-unwrap-slice-wrong-length', 'C20', [(KS, "        return sym.name.removeprefix('ksym_')", "        return sym.name[4:]")], names='name-wrapping')
V('C20-twin-unwrap-slice', 'C20', [(KS, "        return sym.name.removeprefix('ksym_')", "        return sym.name[len('ksym_'):]")], expect='silent')

# wave 3: resolvable() decided by the membership algebra (C09 / C10), both directions
V('C09-resolvable-keeps-negated-literal', 'C09', [(TT, '        c1 = c1.difference({-resolvent})', '        c1 = c1.difference({resolvent})')], names='resolution/resolvable')
V('C09-resolvable-removes-wrong-literal-right', 'C09', [(TT, '        c2 = c2.difference({resolvent})', '        c2 = c2.difference({-resolvent})')], names='resolution/resolvable')
V('C09-resolvable-intersection', 'C09', [(TT, '        return resolvent, c1.union(c2)', '        return resolvent, c1.intersection(c2)')], names='resolution/resolvable')
V('C09-resolvable-several-clashes', 'C09', [(TT, '        if len(common) != 1:', '        if len(common) < 1:')], names='resolution/resolvable')
V('C10-resolvable-keeps-negated-literal', 'C10', [(TT, '        c1 = c1.difference({-resolvent})', '        c1 = c1.difference({resolvent})')], names='resolution/resolvable')
V('C09-twin-resolvable-operators', 'C09', [(TT, '        c1 = c1.difference({-resolvent})\n        c2 = c2.difference({resolvent})\n        return resolvent, c1.union(c2)', '        return resolvent, (c2 - {resolvent}) | (c1 - {-resolvent})')], expect='silent')
V('C09-twin-resolvable-remove-both-after-union', 'C09', [(TT, '        c1 = c1.difference({-resolvent})\n        c2 = c2.difference({resolvent})\n        return resolvent, c1.union(c2)', '        return resolvent, (c1 | c2) - {resolvent, -resolvent}')], expect='silent')
# wave 3: mutants of the restated rules on the clean tree
V('C01-conversion-helper-mints', 'C01', [(RS, '            Instruction::Save => match stack.last().expect("Save needs an entry on the stack") {\n                Term::Pattern(p) => memory.push(Entry::Pattern(p.clone())),', '            Instruction::Save => match stack.last().expect("Save needs an entry on the stack") {\n                Term::Pattern(p) => memory.push(Entry::Proved(p.clone())),')], names='minting')
V('C14-end-of-input-one-early', 'C14', [(PG + 'deserialize.py', '        if index == len(data):', '        if index == len(data) - 1:')], names='end-of-input-is-none')
V('C15-weight-starts-at-100', 'C15', [(PG + 'metamath/converter/converter.py', '                n += msdigit[letter] * pow(5, exp) * 20', '                n += msdigit[letter] * pow(5, exp) * 100')], names='weights')
V('C15-exponent-steps-before-use', 'C15', [(PG + 'metamath/converter/converter.py', '                n += msdigit[letter] * pow(5, exp) * 20\n                exp += 1', '                exp += 1\n                n += msdigit[letter] * pow(5, exp) * 20')], names='weights')
V('C18-finalize-loop-reads-table-size', 'C18', [(PG + 'counting_interpreter.py', '            for pattern in requires_updating:\n                self._compute_complexity_score(pattern)', '            for pattern in requires_updating:\n                self._compute_complexity_score(pattern)\n                self._pattern_usage[pattern] = self._pattern_usage[pattern]._replace(uses=len(self._suggested_for_memoization) + len(self._pattern_usage))')], names='iteration-order')
V('C18-finalize-loop-appends-to-list', 'C18', [(PG + 'counting_interpreter.py', '            for dependency in dependencies:\n                old_stats = self._pattern_usage[dependency]', '            for dependency in dependencies:\n                self.memory.append(dependency)\n                old_stats = self._pattern_usage[dependency]')], names='iteration-order')

# wave 4 / round 5: new rules, both directions
V('C13-app-left-component-not-matched', 'C13', [(PG + 'pattern.py', "        ret = match_single(pat_app[0], inst_app[0], ret)\n        if ret is None:\n            return None\n        return match_single(pat_app[1], inst_app[1], ret)", "        return match_single(pat_app[1], inst_app[1], ret)")], names='all-components-matched')
V('C13-exists-binder-not-compared', 'C13', [(PG + 'pattern.py', "        if pat_ex[0] != inst_ex[0]:\n            return None\n", "")], names='all-components-matched')
V('C18-last-set-element-escapes', 'C18', [(PG + 'counting_interpreter.py', "            for pattern in requires_updating:\n                self._compute_complexity_score(pattern)\n", "            for pattern in requires_updating:\n                self._compute_complexity_score(pattern)\n            self._pattern_usage[pattern] = self._pattern_usage[pattern]._replace(complexity=1)\n")], names='iteration-order')
V('C17-excluded-lemma-not-registered', 'C17', [(PG + 'metamath/metamath_extract_slice.py', "            antecedents, consequent = deconstruct_provable(statement)\n", "            antecedents, consequent = deconstruct_provable(statement)\n            if consequent.label in exclude:\n                continue\n")], names='every-labelled-statement-registered')
V('C19-metavar-step-stops-at-first-empty-list', 'C19', [(PG + 'pretty_printing_interpreter.py', "        write_list('sFresh', s_fresh)\n", "        if len(s_fresh) == 0:\n            return\n        write_list('sFresh', s_fresh)\n")], names='metavar/constraint-lists')
V('C16-application-folded-from-the-end', 'C16', [(PG + 'metamath/converter/converter.py', "                            next_one, *converted_args = converted_args\n", "                            *converted_args, next_one = converted_args\n")], names='curried-in-argument-order')
V('C16-twin-application-fold-popleft', 'C16', [(PG + 'metamath/converter/converter.py', "                            next_one, *converted_args = converted_args\n", "                            next_one = converted_args.pop(0)\n")], expect='silent')
V('C15-hypotheses-selected-by-caller-set', 'C15', [(PG + 'metamath/converter/converter.py', "            metavars = statement.get_metavariables()\n            ordered_metavars = [var", "            metavars = set(self._floating_patterns[:1])\n            ordered_metavars = [var")], names='variables-of-the-statement')
V('C15-numbered-in-declaration-order', 'C15', [(PG + 'metamath/converter/converter.py', "            ordered_metavars = [var for var in self._floating_patterns if var in metavars]", "            ordered_metavars = [var for var in self._declared_variables if var in metavars and var in self._floating_patterns]")], names='numbering-loop')
V('C14-load-slot-of-conclusion', 'C14', [(SER, "        self.out.write(bytes([Instruction.Load, self.memory.index(term)]))", "        self.out.write(bytes([Instruction.Load, self.memory.index(term.conclusion if isinstance(term, Proved) else term)]))")], names='load-address')

# wave 5: rules added while mutating the refactored code, both directions
_CONV = PG + 'metamath/converter/converter.py'
_TR = PG + 'metamath/translate.py'
_DES = PG + 'deserialize.py'
V('C14-opcode-shifted-by-one', 'C14', [(_DES, "        instruction = Instruction(byte)", "        instruction = Instruction(byte + 1)")], names='opcode-is-the-byte-read')
V('C14-metavar-constraint-lists-swapped', 'C14', [(_DES, "interpreter.metavar(id, e_fresh, s_fresh, positive, negative, app_ctxt_holes)", "interpreter.metavar(id, s_fresh, e_fresh, positive, negative, app_ctxt_holes)")], names='reader-order')
V('C14-twin-metavar-lists-as-one-tuple', 'C14', [(_DES, "            e_fresh, s_fresh, positive, negative, app_ctxt_holes = (read_list() for _ in range(5))\n            _ = interpreter.metavar(id, e_fresh, s_fresh, positive, negative, app_ctxt_holes)", "            lists = [read_list() for _ in range(5)]\n            _ = interpreter.metavar(id, *lists)")], expect='silent')
V('C15-low-digit-off-by-one', 'C15', [(_CONV, "            n: int = lsdigit[first_letter]", "            n: int = lsdigit[first_letter] - 1")], names='number-is-low-digit-plus-high-digits')
V('C15-buffer-not-emptied', 'C15', [(_CONV, "                buffer = ''\n                continue", "                continue")], names='buffer-reset')
V('C15-labels-numbered-from-len', 'C15', [(_CONV, "            lemma_n = len(declared_lemmas) + 1", "            lemma_n = len(declared_lemmas)")], names='label-numbering')
V('C15-label-counter-not-advanced', 'C15', [(_CONV, "                    declared_lemmas[lemma_n] = buffer\n                    lemma_n += 1", "                    declared_lemmas[lemma_n] = buffer")], names='label-numbering')
V('C16-antecedent-not-remembered', 'C16', [(_TR, "                    saved_antecedents.append((str(stack()[-1]), stack()[-1]))\n", "")], names='antecedent-discharge')
V('C16-antecedents-discharged-last-first', 'C16', [(_TR, "for eh, pat in reversed(saved_antecedents):", "for eh, pat in saved_antecedents:")], names='antecedent-discharge')
V('C16-twin-antecedents-discharged-by-slice', 'C16', [(_TR, "for eh, pat in reversed(saved_antecedents):", "for eh, pat in saved_antecedents[::-1]:")], expect='silent')
V('C16-unknown-label-passed-over', 'C16', [(_TR, "        else:\n            raise NotImplementedError(f'The proof label {lemma_label} is not recognized as an implemented instruction')", "        else:\n            pass")], names='dispatch-ends-raising')
V('C17-set-iteration-emits-variable-statements', 'C17', [(MS, "            statements.append(DisjointStatement(tuple(Metavariable(var) for var in pair)))", "            statements.append(VariableStatement(tuple(Metavariable(var) for var in pair)))")], names='slice-order')
V('C17-twin-disjoints-as-comprehension', 'C17', [(MS, "    for pair in global_disjoints:\n        if pair.issubset(needed_metavariables):\n            statements.append(DisjointStatement(tuple(Metavariable(var) for var in pair)))", "    statements.extend([DisjointStatement(tuple(Metavariable(v) for v in p)) for p in global_disjoints if p.issubset(needed_metavariables)])")], expect='silent')

# round 7: rules added for disguised breakage, on the unrefactored tree
V('C08-walker-swaps-polarity-lists', 'C08', [(PG + 'interpreter.py', "return self.metavar(name, e_fresh, s_fresh, positive, negative, app_ctx_holes)", "return self.metavar(name, e_fresh, s_fresh, negative, positive, app_ctx_holes)")], names='rebuilds-the-pattern')
V('C03-walker-swaps-polarity-lists', 'C03', [(PG + 'interpreter.py', "return self.metavar(name, e_fresh, s_fresh, positive, negative, app_ctx_holes)", "return self.metavar(name, e_fresh, s_fresh, negative, positive, app_ctx_holes)")], names='rebuilds-the-pattern')
V('C15-labels-cut-at-space-only', 'C15', [(_CONV, "                if letter.isspace():\n                    declared_lemmas[lemma_n] = buffer", "                if letter == ' ':\n                    declared_lemmas[lemma_n] = buffer")], names='divider-is-any-whitespace')
V('C15-steps-list-kept-on-converter', 'C15', [(_CONV, "        result = Proof(declared_lemmas, [])", "        result = Proof(declared_lemmas, self._steps)")], names='steps-fresh-per-proof')
V('C17-lemma-slice-without-block-antecedents', 'C17', [(MS, "                        cut_antecedents, global_disjoints, syntax_deps, consequent, antecedents\n", "                        cut_antecedents, global_disjoints, syntax_deps, consequent, ()\n")], names='lemma-antecedents-reach-slice-and-axiom')
V('C17-disjoint-kept-under-strict-subset', 'C17', [(MS, "        if pair.issubset(needed_metavariables):", "        if pair < needed_metavariables:")], names='disjoint-kept-iff-declared')
V('C17-twin-disjoint-kept-under-le', 'C17', [(MS, "        if pair.issubset(needed_metavariables):", "        if pair <= needed_metavariables:")], expect='silent')

# mutation sweeps: one representative mutant per rule added, on the unrefactored tree
_ST = PG + 'stateful_interpreter.py'
_IO = PG + 'io_interpreter.py'
_BI = PG + 'basic_interpreter.py'
_IN = PG + 'interpreter.py'
_PF = PG + 'proof.py'
_OPT = PG + 'optimizing_interpreters.py'
_PAT = PG + 'pattern.py'
V('C14-pop-reads-bottom-of-stack', 'C14', [(_DES, "            interpreter.pop(interpreter.stack[-1])", "            interpreter.pop(interpreter.stack[0])")], names='reader-slots')
V('C14-instantiate-run-one-too-deep', 'C14', [(_DES, "reversed(interpreter.stack[-(n + 1) : -1])", "reversed(interpreter.stack[-(n + 2) : -1])")], names='reader-pairing')
V('C14-instantiate-map-keyed-by-plugs', 'C14', [(_DES, "zip(keys, values, strict=True)", "zip(values, keys, strict=True)")], names='reader-pairing')
V('C14-load-replays-first-entry', 'C14', [(_DES, "interpreter.load(str(id), interpreter.memory[id])", "interpreter.load(str(id), interpreter.memory[0])")], names='Load/term-is-memory-at-operand')
V('C14-cursor-starts-at-one', 'C14', [(_DES, "    index = 0\n", "    index = 1\n")], names='cursor-starts-at-zero')
V('C14-list-reader-loses-elements', 'C14', [(_DES, "            res.append(elem)\n", "            pass\n")], names='list-reader-returns-what-it-read')
V('C03-streams-exchanged-in-constructor', 'C03', [(SER, "super().__init__(phase, out, claims, claim_out, proof_out)", "super().__init__(phase, out, claims, proof_out, claim_out)")], names='forwards-by-name')
V('C04-pop-compares-second-entry', 'C04', [(_ST, "    def pop(self, term: Pattern | Proved) -> None:\n        assert self.stack[-1] == term", "    def pop(self, term: Pattern | Proved) -> None:\n        assert self.stack[-2] == term")], names='term-is-the-top')
V('C04-io-phase-change-not-passed-on', 'C04', [(_IO, "        assert self.claim_out\n        super().into_claim_phase()\n", "        assert self.claim_out\n")], names='passes-on')
V('C04-publish-proof-in-claim-phase', 'C04', [(_BI, "        assert self.phase == ExecutionPhase.Proof", "        assert self.phase == ExecutionPhase.Claim")], names='only-in-the-proof-phase')
V('C04-claim-phase-from-claim', 'C04', [(_IN, "        assert self.phase == ExecutionPhase.Gamma\n        self.phase = ExecutionPhase.Claim", "        assert self.phase == ExecutionPhase.Claim\n        self.phase = ExecutionPhase.Claim")], names='gamma-to-claim')
V('C16-instantiate-target-below-top', 'C16', [(_TR, "                pat = stack()[-1]\n                assert isinstance(pat, Proved)\n                interpreter().instantiate(pat,", "                pat = stack()[-2]\n                assert isinstance(pat, Proved)\n                interpreter().instantiate(pat,")], names='tracker-slots')
V('C16-implication-conclusion-first', 'C16', [(_TR, "    return Implies(ant, conclusion)", "    return Implies(conclusion, ant)")], names='implication-first-antecedent-outermost')
V('C16-z-marker-differs', 'C16', [(_CONV, "                result.applied_lemmas.append(0)", "                result.applied_lemmas.append(-1)")], names='Z-marker-agrees')
V('C15-z-not-recorded', 'C15', [(_CONV, "                result.applied_lemmas.append(0)\n", "")], names='every-token-recorded')
V('C15-offset-on-the-parenthesis', 'C15', [(_CONV, "            return _i + _j + _l + 2", "            return _i + _j + _l + 1")], names='scan-offsets')
V('C15-hypotheses-of-the-other-variables', 'C15', [(_CONV, "ordered_metavars = [var for var in self._floating_patterns if var in metavars]", "ordered_metavars = [var for var in self._floating_patterns if var not in metavars]")], names='variables-of-the-statement')
V('C17-axiom-arguments-exchanged', 'C17', [(MS, "construct_axiom(antecedents, consequent)", "construct_axiom(consequent, antecedents)")], names='arguments-by-name')
V('C17-labels-include-the-parenthesis', 'C17', [(MS, "    lemmas_begin = proof.find('(') + 1", "    lemmas_begin = proof.find('(')")], names='labels-between-the-parentheses')
V('C17-block-split-loses-last-hypothesis', 'C17', [(MS, "tuple(statement.statements[:-1])),", "tuple(statement.statements[:-2])),")], names='block-is-antecedents-then-lemma')
V('C17-bare-axiom-when-hypotheses', 'C17', [(MS, "    if not antecedents:\n        return AxiomaticStatement", "    if antecedents:\n        return AxiomaticStatement")], names='registered-axiom-is-the-lemma')
V('C17-constants-of-statements-not-scanned', 'C17', [(MS, "            ret.update(get_constants(statement.terms))", "            pass")], names='constants-of-statements')
V('C17-notation-axioms-not-added', 'C17', [(MS, "    needed_lemmas |= frozenset(filter(None, map(corresponding_sugar_axiom, needed_lemmas)))\n", "")], names='label-closure')
V('C17-named-statement-needs-float-too', 'C17', [(MS, "        if lemma_name in needed_lemmas or (", "        if lemma_name in needed_lemmas and (")], names='needed-statements-are-emitted')
V('C08-mp-premises-exchanged-in-thunk', 'C08', [(_PF, "interpreter.modus_ponens(left(interpreter), right(interpreter))", "interpreter.modus_ponens(right(interpreter), left(interpreter))")], names='premises-in-order')
V('C08-publish-thunk-does-not-publish', 'C08', [(_PF, "            interpreter.publish_proof(proved(interpreter))\n", "            proved(interpreter)\n")], names='thunk-performs-the-call')
V('C08-optimizer-never-forwards', 'C08', [(_OPT, "        if len(delta):\n            self.sub_interpreter.instantiate(proved, delta)\n", "")], names='forwarding')
V('C03-memoizer-hit-without-load', 'C03', [(_OPT, "            self.load(str(p), p)\n            return p", "            return p")], names='optimiser-transparent')
V('C03-add-axiom-when-present', 'C03', [(_PF, "        if axiom not in self._axioms:", "        if axiom in self._axioms:")], names='declares-what-is-added')
V('C07-exists-binder-shortcut-conjoined', 'C07', [(_PAT, "        return name == self.var or self.subpattern.evar_is_free(name)", "        return name == self.var and self.subpattern.evar_is_free(name)")], names='freshness-exact')
V('C11-delta-kept-for-absent-metavars-only', 'C11', [(_PAT, "if k not in self.inst and k in free_metavars}", "if k not in self.inst and k not in free_metavars}")], names='simultaneous-instantiate')
V('C13-binding-ignores-constraints', 'C13', [(_PAT, "            if not pattern.can_be_replaced_by(instance):\n                return None\n            ret[id] = instance", "            ret[id] = instance")], names='bound-metavariable-compared')
V('C13-notation-matches-roles-exchanged', 'C13', [(_PAT, "        match = match_single(self.definition, pattern)", "        match = match_single(pattern, self.definition)")], names='notation-matches')

# the printer half of C17 (rule printer-output), on the unrefactored tree
_MAST = PG + 'metamath/ast.py'
V('C17-metavariable-not-printed', 'C17', [(_MAST, "        self.write(metavar.name)", "        pass")], names='printer-output')
V('C17-application-head-not-printed', 'C17', [(_MAST, "            self.write('( ')\n            self.write(application.symbol)\n", "            self.write('( ')\n")], names='printer-output')
V('C17-terms-glued-to-keyword', 'C17', [(_MAST, "        for term in stmt.terms:\n            self.write(' ')\n            self.visit(term)", "        for term in stmt.terms:\n            self.visit(term)")], names='tokens-are-separated')
V('C17-closing-parenthesis-not-printed', 'C17', [(_MAST, "            self.write(' )')\n", "")], names='delimiters-in-pairs')
V('C17-missing-proof-printed-without-keyword', 'C17', [(_MAST, "                self.write(' $= ?')", "                pass")], names='delimiters-in-pairs')
V('C17-statement-letter-not-printed', 'C17', [(_MAST, "        self.write(self.get_statement_type(stmt))\n", "")], names='printer-output')
V('C17-twin-application-head-hoisted', 'C17', [(_MAST, "        if len(application.subterms) == 0:\n            self.write(application.symbol)\n        else:\n            self.write('( ')\n            self.write(application.symbol)\n", "        head = application.symbol\n        if len(application.subterms) == 0:\n            self.write(head)\n        else:\n            self.write('( ')\n            self.write(head)\n")], expect='silent')

# C20: sweep rules, on the unrefactored tree
_EPG = PG + 'k/execution_proof_generation.py'
_RS = PG + 'k/kore_convertion/rewrite_steps.py'
_LS = PG + 'k/kore_convertion/language_semantics.py'
V('C20-hint-skipped', 'C20', [(_EPG, "                proof_expr.rewrite_event(hint.axiom, hint.substitutions)", "                pass")], names='every-hint-becomes-a-step')
V('C20-rule-axiom-not-declared', 'C20', [(_EPG, "        self.add_axiom(rule.pattern)\n", "")], names='rule-axiom-declared')
V('C20-hint-not-yielded', 'C20', [(_RS, "                yield hint\n", "                pass\n")], names='hint-chains-configurations')
V('C20-hint-configurations-exchanged', 'C20', [(_RS, "RewriteStepExpression(pre_config, post_config, axiom, substitutions)", "RewriteStepExpression(post_config, pre_config, axiom, substitutions)")], names='hint-chains-configurations')
V('C20-rewrite-sides-exchanged-in-conversion', 'C20', [(_LS, "return kl.kore_rewrites(rewrite_sort_pattern, left_rw_pattern, right_rw_pattern)", "return kl.kore_rewrites(rewrite_sort_pattern, right_rw_pattern, left_rw_pattern)")], names='conversion-order')

# C19: n-ary application (sweep rules), on the unrefactored tree
_KORE = PG + 'proofs/kore.py'
V('C19-nary-app-ignores-first-argument', 'C19', [(_KORE, "    for i in range(0, n):\n        p = App(p, MetaVar(i))", "    for i in range(1, n):\n        p = App(p, MetaVar(i))")], names='format-covers-deps')
V('C19-nary-app-right-nested', 'C19', [(_KORE, "        p = App(p, MetaVar(i))", "        p = App(MetaVar(i), p)")], names='nary-application')
V('C19-nary-reader-reverses-arguments', 'C19', [(_KORE, "            return symbol, (*args, r)", "            return symbol, (r, *args)")], names='nary-application')

# ---- wave 6 (rules found while mutating the wave-6 twins and the base tree next to them)
_SLI = PG + 'metamath/metamath_extract_slice.py'
V('C16-prop1-replayed-as-prop2', 'C16', [(_TR, "prop1 = interpreter().prop1()", "prop1 = interpreter().prop2()")], names='proof-rule-prop-1/axiom')
V('C17-constant-declaration-drops-one', 'C17', [(_SLI, "statements.append(ConstantStatement(tuple(sorted(needed_constants))))",
                                                "statements.append(ConstantStatement(tuple(sorted(needed_constants))[1:]))")], names='declares-the-whole-set')
V('C17-variable-declaration-drops-one', 'C17', [(_SLI, "VariableStatement(tuple(Metavariable(var) for var in sorted(needed_metavariables)))",
                                                "VariableStatement(tuple(Metavariable(var) for var in sorted(needed_metavariables)[1:]))")], names='declares-the-whole-set')
V('C17-notation-axioms-for-part-of-the-labels', 'C17', [(_SLI, "map(corresponding_sugar_axiom, needed_lemmas)", "map(corresponding_sugar_axiom, sorted(needed_lemmas)[1:])")],
  names='label-closure/for-every-label')
V('C20-equational-branch-reuses-the-rewrite-scope', 'C20', [(_LS, "                                scope = ConvertionScope()\n                                parsed_pattern = semantics._convert_pattern(scope, pattern)",
                                                             "                                parsed_pattern = semantics._convert_pattern(scope, pattern)")], names='scope-per-axiom')
V('C20-step-from-event-whatever-follows', 'C20', [(_RS, "if isinstance(e1, LLVMRuleEvent) and isinstance(e2, kore.Pattern):", "if isinstance(e1, LLVMRuleEvent):")],
  names='hint-chains-configurations')
V('C14-esubst-replayed-without-plug', 'C14', [(_DES, "interpreter.esubst(evar_id, pattern, plug)", "interpreter.esubst(evar_id, pattern)")], names='reader-slots')
V('C15-antecedent-remembered-after-the-pop-is-fine', 'C16', [(_TR, "                    saved_antecedents.append((str(stack()[-1]), stack()[-1]))\n                    interpreter().save(str(stack()[-1]), stack()[-1])\n                    interpreter().pop(stack()[-1])",
                                                              "                    top_ = stack()[-1]\n                    interpreter().save(str(top_), top_)\n                    interpreter().pop(top_)\n                    saved_antecedents.append((str(top_), top_))")], expect='silent')

# ---- round 8 (rules added for the round-8 seeds, each also fires on a one-line change of the base tree)
V('C04-claim-phase-written-to-the-proof-stream', 'C04', [(_IO, "        self.out = self.claim_out", "        self.out = self.proof_out")], names='writes-to-its-own-stream')
V('C20-other-axioms-take-no-ordinal', 'C20', [(_LS, "                                next(module.counter)", "                                pass")], names='ordinals-in-sentence-order')
V('C20-imports-not-transitive', 'C20', [(_LS, "            modules.append(module)\n            modules.extend(module.modules)", "            modules.append(module)")], names='imports-are-transitive')
V('C20-axiom-lookup-in-direct-imports-only', 'C20', [(_LS, "        for module in self.modules:\n            try:\n                axiom = module.get_axiom(ordinal)\n                return axiom\n            except ValueError:\n                continue",
                                                     "        for module in self._imported_modules:\n            if ordinal in module._axioms:\n                return module._axioms[ordinal]")], names='axiom-lookup-reaches-every-import')
V('C17-named-statements-only-when-variables-are-in-use', 'C17', [(_SLI, "    for lemma_name, lemma_statement in cut_antecedents.items():\n        if lemma_name in needed_lemmas or (\n            isinstance(lemma_statement, FloatingStatement) and lemma_statement.metavariable in needed_metavariables\n        ):\n            statements.append(lemma_statement)",
                                                                 "    if needed_metavariables:\n      for lemma_name, lemma_statement in cut_antecedents.items():\n        if lemma_name in needed_lemmas or (\n            isinstance(lemma_statement, FloatingStatement) and lemma_statement.metavariable in needed_metavariables\n        ):\n            statements.append(lemma_statement)")],
  names='named-statements-emitted-unconditionally')
V('C18-twin-metavars-field-tested-for-truth', 'C18', [(_TR, "            if len(axiom.metavars) > 0:", "            if axiom.metavars:")], expect='silent')
V('C16-twin-metavars-field-tested-for-truth', 'C16', [(_TR, "            if len(axiom.metavars) > 0:", "            if axiom.metavars:")], expect='silent')
