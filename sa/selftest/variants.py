"""Mutants (one rule instance broken; must be reported) and benign twins (behaviour kept; must stay silent).

Each variant: id, property, edits [(path, old, new)], expect 'fire' | 'silent', optional `names` (substring that must
appear in the report line, so that the right instance is named).
"""

RS = 'rust/src/lib.rs'
PG = 'generation/src/proof_generation/'

VARIANTS = []


def V(id, prop, edits, expect='fire', names=None):
    VARIANTS.append({'id': id, 'property': prop, 'edits': edits, 'expect': expect, 'names': names})


# ---------------------------------------------------------------- C06 / C01 S6
for prop in ('C06', 'C01'):
    V(f'{prop}-implies-or', prop, [(RS, 'Pattern::Implies { left, right } => left.e_fresh(evar) && right.e_fresh(evar),',
                                    'Pattern::Implies { left, right } => left.e_fresh(evar) || right.e_fresh(evar),')], names='e_fresh/Implies')
    V(f'{prop}-polarity-not-swapped', prop, [(RS, 'Pattern::Implies { left, right } => left.negative(svar) && right.positive(svar),',
                                              'Pattern::Implies { left, right } => left.positive(svar) && right.positive(svar),')], names='positive/Implies')
    V(f'{prop}-esubst-ignores-plug', prop, [(RS, '                pattern.e_fresh(evar) && plug.e_fresh(evar)\n            }\n            Pattern::SSubst { pattern, plug, .. } => {\n                // Assume: substitution is well-formed => plug occurs in the result\n\n                // We can skip checking evar == svar_id',
                                             '                pattern.e_fresh(evar)\n            }\n            Pattern::SSubst { pattern, plug, .. } => {\n                // Assume: substitution is well-formed => plug occurs in the result\n\n                // We can skip checking evar == svar_id')], names='e_fresh/ESubst')
    V(f'{prop}-mu-sfresh-ignores-binder', prop, [(RS, 'Pattern::Mu { var, subpattern } => svar == *var || subpattern.positive(svar),',
                                                  'Pattern::Mu { var, subpattern } => svar != *var || subpattern.positive(svar),')], names='positive/Mu')
    # more conservative judgement: still sound (a C05 deviation, not a C06 one)
    V(f'{prop}-twin-exists-conservative', prop, [(RS, 'Pattern::Exists { var, subpattern } => evar == *var || subpattern.e_fresh(evar),',
                                                  'Pattern::Exists { subpattern, .. } => subpattern.e_fresh(evar),')], expect='silent')
    V(f'{prop}-twin-if-return', prop, [(RS, 'Pattern::App { left, right } => left.s_fresh(svar) && right.s_fresh(svar),',
                                        'Pattern::App { left, right } => {\n                if !left.s_fresh(svar) {\n                    return false;\n                }\n                right.s_fresh(svar)\n            }')], expect='silent')
V('C06-py-exists-and', 'C06', [(PG + 'pattern.py', '        return name == self.var or self.subpattern.evar_is_free(name)',
                                '        return name != self.var or self.subpattern.evar_is_free(name)')], names='evar_is_free/Exists')
V('C06-py-esubst-plug-dropped', 'C06', [(PG + 'pattern.py', '        # We assume that at least one instance will be replaced\n        return self.pattern.evar_is_free(name) and self.plug.evar_is_free(name)\n\n    def metavars(self) -> set[int]:\n        return self.pattern.metavars().union(self.plug.metavars())\n\n    def instantiate(self, delta: Mapping[int, Pattern]) -> Pattern:\n        if not delta:\n            return self\n        return self.pattern.instantiate(delta).apply_esubst(',
                                         '        # We assume that at least one instance will be replaced\n        return self.pattern.evar_is_free(name)\n\n    def metavars(self) -> set[int]:\n        return self.pattern.metavars().union(self.plug.metavars())\n\n    def instantiate(self, delta: Mapping[int, Pattern]) -> Pattern:\n        if not delta:\n            return self\n        return self.pattern.instantiate(delta).apply_esubst(')], names='evar_is_free/ESubst')
V('C06-py-twin-implies-ifs', 'C06', [(PG + 'pattern.py', '    def evar_is_free(self, name: int) -> bool:\n        return self.left.evar_is_free(name) and self.right.evar_is_free(name)\n\n    def metavars(self) -> set[int]:\n        return self.left.metavars().union(self.right.metavars())\n\n    def instantiate(self, delta: Mapping[int, Pattern]) -> Pattern:\n        if not delta:\n            return self\n        return Implies(',
                                      '    def evar_is_free(self, name: int) -> bool:\n        if not self.left.evar_is_free(name):\n            return False\n        return self.right.evar_is_free(name)\n\n    def metavars(self) -> set[int]:\n        return self.left.metavars().union(self.right.metavars())\n\n    def instantiate(self, delta: Mapping[int, Pattern]) -> Pattern:\n        if not delta:\n            return self\n        return Implies(')], expect='silent')

# ---------------------------------------------------------------- C01
V('C01-mp-compare-right', 'C01', [(RS, 'if *left.as_ref() != *premise2.as_ref() {', 'if *right.as_ref() != *premise2.as_ref() {')], names='ModusPonens')
V('C01-mp-no-check', 'C01', [(RS, 'if *left.as_ref() != *premise2.as_ref() {', 'if false {')], names='ModusPonens')
V('C01-gen-fresh-in-left', 'C01', [(RS, 'if !right.e_fresh(evar_id) {', 'if !left.e_fresh(evar_id) {')], names='Generalization')
V('C01-gen-sfresh', 'C01', [(RS, 'if !right.e_fresh(evar_id) {', 'if !right.s_fresh(evar_id) {')], names='Generalization')
V('C01-save-pattern-as-proved', 'C01', [(RS, 'Term::Pattern(p) => memory.push(Entry::Pattern(p.clone())),', 'Term::Pattern(p) => memory.push(Entry::Proved(p.clone())),')], names='Save')
V('C01-load-pattern-as-proved', 'C01', [(RS, 'Entry::Pattern(p) => stack.push(Term::Pattern(p.clone())),', 'Entry::Pattern(p) => stack.push(Term::Proved(p.clone())),')], names='Load')
V('C01-claim-publish-to-memory', 'C01', [(RS, '                    let claim = pop_stack_pattern(stack);\n                    claims.push(claim)', '                    let claim = pop_stack_pattern(stack);\n                    memory.push(Entry::Proved(claim.clone()));\n                    claims.push(claim)')], names='Publish')
V('C01-negative-checked-with-positive', 'C01', [(RS, '.find(|&svar| !plugs[pos].negative(*svar))', '.find(|&svar| !plugs[pos].positive(*svar))')], names='negative')
V('C01-efresh-constraint-dropped', 'C01', [(RS, 'if let Some(evar) = e_fresh.into_iter().find(|&evar| !plugs[pos].e_fresh(*evar)) {', 'if let Some(evar) = e_fresh.into_iter().find(|&_evar| false) {')], names='e_fresh')
V('C01-capture-guard-deleted', 'C01', [(RS, '            assert!(\n                plug.e_fresh(*var),\n                "EVar substitution would capture free variable {}!",\n                var\n            );\n', '')], names='apply_esubst/Exists')
V('C01-capture-wrong-sort', 'C01', [(RS, '            assert!(\n                plug.s_fresh(*var),\n                "SVar substitution would capture free variable {}!",', '            assert!(\n                plug.e_fresh(*var),\n                "SVar substitution would capture free variable {}!",')], names='apply_ssubst/Mu')
V('C01-mu-wf-dropped', 'C01', [(RS, '                if !mu_pat.well_formed() {', '                if false && !mu_pat.well_formed() {')], names='Mu')
V('C01-wf-mu-negative', 'C01', [(RS, 'Pattern::Mu { var, subpattern } => subpattern.positive(*var),', 'Pattern::Mu { var, subpattern } => subpattern.negative(*var),')], names='well_formed/Mu')
V('C01-prop1-wrong', 'C01', [(RS, '        implies(Rc::clone(&phi1), Rc::clone(&phi0)),\n    );', '        implies(Rc::clone(&phi1), Rc::clone(&phi1)),\n    );')], names='Prop1')
V('C01-publish-proof-no-compare', 'C01', [(RS, '                    if claim != theorem {', '                    if false && claim != theorem {')], names='Publish')
V('C01-twin-assert-to-if', 'C01', [(RS, '            assert!(\n                plug.e_fresh(*var),\n                "EVar substitution would capture free variable {}!",\n                var\n            );\n', '            if !plug.e_fresh(*var) {\n                panic!("EVar substitution would capture free variable {}!", var);\n            }\n')], expect='silent')
V('C01-twin-ne-to-not-eq', 'C01', [(RS, 'if *left.as_ref() != *premise2.as_ref() {', 'if !(*left.as_ref() == *premise2.as_ref()) {')], expect='silent')
V('C01-twin-guard-in-helper', 'C01', [(RS, '                    if !right.e_fresh(evar_id) {\n                        panic!("The binding variable has to be fresh in the conclusion.");\n                    }', '                    let is_fresh = right.e_fresh(evar_id);\n                    if !is_fresh {\n                        panic!("The binding variable has to be fresh in the conclusion.");\n                    }')], expect='silent')

# ---------------------------------------------------------------- C05
V('C05-mu-positive-no-shortcut', 'C05', [(RS, 'Pattern::Mu { var, subpattern } => svar == *var || subpattern.positive(svar),', 'Pattern::Mu { subpattern, .. } => subpattern.positive(svar),')], names='positive/Mu')
V('C05-operand-unwrap-or', 'C05', [(RS, '                let id = *iterator\n                    .next()\n                    .expect("Expected id for the EVar to be put on stack")\n                    as Id;', '                let id = *iterator.next().unwrap_or(&0) as Id;')], names='EVar')
V('C05-final-claims-check-deleted', 'C05', [(RS, '    assert!(\n        claims.is_empty(),\n        "Checking finished but there are claims left unproved:\\n{:?}\\n",\n        claims\n    );\n', '')], names='verify')
V('C05-pop-pattern-where-proved', 'C05', [(RS, '                let premise2 = pop_stack_proved(stack);', '                let premise2 = pop_stack_pattern(stack);')], names='ModusPonens')
V('C05-unknown-opcode-ignored', 'C05', [(RS, '            _ => {\n                unimplemented!("Instruction: {}", instr_u32)\n            }', '            _ => {}')], names='reject')
V('C05-bad-byte-default', 'C05', [(RS, '            _ => panic!("Bad Instruction!"),', '            _ => Instruction::Pop,')], names='decode')
V('C05-esubst-pops-swapped', 'C05', [(RS, '                let pattern = pop_stack_pattern(stack);\n                let plug = pop_stack_pattern(stack);\n\n                let esubst_pat', '                let plug = pop_stack_pattern(stack);\n                let pattern = pop_stack_pattern(stack);\n\n                let esubst_pat')], names='ESubst')
V('C05-stack-not-cleared', 'C05', [(RS, '    stack.clear();\n\n    execute_instructions(\n        proof_buffer,', '    execute_instructions(\n        proof_buffer,')], names='verify')
V('C05-load-get-unwrap-or', 'C05', [(RS, '                match &memory[index as usize] {', '                match memory.get(index as usize).unwrap_or(&memory[0]) {')], names='Load')
V('C05-twin-expect-to-match', 'C05', [(RS, '                let id = *iterator\n                    .next()\n                    .expect("Expected id for the SVar to be put on stack")\n                    as Id;', '                let id = match iterator.next() {\n                    Some(b) => *b as Id,\n                    None => panic!("Expected id for the SVar to be put on stack"),\n                };')], expect='silent')
V('C05-twin-arms-reordered', 'C05', [(RS, '            Instruction::Prop1 => {\n                stack.push(Term::Proved(Rc::clone(&prop1)));\n            }\n            Instruction::Prop2 => {\n                stack.push(Term::Proved(Rc::clone(&prop2)));\n            }', '            Instruction::Prop2 => {\n                stack.push(Term::Proved(Rc::clone(&prop2)));\n            }\n            Instruction::Prop1 => {\n                stack.push(Term::Proved(Rc::clone(&prop1)));\n            }')], expect='silent')

# ---------------------------------------------------------------- C02
V('C02-opcode-renumbered-py', 'C02', [(PG + 'instruction.py', '    Mu = 0x07\n    Exists = 0x08', '    Mu = 0x08\n    Exists = 0x07')], names='opcode-byte')
V('C02-esubst-slots-swapped', 'C02', [(PG + 'stateful_interpreter.py', '    def esubst(self, evar_id: int, pattern: MetaVar | ESubst | SSubst, plug: Pattern) -> Pattern:\n        *self.stack, expected_plug, expected_pattern = self.stack', '    def esubst(self, evar_id: int, pattern: MetaVar | ESubst | SSubst, plug: Pattern) -> Pattern:\n        *self.stack, expected_pattern, expected_plug = self.stack')], names='esubst')
V('C02-claims-not-reversed', 'C02', [(PG + 'proof.py', '        for claim in reversed(self._claims):', '        for claim in self._claims:')], names='claim-order')
V('C02-keys-not-reversed', 'C02', [(PG + 'serializing_interpreter.py', '    def instantiate(self, proved: Proved, delta: dict[int, Pattern]) -> Proved:\n        ret = super().instantiate(proved, delta)\n        self.out.write(bytes([Instruction.Instantiate, len(delta), *reversed(delta.keys())]))', '    def instantiate(self, proved: Proved, delta: dict[int, Pattern]) -> Proved:\n        ret = super().instantiate(proved, delta)\n        self.out.write(bytes([Instruction.Instantiate, len(delta), *delta.keys()]))')], names='id-plug-pairing')
V('C02-mu-operand-dropped', 'C02', [(PG + 'serializing_interpreter.py', '        self.out.write(bytes([Instruction.Mu, var]))', '        self.out.write(bytes([Instruction.Mu]))')], names='layout')
V('C02-implies-args-swapped-basic', 'C02', [(PG + 'basic_interpreter.py', '    def implies(self, left: Pattern, right: Pattern) -> Pattern:\n        return Implies(left, right)', '    def implies(self, left: Pattern, right: Pattern) -> Pattern:\n        return Implies(right, left)')], names='wiring')
V('C02-prop2-basic-wrong', 'C02', [(PG + 'basic_interpreter.py', '                Implies(Implies(phi0, phi1), Implies(phi0, phi2)),\n            ),\n        )', '                Implies(Implies(phi0, phi1), Implies(phi1, phi2)),\n            ),\n        )')], names='Prop2')
V('C02-rust-exists-operand-swapped', 'C02', [(RS, '                stack.push(Term::Pattern(exists(id, subpattern)))', '                stack.push(Term::Pattern(mu(id, subpattern)))')], names='exists')
V('C02-gen-writes-wrong-var', 'C02', [(PG + 'serializing_interpreter.py', '        self.out.write(bytes([Instruction.Generalization, var.name]))', '        self.out.write(bytes([Instruction.Generalization, 0]))')], names='exists_generalization')
V('C02-twin-local-bytes', 'C02', [(PG + 'serializing_interpreter.py', '        self.out.write(bytes([Instruction.App]))', '        payload = bytes([Instruction.App])\n        self.out.write(payload)')], expect='silent')
V('C02-twin-stateful-asserts-swapped', 'C02', [(PG + 'stateful_interpreter.py', '    def app(self, left: Pattern, right: Pattern) -> Pattern:\n        *self.stack, expected_left, expected_right = self.stack\n        assert expected_left == left\n        assert expected_right == right', '    def app(self, left: Pattern, right: Pattern) -> Pattern:\n        *self.stack, expected_left, expected_right = self.stack\n        assert right == expected_right\n        assert left == expected_left')], expect='silent')

# ---------------------------------------------------------------- C10
PP = PG + 'proofs/propositional.py'
TT = PG + 'tautology.py'
V('C10-and_l_imp-wrong-arg', 'C10', [(PP, '        return self.con1(self.absurd(p, neg(q)))', '        return self.con1(self.absurd(p, q))')], names='and_l_imp')
V('C10-and_r_imp-swapped', 'C10', [(PP, '        return self.con1(self.prop1_inst(neg(q), p))', '        return self.con1(self.prop1_inst(neg(p), q))')], names='and_r_imp')
V('C10-or_distr_r-wrong-axiom', 'C10', [(TT, '        return self.dynamic_inst(self.load_axiom_by_index(2), _build_subst([pat1, pat2, pat3]))', '        return self.dynamic_inst(self.load_axiom_by_index(3), _build_subst([pat1, pat2, pat3]))')], names='or_distr_r')
V('C10-axiom-list-edited', 'C10', [(TT, '                Implies(_or(_or(phi0, phi1), phi2), _or(phi0, _or(phi1, phi2))),', '                Implies(_or(_or(phi0, phi1), phi2), _or(phi1, _or(phi0, phi2))),')], names='lemma-schema')
V('C10-imp-provable-returns-other-valid', 'C10', [(PP, '        q = q_pf.conc\n        return self.modus_ponens(self.prop1_inst(q, p), q_pf)', '        q = q_pf.conc\n        return self.modus_ponens(self.prop1_inst(q, q), q_pf)')], names='imp_provable')
V('C10-notation-redefined', 'C10', [(PG + 'pattern.py', "_or = Notation('or', 2, Implies(neg(phi0), phi1), '({0} ⋁ {1})')", "_or = Notation('or', 2, Implies(neg(phi1), phi0), '({0} ⋁ {1})')")], names='lemma-schema')
V('C10-thunk-built-in-library', 'C10', [(PP, '    def top_intro(self) -> ProofThunk:\n        """top"""\n        return self.imp_refl(bot())', '    def top_intro(self) -> ProofThunk:\n        """top"""\n        from proof_generation.proof import ProofThunk as PT\n        return ProofThunk(lambda i: self.imp_refl(bot())(i), top())')], names='thunk-confinement')
V('C10-twin-renamed-local', 'C10', [(PP, '        q = q_pf.conc\n        return self.modus_ponens(self.prop1_inst(q, p), q_pf)', '        concl = q_pf.conc\n        step = self.prop1_inst(concl, p)\n        return self.modus_ponens(step, q_pf)')], expect='silent')
V('C10-twin-other-derivation', 'C10', [(PP, '    def top_intro(self) -> ProofThunk:\n        """top"""\n        return self.imp_refl(bot())', '    def top_intro(self) -> ProofThunk:\n        """top"""\n        return self.bot_elim(bot())')], expect='silent')
