"""Checker self-validation: every rule must fire on a variant with one instance broken (mutant) and stay silent on a
behaviour-preserving rewrite (twin).  Variants are textual substitutions applied to a scratch copy of the analysed
parts of the tree (never to /repo); the check runs against the copy through PI2_REPO.

A variant that no longer applies (the anchor text changed) is reported as STALE and skipped - the self-test validates the
checker, it must not fail because the repository moved on.  A mutant that is not caught, or a twin that raises an alarm,
is a SELFTEST-FAIL (exit 2: the checker is wrong, not the repository).
"""
from __future__ import annotations

import concurrent.futures as cf
import json
import os
import shutil
import subprocess
import sys
import tempfile

from ..core.report import REPO, VERIF

PARTS = ['generation/src/proof_generation', 'rust/src', 'docs']


def load_variants(pid: str | None = None):
    from . import variants
    out = []
    for v in variants.VARIANTS:
        if pid is None or v['property'] == pid:
            out.append(v)
    out.extend(seeded_variants(pid))
    out.extend(twin_variants(pid))
    return out


def twin_variants(pid: str | None = None):
    """Every confirmed behaviour-preserving refactoring (/verif/twins/<id>/patch.diff, written by independent sub-agents, suite and
    regenerated outputs unchanged) must leave EVERY check silent: a twin of each property."""
    out = []
    tdir = os.path.join(VERIF, 'twins')
    if not os.path.isdir(tdir):
        return out
    PROPERTY_IDS = [f'C{i:02d}' for i in range(1, 21)]
    for name in sorted(os.listdir(tdir)):
        pf = os.path.join(tdir, name, 'patch.diff')
        if not os.path.exists(pf):
            continue
        for b in PROPERTY_IDS:
            if pid is None or b == pid:
                out.append({'id': f'twin:{name}', 'property': b, 'edits': [], 'patch': pf, 'expect': 'silent'})
    return out


def seeded_variants(pid: str | None = None):
    """Every confirmed seeded change (/verif/seeded/<id>/patch.diff, written by independent sub-agents or reverse patches of
    the repairs) is a mutant for each property its meta.json says it breaks."""
    out = []
    sdir = os.path.join(VERIF, 'seeded')
    if not os.path.isdir(sdir):
        return out
    for name in sorted(os.listdir(sdir)):
        pf = os.path.join(sdir, name, 'patch.diff')
        mf = os.path.join(sdir, name, 'meta.json')
        if not (os.path.exists(pf) and os.path.exists(mf)):
            continue
        try:
            with open(mf, encoding='utf-8') as f:
                meta = json.load(f)
                breaks = meta.get('breaks', [])
        except (OSError, ValueError):
            continue
        if meta.get('not_decided'):
            continue                  # a confirmed change that no rule decides (recorded as such in DESIGN.md): not a standing mutant
        for b in breaks:
            if pid is None or b == pid:
                out.append({'id': f'seeded:{name}', 'property': b, 'edits': [], 'patch': pf})
    return out


def scratch_copy() -> str:
    d = tempfile.mkdtemp(prefix='pi2self-')
    for part in PARTS:
        src = os.path.join(REPO, part)
        if os.path.isdir(src):
            shutil.copytree(src, os.path.join(d, part), ignore=shutil.ignore_patterns('__pycache__', 'tests'))
    # the Metamath prelude is read from the benchmark databases (C16); the large raw proof archive is not needed
    bm = os.path.join(REPO, 'generation', 'mm-benchmarks')
    if os.path.isdir(bm):
        os.makedirs(os.path.join(d, 'generation', 'mm-benchmarks'), exist_ok=True)
        for fn in os.listdir(bm):
            if fn.endswith('.mm'):
                shutil.copy(os.path.join(bm, fn), os.path.join(d, 'generation', 'mm-benchmarks', fn))
    return d


def run_variant(v: dict) -> dict:
    d = scratch_copy()
    try:
        if v.get('transform'):
            # behaviour-preserving rewrite of the whole Python side (selftest/transforms.py)
            from . import transforms
            transforms.apply(v['transform'], d)
        if v.get('patch'):
            chk = subprocess.run(['patch', '-p1', '-s', '-f', '--dry-run', '-d', d, '-i', v['patch']], capture_output=True, text=True)
            touched = [l[6:].split()[0] for l in open(v['patch'], encoding='utf-8') if l.startswith('+++ b/')]
            inside = [t for t in touched if any(t.startswith(part + '/') for part in PARTS) and '/tests/' not in t]
            if chk.returncode != 0 and not inside:
                return {'id': v['id'], 'status': 'STALE', 'why': 'patch touches nothing analysed'}
            p = subprocess.run(['patch', '-p1', '-s', '-f', '-d', d, '-i', v['patch']], capture_output=True, text=True)
            rej = [t for t in inside if os.path.exists(os.path.join(d, t + '.rej'))]
            if rej:
                return {'id': v['id'], 'status': 'STALE', 'why': f'patch no longer applies to {rej}'}
        for path, old, new in v['edits']:
            fp = os.path.join(d, path)
            if not os.path.exists(fp):
                return {'id': v['id'], 'status': 'STALE', 'why': f'{path} missing'}
            with open(fp, encoding='utf-8') as f:
                s = f.read()
            if s.count(old) != 1:
                return {'id': v['id'], 'status': 'STALE', 'why': f'anchor text occurs {s.count(old)} times in {path}'}
            with open(fp, 'w', encoding='utf-8') as f:
                f.write(s.replace(old, new))
        env = dict(os.environ, PI2_REPO=d, PI2_EVIDENCE_DIR=os.path.join(d, '_ev'), PYTHONDONTWRITEBYTECODE='1')
        env.pop('VERIF_TIER', None)
        q = subprocess.run([sys.executable, '-m', 'sa.main', v['property'], '--tier', 'quick'],
                           capture_output=True, text=True, env=env, cwd=VERIF, timeout=600)
        lines = [l.strip() for l in q.stdout.splitlines() if ': rule ' in l or l.startswith('ANALYSIS-ERROR')]
        import re as _re
        rules = sorted({m.group(1) for l in lines for m in [_re.search(r': rule (\S+)', l)] if m})
        want = v.get('expect', 'fire')
        if want == 'fire':
            ok = q.returncode == 1 and (not v.get('names') or any(v['names'] in l for l in lines))
        else:
            ok = q.returncode == 0
        return {'id': v['id'], 'status': 'OK' if ok else 'FAIL', 'rc': q.returncode, 'expect': want,
                'lines': lines[:3], 'names': v.get('names'), 'rules': rules}
    except subprocess.TimeoutExpired:
        return {'id': v['id'], 'status': 'FAIL', 'rc': 'timeout', 'expect': v.get('expect', 'fire'), 'lines': []}
    finally:
        shutil.rmtree(d, ignore_errors=True)


def run_all(variants: list[dict], jobs: int = 16) -> list[dict]:
    with cf.ThreadPoolExecutor(max_workers=jobs) as ex:
        return list(ex.map(run_variant, variants))


def run_for_property(pid: str, jobs: int = 16, quiet: bool = False) -> dict:
    vs = load_variants(pid)
    res = run_all(vs, jobs)
    summary = {'variants': len(res), 'mutants_caught': sum(1 for r, v in zip(res, vs) if r['status'] == 'OK' and v.get('expect', 'fire') == 'fire'),
               'twins_silent': sum(1 for r, v in zip(res, vs) if r['status'] == 'OK' and v.get('expect') == 'silent'),
               'stale': [r['id'] for r in res if r['status'] == 'STALE'],
               'rules_fired_by_some_mutant': sorted({x for r, v in zip(res, vs) if v.get('expect', 'fire') == 'fire' for x in r.get('rules', [])}),
               'seeded_changes_caught': sorted(r['id'][7:] for r in res if r['id'].startswith('seeded:') and r['status'] == 'OK'),
               'failed': [r for r in res if r['status'] == 'FAIL']}
    if not quiet:
        for r in res:
            print(f'  selftest {r["status"]:5s} {r["id"]}' + (f' rc={r.get("rc")} expect={r.get("expect")} {r.get("lines")}' if r['status'] == 'FAIL' else '')
                  + (f' ({r.get("why")})' if r['status'] == 'STALE' else ''))
    return summary


def main(extra: list[str], jobs: int = 16) -> int:
    pids = [x.upper() for x in extra] or sorted({v['property'] for v in load_variants()})
    bad = 0
    for pid in pids:
        print(f'[{pid}] self-validation')
        s = run_for_property(pid, jobs)
        print(f'[{pid}] {s["variants"]} variants: {s["mutants_caught"]} mutants caught, {s["twins_silent"]} twins silent, '
              f'{len(s["stale"])} stale, {len(s["failed"])} FAILED')
        bad += len(s['failed'])
    if bad:
        print(f'SELFTEST-FAIL {bad} variant(s)')
        return 2
    return 0
