"""Checker self-validation (mutants and benign twins).  Filled in per property."""
from __future__ import annotations


def run_for_property(pid: str, jobs: int = 16) -> int:
    return 0


def main(extra: list[str], jobs: int = 16) -> int:
    return 0
