"""C20 - K execution traces become chained rewrite proofs: the rewrite-step typestate and the conversion scopes."""
from __future__ import annotations

import ast
import re

from ..core.pyeval import PyEval, show
from ..core.pyfacts import PyRepo

LEVEL = 'other'
EXE = 'k.execution_proof_generation'
SEM = 'k.kore_convertion.language_semantics'
SELF = ('param', 'self')


def rewrite_event(ctx, py: PyRepo):
    ci = py.cls('ExecutionProofExp', EXE)
    fn = ci.methods.get('rewrite_event')
    ctx.require(fn is not None, 'anchor vanished: ExecutionProofExp.rewrite_event')
    where = py.where(EXE, fn)
    KEEP = {'add_assumptions_for_rewrite_step'}

    def resolver(call, env, _ev):
        """helper methods of ExecutionProofExp itself (a step split into named parts) are evaluated in place; what the class inherits
        from ProofExp (add_claim, add_proof_expression, dynamic_inst, load_axiom ..) stays symbolic - the rule is about those calls"""
        f = call.func
        if not (isinstance(f, ast.Attribute) and isinstance(f.value, ast.Name)):
            return None
        via_self, via_cls = env.get(f.value.id) == SELF, f.value.id == ci.name
        if not (via_self or via_cls) or f.attr not in ci.methods or f.attr in KEEP or f.attr == fn.name:
            return None
        g = ci.methods[f.attr]
        decos = [ast.unparse(d).split('(')[0].split('.')[-1] for d in g.decorator_list]
        if 'property' in decos:
            return None
        if 'staticmethod' in decos:
            return g, None
        if 'classmethod' in decos:
            return g, ('name', ci.name)
        return (g, SELF) if via_self else None
    ev = PyEval(resolver=resolver)
    paths = ev.paths(fn)
    rets = [p for p in paths if p.end[0] == 'return']
    ctx.require(rets, 'rewrite_event has no returning path')
    INST = ('call', ('attr', ('attr', ('param', 'rule'), 'pattern'), 'instantiate'), (('param', 'substitution'),), ())
    for i, p in enumerate(rets):
        # the destructuring of the instantiated rule as a rewrite
        matches = [e.value for e in p.events if e.kind == 'ecall' and e.value[1][0] == 'attr' and e.value[1][2] == 'assert_matches']
        m_ok = len(matches) >= 1 and matches[0][1][1] == ('attr', ('name', 'kl'), 'kore_rewrites') and matches[0][2] == (INST,)
        ctx.ob('rewrite-typestate', f'destructures-instantiated-rule/path{i}', m_ok,
               'the rule must be instantiated with the step\'s substitution and then destructured as a kore rewrite '
               f'(found {[show(m) for m in matches][:2]})', where)
        if not m_ok:
            continue
        M = matches[0]
        lhs, rhs = ('sub', M, ('const', 1)), ('sub', M, ('const', 2))

        def same_component(v, k):
            # match[k] by indexing or by unpacking `_, lhs, rhs = match`
            return v in (('sub', M, ('const', k)), ('item', M, k), ('item', M, k - 3))
        # guard: lhs == current configuration, raising otherwise
        cur_attr = ('attr', SELF, '_curr_config')
        cur_prop = ('attr', SELF, 'current_configuration')
        guard_idx = None
        for k, (c, b) in enumerate(p.conds):
            if b is True and c[0] == 'cmp' and c[1] == '==' and any(same_component(x, 1) and y in (cur_attr, cur_prop) for x, y in ((c[2], c[3]), (c[3], c[2]))):
                guard_idx = k
        ctx.ob('rewrite-typestate', f'lhs-equals-current-configuration/path{i}', guard_idx is not None,
               'a step is accepted without requiring <lhs of the instantiated rule> == <current configuration>', where,
               facts={'conditions': [(show(c), b) for c, b in p.conds]})
        # effects in order: claim registration, proof registration, configuration update - all after the guard.  The decision
        # `lhs == current configuration` is an event of the path (kind 'cond'); it dominates an effect iff it precedes it there.
        guard_pos = None
        for k, e in enumerate(p.events):
            if e.kind == 'cond' and guard_idx is not None and e.value == p.conds[guard_idx] and guard_pos is None:
                guard_pos = k
        effects = {}
        all_effects: dict[str, list] = {'claim': [], 'proof': [], 'config': []}
        for k, e in enumerate(p.events):
            if e.kind == 'ecall' and e.value[1] == ('attr', SELF, 'add_claim'):
                effects['claim'] = (k, e.value)
                all_effects['claim'].append(k)
            if e.kind == 'ecall' and e.value[1] == ('attr', SELF, 'add_proof_expression'):
                effects['proof'] = (k, e.value)
                all_effects['proof'].append(k)
            if e.kind == 'setattr' and e.value[0] == SELF and e.value[1] == '_curr_config':
                effects['config'] = (k, e.value)
                all_effects['config'].append(k)
        for name in ('claim', 'proof', 'config'):
            ok = name in effects and guard_pos is not None and all(k > guard_pos for k in all_effects[name])
            ctx.ob('rewrite-typestate', f'{name}-after-guard/path{i}', ok,
                   f'the {name} registration / update happens before (or without) the check that the step starts at the current configuration',
                   where, facts={'guard position': guard_pos, 'effect position': effects.get(name, (None,))[0]})
        if 'claim' in effects:
            ctx.ob('rewrite-typestate', f'claim-is-instantiated-rule/path{i}', effects['claim'][1][2] == (INST,),
                   f'the claim added is {show(effects["claim"][1][2][0]) if effects["claim"][1][2] else None}, not the instantiated rule', where)
        if 'config' in effects:
            ctx.ob('rewrite-typestate', f'next-configuration-is-rhs/path{i}', same_component(effects['config'][1][2], 2),
                   f'the configuration is advanced to {show(effects["config"][1][2])}, not to the right-hand side of the instantiated rule', where)
        if 'proof' in effects:
            pv = effects['proof'][1][2][0] if effects['proof'][1][2] else None
            want = ('call', ('attr', SELF, 'dynamic_inst'),
                    (('call', ('attr', SELF, 'load_axiom'), (('attr', ('param', 'rule'), 'pattern'),), ()), ('param', 'substitution')), ())
            def positional(v):
                # self.m(k=..) with the keyword arguments put in the order of m's parameters (m looked up along the class's bases)
                if not isinstance(v, tuple):
                    return v
                v = tuple(positional(x) for x in v)
                if len(v) == 4 and v[0] == 'call' and isinstance(v[1], tuple) and v[1][:2] == ('attr', SELF) and v[3]:
                    m_ = next((k_.methods[v[1][2]] for k_ in py.mro(ci) if v[1][2] in k_.methods), None)
                    if m_ is not None:
                        names = [a.arg for a in m_.args.args[1:]][len(v[2]):]
                        kw = dict(v[3])
                        if len(kw) == len(v[3]) and set(kw) == set(names[:len(kw)]):
                            return ('call', v[1], tuple(v[2]) + tuple(kw[n_] for n_ in names[:len(kw)]), ())
                return v
            pv = positional(pv) if pv else pv
            ctx.ob('rewrite-typestate', f'proof-is-instantiated-axiom/path{i}', pv == want,
                   f'the proof registered is {show(pv) if pv else None}; expected the rule axiom instantiated with the same substitution', where)
    # the rule whose axiom the proof loads is declared as an axiom of the module in the same step (load_axiom refuses undeclared
    # ones - and the claim could not be proved from another module's axioms): on every returning path `add_axiom(rule.pattern)` is
    # reached (directly or through the assumptions helper) before the proof is registered
    RULE_AX = ('attr', ('param', 'rule'), 'pattern')
    full = PyEval(resolver=lambda call, env, _ev: (
        (ci.methods[call.func.attr], SELF) if isinstance(call.func, ast.Attribute) and isinstance(call.func.value, ast.Name)
        and env.get(call.func.value.id) == SELF and call.func.attr in KEEP and call.func.attr in ci.methods else resolver(call, env, _ev)))
    for i, p in enumerate([q for q in full.paths(fn) if q.end[0] == 'return']):
        order = [(k, e.value) for k, e in enumerate(p.events) if e.kind == 'ecall' and e.value[1][0] == 'attr' and e.value[1][1] == SELF]
        decl = [k for k, v in order if v[1][2] == 'add_axiom' and tuple(v[2]) == (RULE_AX,)]
        reg = [k for k, v in order if v[1][2] == 'add_proof_expression']
        ctx.ob('rewrite-typestate', f'rule-axiom-declared/path{i}', bool(decl) and bool(reg) and min(decl) < min(reg),
               'the rewrite rule whose axiom the step loads must be added to the module (`add_axiom(rule.pattern)`) before the proof is '
               'registered', where)
    # every hint of the trace becomes one step, in order: the loop over the hints calls rewrite_event(hint.axiom, hint.substitutions)
    # exactly once on every path that does not raise, on the ONE proof expression created from the first hint's configuration
    fh = ci.methods.get('from_proof_hints')
    if fh is not None:
        from ..core import astpaths as AP
        loops = [x for x in fh.body if isinstance(x, ast.For) and isinstance(x.target, ast.Name)]
        ok_fh, why_fh = len(loops) == 1, 'the loop over the hints was not found'
        if ok_fh:
            h = loops[0].target.id
            for sp in AP.paths(loops[0].body):
                if sp.end == 'raise':
                    continue
                calls = [c for a in sp.actions for c in ast.walk(a) if isinstance(c, ast.Call) and isinstance(c.func, ast.Attribute)
                         and c.func.attr == 'rewrite_event']
                if len(calls) != 1 or by_name(calls[0], ci.methods.get('rewrite_event')) != [f'{h}.axiom', f'{h}.substitutions']:
                    ok_fh, why_fh = False, 'a hint is passed over (or replayed with other arguments than its own rule and substitution)'
                makes = [a for a in sp.actions if isinstance(a, (ast.Assign, ast.AnnAssign)) and a.value is not None and isinstance(a.value, ast.Call)
                         and ast.unparse(a.value.func) == ci.name]
                first = sp.holds(f'{ast.unparse(calls[0].func.value)} is None') if calls else None
                if makes and (first is not True or (by_name(makes[0].value, ci.methods.get('__init__')) or [None])[1:] != [f'{h}.configuration_before']):
                    ok_fh, why_fh = False, 'the proof expression is re-created after the first hint, or not started at the first hint\'s configuration'
                if not makes and first is True:
                    ok_fh, why_fh = False, 'no proof expression is created for the first hint'
        ctx.ob('rewrite-typestate', 'every-hint-becomes-a-step', ok_fh,
               f'from_proof_hints: {why_fh} - the module must claim the instantiated rewrite of EVERY step of the trace, in order, starting '
               f'from the first configuration', py.where(EXE, fh))
    # the configuration field is written only in __init__ and rewrite_event
    writers = set()
    for mname, mi in py.modules.items():
        for node in ast.walk(mi.tree):
            if isinstance(node, (ast.Assign, ast.AugAssign, ast.AnnAssign)):
                tg = node.targets if isinstance(node, ast.Assign) else [node.target]
                for t in tg:
                    if isinstance(t, ast.Attribute) and t.attr == '_curr_config':
                        writers.add((mname, _encl(mi.tree, node)))
    ctx.ob('rewrite-typestate', 'configuration-single-writer', writers <= {(EXE, '__init__'), (EXE, 'rewrite_event')},
           f'_curr_config is written in {sorted(writers)}', py.where(EXE, ci.node))


def _encl(tree, node) -> str:
    from ..core.pyfacts import enclosing_def
    f_ = enclosing_def(tree, node)
    return f_.name if f_ is not None else '<module>'


def conversion_scope(ctx, py: PyRepo):
    ci = py.cls('ConvertionScope', SEM)
    where = py.where(SEM, ci.node)
    tables = {}
    init = ci.methods.get('__init__')
    for n in ast.walk(init):
        if isinstance(n, ast.AnnAssign) and isinstance(n.target, ast.Attribute) and ast.unparse(n.annotation).startswith('dict['):
            tables[n.target.attr] = n
    # one object handed out under several keys: `dict.fromkeys(keys, {})` / `[[]] * n` store the SAME mutable table everywhere, so
    # the name spaces the allocators keep apart (element / set / sort / pattern variables) become one
    shared = [n for n in ast.walk(ci.node) if isinstance(n, ast.Call) and isinstance(n.func, ast.Attribute) and n.func.attr == 'fromkeys'
              and len(n.args) == 2 and isinstance(n.args[1], (ast.Dict, ast.List, ast.Set, ast.Call))
              and not (isinstance(n.args[1], ast.Call) and ast.unparse(n.args[1].func) in ('int', 'str', 'tuple', 'frozenset', 'bool', 'float'))]
    shared += [n for n in ast.walk(ci.node) if isinstance(n, ast.BinOp) and isinstance(n.op, ast.Mult) and isinstance(n.left, ast.List)
               and any(isinstance(x, (ast.Dict, ast.List, ast.Set)) for x in n.left.elts)]
    ctx.ob('scope-allocator', 'tables-are-distinct-objects', not shared,
           'ConvertionScope builds its variable tables with `' + (ast.unparse(shared[0])[:70] if shared else '') + '`: every key gets the '
           'same mutable table, so two kinds of variable with the same name share one metavariable', py.where(SEM, shared[0]) if shared else where)
    ctx.require(len(tables) >= 3, f'ConvertionScope: expected the variable tables, found {sorted(tables)}')
    bases = {}
    for mname, fn in ci.methods.items():
        if not mname.startswith('resolve_'):
            continue
        # every returning path hands out the table entry of `name`, allocating K(<base +> len(T)) only when the name is new:
        #   if name not in T: T[name] = K(..) ; return T[name]        or        return T.setdefault(name, K(..))
        NAME = ('param', fn.args.args[1].arg) if len(fn.args.args) > 1 else None
        ok, tab = NAME is not None, None
        allocs = set()

        def alloc_of(v, T):
            """K(name=<base +> len(T)) -> (K, base text) else None"""
            if not (v[0] == 'call' and v[1][0] == 'name'):
                return None
            args = list(v[2]) + [kv[1] for kv in v[3]]
            if len(args) != 1:
                return None
            ln = ('call', ('name', 'len'), (T,), ())
            if args[0] == ln:
                return (v[1][1], 0)
            if args[0][0] == 'binop' and args[0][1] == 'Add' and ln in (args[0][2], args[0][3]):
                other = args[0][3] if args[0][2] == ln else args[0][2]
                return (v[1][1], show(other))
            return None
        from ..core.pyfacts import self_method_resolver
        rets = [p for p in PyEval(resolver=self_method_resolver(py, ci, SELF, only_private=True)).paths(fn) if p.end[0] == 'return'] if ok else []
        ok = ok and bool(rets)
        for p in rets:
            rv = p.end[1]
            if rv[0] == 'call' and rv[1][0] == 'attr' and rv[1][2] == 'setdefault' and len(rv[2]) == 2 and rv[2][0] == NAME:
                T = rv[1][1]
                al = alloc_of(rv[2][1], T)
                if al is None:
                    ok = False
                else:
                    allocs.add((al, T))
            elif rv[0] == 'sub' and rv[2] == NAME:
                T = rv[1]
                known = [b for c, b in p.conds if c == ('cmp', 'in', NAME, T)]
                sets = [e.value for e in p.events if e.kind == 'setitem' and e.value[0] == T]
                if known == [True] and not sets:
                    pass
                elif known == [False] and len(sets) == 1 and sets[0][1] == NAME and alloc_of(sets[0][2], T) is not None:
                    allocs.add((alloc_of(sets[0][2], T), T))
                else:
                    ok = False
            else:
                ok = False
        if ok and len(allocs) == 1:
            (ctor, base), T = next(iter(allocs))
            tab = show(T)
            bases[mname] = (ctor, base, tab)
        else:
            ok = False
        ctx.ob('scope-allocator', f'ConvertionScope.{mname}', ok,
               f'{mname} must allocate len(table) (plus a constant base) only under a `name not in table` guard and return the table entry: '
               f'equal names get equal variables, distinct names distinct ones', py.where(SEM, fn))
    # two allocators that build the same kind of variable must not collide: different tables of the same constructor need disjoint bases
    by_ctor = {}
    for m, (ctor, base, tab) in bases.items():
        by_ctor.setdefault(ctor, []).append((m, base, tab))
    for ctor, lst in by_ctor.items():
        if len(lst) > 1:
            distinct = len({str(b) for _m, b, _t in lst}) == len(lst)
            ctx.ob('scope-allocator', f'disjoint-ranges/{ctor}', distinct,
                   f'{[m for m, _b, _t in lst]} allocate {ctor} ids from separate tables with the same base: variables of the two kinds collide',
                   where, facts={'bases': [(m, str(b)) for m, b, _t in lst]})
    # nothing deletes from the tables
    deleters = []
    for mname, fn in ci.methods.items():
        for n in ast.walk(fn):
            if isinstance(n, ast.Delete) or (isinstance(n, ast.Call) and isinstance(n.func, ast.Attribute) and n.func.attr in ('pop', 'clear', 'popitem')
                                             and any(t in ast.unparse(n.func.value) for t in tables)):
                deleters.append(mname)
    ctx.ob('scope-allocator', 'tables-never-shrink', not deleters, f'{sorted(set(deleters))} remove entries from the variable tables', where)
    # each axiom: a fresh scope, used for the conversion, cached under that axiom's ordinal
    sem = py.cls('LanguageSemantics', SEM)
    n_sites = 0
    for mname, fn in sem.methods.items():
        body_nodes = list(ast.walk(fn))
        stores = [n for n in body_nodes if isinstance(n, ast.Assign) and isinstance(n.targets[0], ast.Subscript)
                  and '_cached_axiom_scopes' in ast.unparse(n.targets[0].value)]
        for st in stores:
            n_sites += 1
            var = ast.unparse(st.value)
            key = ast.unparse(st.targets[0].slice)
            # find the nearest preceding `var = ConvertionScope()` and `x = ..._convert_pattern(var, ...)` and `ax = module.*(x)` with key ax.ordinal
            # the bindings that reach the store: the assignments before it in its own block (another branch's bindings do not)
            blk_ = next((getattr(h, f_) for h in body_nodes for f_ in ('body', 'orelse', 'finalbody')
                         if isinstance(getattr(h, f_, None), list) and any(x is st for x in getattr(h, f_))), [])
            prev = [n for n in blk_[:next((i for i, x in enumerate(blk_) if x is st), 0)] if isinstance(n, ast.Assign)]
            fresh = any(isinstance(n.targets[0], ast.Name) and n.targets[0].id == var and isinstance(n.value, ast.Call)
                        and ast.unparse(n.value.func) == 'ConvertionScope' for n in prev)
            conv = [n for n in prev if isinstance(n.value, ast.Call) and ast.unparse(n.value.func).endswith('_convert_pattern')
                    and n.value.args and ast.unparse(n.value.args[0]) == var]
            pat_var = ast.unparse(conv[-1].targets[0]) if conv else None
            if not fresh and not conv:
                # the two steps in one helper method: `scope, pattern = <semantics>._m(src)` where _m makes a fresh scope, converts its
                # argument in it and hands both back
                for n in prev:
                    tg = n.targets[0]
                    if isinstance(tg, ast.Tuple) and len(tg.elts) == 2 and all(isinstance(t, ast.Name) for t in tg.elts) and isinstance(n.value, ast.Call) \
                            and isinstance(n.value.func, ast.Attribute) and n.value.func.attr in sem.methods and var in [t.id for t in tg.elts]:
                        summ = fresh_scope_converter(sem.methods[n.value.func.attr])
                        if summ is not None and tg.elts[summ[0]].id == var:
                            fresh, conv, pat_var = True, [n], tg.elts[summ[1]].id
            keyed = False
            if conv and key.endswith('.ordinal'):
                axv = key[:-len('.ordinal')]
                keyed = any(isinstance(n.targets[0], ast.Name) and n.targets[0].id == axv and isinstance(n.value, ast.Call)
                            and n.value.args and ast.unparse(n.value.args[0]) == pat_var for n in prev)
            if fresh and not conv and key.endswith('.ordinal'):
                # the conversion written inside the registration, possibly in the arms of an if / else between the fresh scope and the
                # store: every binding of the axiom that reaches the store is `<module>.<register>(<..>._convert_pattern(scope, ..))`
                axv = key[:-len('.ordinal')]
                idx_ = next((i for i, x in enumerate(blk_) if x is st), 0)

                def reaching(stmts):
                    """the bindings of axv by the last statement of `stmts` that binds it; None when some path binds it otherwise"""
                    for x in reversed(stmts):
                        if isinstance(x, ast.Assign) and len(x.targets) == 1 and isinstance(x.targets[0], ast.Name) and x.targets[0].id == axv:
                            return [x]
                        if isinstance(x, ast.AnnAssign) and x.value is None:
                            continue
                        if isinstance(x, ast.If) and any(isinstance(y, ast.Name) and y.id == axv and isinstance(y.ctx, ast.Store) for y in ast.walk(x)):
                            a, b = reaching(x.body), reaching(x.orelse)
                            return None if a is None or b is None or not a or not b else a + b
                        if any(isinstance(y, ast.Name) and y.id == axv and isinstance(y.ctx, ast.Store) for y in ast.walk(x)):
                            return None
                    return []
                binds_ = reaching(blk_[:idx_])

                def registers_conversion(a):
                    c0 = a.value
                    if not (isinstance(c0, ast.Call) and isinstance(c0.func, ast.Attribute) and len(c0.args) == 1):
                        return False
                    arg = c0.args[0]
                    return isinstance(arg, ast.Call) and ast.unparse(arg.func).endswith('_convert_pattern') and arg.args and ast.unparse(arg.args[0]) == var
                if binds_ and all(registers_conversion(a) for a in binds_):
                    made = [i for i, n in enumerate(blk_[:idx_]) if isinstance(n, ast.Assign) and isinstance(n.targets[0], ast.Name) and n.targets[0].id == var]
                    conv, keyed = binds_, bool(made)
            ctx.ob('scope-per-axiom', f'{mname}@{key}', fresh and bool(conv) and keyed,
                   f'the scope cached under {key} must be a fresh ConvertionScope that was used to convert exactly that axiom '
                   f'(fresh={fresh}, used-for-conversion={bool(conv)}, keyed-by-that-axiom={keyed})', py.where(SEM, st))
    ctx.analysed['scope caching sites'] = n_sites
    # convert_substitutions: cached scope of the same ordinal, lookup (not resolve) for the keys
    fn = sem.methods.get('convert_substitutions')
    ctx.require(fn is not None, 'anchor vanished: LanguageSemantics.convert_substitutions')
    from .c16 import inline_locals
    ordinal = fn.args.args[2].arg
    SCOPE = f'self._cached_axiom_scopes[{ordinal}]'

    def resolved(e):
        return ast.unparse(inline_locals(fn.body, e, keep={a.arg for a in fn.args.args}))
    calls = [n for n in ast.walk(fn) if isinstance(n, ast.Call) and isinstance(n.func, ast.Attribute)]
    convs = [c for c in calls if c.func.attr.endswith('_convert_pattern')]
    lookups = [c for c in calls if c.func.attr == 'lookup_metavar']
    allocating = [c for c in calls if c.func.attr.startswith('resolve_')]
    # the scope used is the cached scope of the same axiom ordinal, for the keys and for the values
    ok_scope = bool(lookups) and all(resolved(c.func.value) == SCOPE for c in lookups)
    uses_lookup = bool(lookups) and not allocating
    same_scope = bool(convs) and all(c.args and resolved(c.args[0]) == SCOPE for c in convs)
    ctx.ob('scope-per-axiom', 'convert_substitutions', ok_scope and uses_lookup and same_scope,
           f'convert_substitutions must take the cached scope of the same axiom ordinal ({ok_scope}), look the substituted variables up '
           f'without allocating ({uses_lookup}) and convert the values in that scope ({same_scope})', py.where(SEM, fn))


def fresh_substitution(ctx, py: PyRepo):
    """the map convert_substitutions returns is kept by the proof thunk of its step until the whole trace has been consumed
    (dynamic_inst reads it when the proof is interpreted); it must be an object allocated by that very call, otherwise the next
    step's conversion overwrites the plugs of this one"""
    sem = py.cls('LanguageSemantics', SEM)
    fn = sem.methods.get('convert_substitutions')
    ctx.require(fn is not None, 'anchor vanished: LanguageSemantics.convert_substitutions')
    from .c16 import returned_exprs
    rets = returned_exprs(fn)
    params = {a.arg for a in fn.args.args + fn.args.kwonlyargs}
    ok, why = bool(rets), 'no return'
    for _r, v in rets:
        if isinstance(v, (ast.Dict, ast.DictComp)) or (isinstance(v, ast.Call) and ast.unparse(v.func) in ('dict', 'frozendict')):
            continue
        if isinstance(v, ast.Name):
            if v.id in params:
                ok, why = False, f'it returns its parameter `{v.id}` (with a default that is one object shared by every call)'
                continue
            allocs = [a for a in ast.walk(fn) if isinstance(a, (ast.Assign, ast.AnnAssign))
                      and ast.unparse(a.targets[0] if isinstance(a, ast.Assign) else a.target) == v.id and a.value is not None]
            fresh = allocs and all(isinstance(a.value, (ast.Dict, ast.DictComp)) or (isinstance(a.value, ast.Call)
                                   and ast.unparse(a.value.func) in ('dict', 'frozendict')) for a in allocs)
            if not fresh:
                ok, why = False, f'`{v.id}` is not a map created inside the call'
            continue
        ok, why = False, f'it returns `{ast.unparse(v)[:60]}`'
    ctx.ob('scope-per-axiom', 'convert_substitutions/fresh-map', ok,
           f'convert_substitutions must return a map allocated by that call: {why}; the proof of each step keeps its map until the proof is '
           f'interpreted, so a shared object makes earlier steps use the last step\'s plugs', py.where(SEM, fn))


def name_wrapping(ctx, py: PyRepo):
    """Kore names are wrapped into matching-logic symbols by prefixing (`'ksym_' + name`) and recovered when a substituted term is
    resolved back to its K symbol (functional axioms of a step).  The recovery must be the inverse of the prefixing for EVERY name:
    cut exactly the prefix (removeprefix / a slice of its length) under a startswith guard.  `str.lstrip(prefix)` strips a character
    SET and mangles every name that begins with one of the prefix's letters."""
    mi = py.module(SEM)
    n = 0
    for c in mi.classes.values():
        wrap, unwrap = c.methods.get('aml_symbol'), c.methods.get('unwrap_kore_name')
        if wrap is None or unwrap is None:
            continue
        pre = None
        for x in ast.walk(wrap):
            if isinstance(x, ast.BinOp) and isinstance(x.op, ast.Add) and isinstance(x.left, ast.Constant) and isinstance(x.left.value, str) \
                    and ast.unparse(x.right) == 'self.name':
                pre = x.left.value
        ctx.require(pre is not None, f'{c.name}.aml_symbol: prefixing idiom not recognised')
        n += 1
        where = py.where(SEM, unwrap)
        from .c16 import returned_exprs
        rets = [v for _st, v in returned_exprs(unwrap) if not (isinstance(v, ast.Constant) and v.value is None)]
        ok, why = bool(rets), 'no value returned'
        for v in rets:
            good = False
            if isinstance(v, ast.Call) and isinstance(v.func, ast.Attribute) and v.func.attr == 'removeprefix' and len(v.args) == 1 \
                    and isinstance(v.args[0], ast.Constant) and v.args[0].value == pre:
                good = True
            if isinstance(v, ast.Subscript) and isinstance(v.slice, ast.Slice) and v.slice.upper is None and v.slice.lower is not None \
                    and ast.unparse(v.slice.lower) in (str(len(pre)), f'len({pre!r})'):
                good = True
            if not good:
                ok = False
                why = (f'it returns `{ast.unparse(v)[:70]}`' + (': str.lstrip / strip remove any leading characters from the SET '
                       f'{sorted(set(pre))}, so a name such as `succ` or `map` loses letters' if isinstance(v, ast.Call) and isinstance(v.func, ast.Attribute)
                       and v.func.attr in ('lstrip', 'strip') else ''))
        guard = any(isinstance(x, ast.Call) and isinstance(x.func, ast.Attribute) and x.func.attr == 'startswith' and x.args
                    and isinstance(x.args[0], ast.Constant) and x.args[0].value == pre for x in ast.walk(unwrap))
        ctx.ob('name-wrapping', f'{c.name}.unwrap_kore_name', ok and guard,
               f'{c.name}.unwrap_kore_name must undo `{pre!r} + name` exactly: ' + (why if not ok else 'no startswith guard for the prefix')
               + '; a mangled name resolves to no (or another) K symbol and a correctly chained trace is refused', where, facts={'prefix': pre})
    ctx.floor('name-wrapping', 1)


def trace_pairs(ctx, py: PyRepo):
    """the execution trace is a sequence of events and configurations in which a rule application is a rule event immediately
    followed by the configuration it produced - at any position (side-condition, hook and function events shift the parity).  The
    loop that turns the trace into rewrite steps must therefore look at EVERY adjacent pair (i, i+1); decided by evaluating the loop
    header over four abstract trace entries (core/iterspace.py)."""
    from ..core import iterspace as IS
    IS.set_k(9 if ctx.tier == 'thorough' else 4)
    from .c16 import inline_locals
    mod = 'k.kore_convertion.rewrite_steps'
    mi = py.modules.get(mod)
    ctx.require(mi is not None and 'get_proof_hints' in mi.functions, 'anchor vanished: rewrite_steps.get_proof_hints')
    fn = mi.functions['get_proof_hints']
    loops = [n for n in ast.walk(fn) if isinstance(n, ast.For) and any(
        isinstance(c, ast.Call) and isinstance(c.func, ast.Name) and c.func.id == 'isinstance' and len(c.args) == 2
        and ast.unparse(c.args[1]).endswith('LLVMRuleEvent') for c in ast.walk(n))]
    ctx.require(len(loops) == 1, 'get_proof_hints: the loop that picks the rule events out of the trace was not found')
    lp = loops[0]
    it = inline_locals(fn.body, lp.iter, {a.arg for a in fn.args.args})
    bases = sorted({ast.unparse(n) for n in ast.walk(it) if isinstance(n, ast.Attribute) and n.attr == 'trace'})
    ctx.require(len(bases) == 1, f'get_proof_hints: cannot tell which sequence `{ast.unparse(it)[:80]}` ranges over')
    try:
        seq = IS._seq(it, bases[0], {})
    except IS.Unsupported as e:
        ctx.require(False, f'get_proof_hints: loop header outside the evaluated subset: {e}')
    pairs = {tuple(int(x) for x in t) for t in seq if isinstance(t, tuple) and len(t) == 2 and all(isinstance(x, IS.Elem) for x in t)}
    want = {(i, i + 1) for i in range(IS.K - 1)}
    ctx.ob('rewrite-typestate', 'trace-adjacent-pairs', pairs == want and len(seq) == len(pairs),
           f'get_proof_hints walks the trace with `{ast.unparse(lp.iter)[:70]}`, which pairs the entries {sorted(pairs)} of a four-entry '
           f'trace; a rule event followed by its configuration can start at ANY position, so all adjacent pairs {sorted(want)} have to be '
           f'examined - otherwise rule applications are dropped silently and the module claims only part of the execution',
           py.where(mod, lp), facts={'pairs': sorted(pairs)})
    # each rule event followed by its configuration yields ONE hint that starts where the previous one ended: on the path on which
    # both class tests hold, the configuration before the step is what was the configuration after the previous one (bound BEFORE
    # the new one is converted), the configuration after it is the conversion of the second entry, the rule and the substitution
    # are those of the event, and the hint built from these four - bound to the constructor's parameters by name - is yielded once
    from ..core import astpaths as AP
    tnames = [x.id for x in ast.walk(lp.target) if isinstance(x, ast.Name)]
    ctx.require(len(tnames) == 2, 'get_proof_hints: the loop does not bind (event, next entry)')
    E1, E2 = tnames
    rs_cls = py.find_class('RewriteStepExpression', mod)
    cparams = [a.arg for a in rs_cls.methods['__init__'].args.args[1:]] if rs_cls is not None and '__init__' in rs_cls.methods else []
    probs = []
    hit = 0
    for sp in AP.paths(lp.body):
        yields_ = any(isinstance(x, ast.Yield) for a in sp.actions for x in ast.walk(a))
        if sp.end == 'raise' or sp.holds(f'isinstance({E1}, LLVMRuleEvent)') is not True \
                or (not yields_ and any(c_.startswith('isinstance(') and not b_ for c_, b_ in sp.conds)):
            continue                      # (a pair filtered out by a class test yields nothing: not a step)
        hit += 1
        if any(isinstance(x, ast.Yield) for a in sp.actions for x in ast.walk(a)) \
                and not any(b_ and re.fullmatch(rf'isinstance\({E2}, (\w+\.)*Pattern\)', c_) for c_, b_ in sp.conds):
            probs.append(f'a step is built from a rule event whatever follows it: the entry after the event must be a configuration '
                         f'(isinstance({E2}, kore.Pattern)) - a side-condition or function event would be converted as the next configuration')
        env = {}
        order = {}
        simultaneous = set()
        for k, a in enumerate(sp.actions):
            if isinstance(a, ast.Assign) and len(a.targets) == 1 and isinstance(a.targets[0], ast.Name):
                env[a.targets[0].id] = a.value
                order[a.targets[0].id] = k
            elif isinstance(a, ast.Assign) and len(a.targets) == 1 and isinstance(a.targets[0], ast.Tuple) and isinstance(a.value, ast.Tuple) \
                    and len(a.targets[0].elts) == len(a.value.elts) and all(isinstance(t, ast.Name) for t in a.targets[0].elts):
                for t, v in zip(a.targets[0].elts, a.value.elts):      # a, b = x, y: both right-hand sides see the old values
                    env[t.id] = v
                    order[t.id] = k
                simultaneous |= {t.id for t in a.targets[0].elts}
        ys = [x for a in sp.actions for x in ast.walk(a) if isinstance(x, ast.Yield)]
        if len(ys) != 1:
            probs.append(f'{len(ys)} hints are yielded for a rule event')
            continue
        hv = ys[0].value
        hv = env.get(hv.id, hv) if isinstance(hv, ast.Name) else hv
        if not (isinstance(hv, ast.Call) and isinstance(hv.func, ast.Name) and hv.func.id == 'RewriteStepExpression' and len(cparams) == 4):
            probs.append('what is yielded is not a RewriteStepExpression')
            continue
        bound = dict(zip(cparams, hv.args))
        bound.update({k_.arg: k_.value for k_ in hv.keywords})

        def val(e):
            e = env.get(e.id, e) if isinstance(e, ast.Name) else e
            import copy as _cp

            class A(ast.NodeTransformer):               # plain aliases inside the expression (`ordinal = event.rule_ordinal`)
                def visit_Name(self, n_):
                    v_ = env.get(n_.id)
                    return _cp.deepcopy(v_) if isinstance(v_, (ast.Attribute, ast.Name)) and isinstance(n_.ctx, ast.Load) else n_
            out = _cp.deepcopy(e)
            for _ in range(4):                           # aliases of aliases (`ordinal = ev.rule_ordinal`, `ev = event`)
                nxt = A().visit(_cp.deepcopy(out))
                if ast.unparse(nxt) == ast.unparse(out):
                    break
                out = nxt
            return ast.unparse(out)
        before, after = bound.get(cparams[0]), bound.get(cparams[1])
        b_txt, a_txt = val(before) if before is not None else '', val(after) if after is not None else ''
        # after: the conversion of the second entry of the pair
        if not re.fullmatch(rf'\w+\.convert_pattern\({E2}\)', a_txt):
            probs.append(f'the configuration after the step is `{a_txt[:50]}`, not the conversion of the entry that follows the event')
        # before: the variable that held the previous "after", copied before it was overwritten
        if not (isinstance(before, ast.Name) and isinstance(after, ast.Name) and ast.unparse(env.get(before.id, before)) == after.id
                and (order.get(before.id, 99) < order.get(after.id, -1)
                     or (order.get(before.id) == order.get(after.id) and {before.id, after.id} <= simultaneous))):
            probs.append(f'the configuration before the step is `{b_txt[:40]}`: it must be the configuration the previous step reached '
                         f'(`{after.id if isinstance(after, ast.Name) else "?"}` copied before it is overwritten)')
        if not re.fullmatch(rf'\w+\.get_axiom\({E1}\.rule_ordinal\)', val(bound.get(cparams[2], ast.Constant(None)))):
            probs.append('the rule of the hint is not the axiom of the event\'s rule ordinal')
        if not re.fullmatch(rf'\w+\.convert_substitutions\(dict\({E1}\.substitution\), {E1}\.rule_ordinal\)',
                            val(bound.get(cparams[3], ast.Constant(None)))):
            probs.append('the substitution of the hint is not the event\'s substitution converted in the scope of its rule')
    ctx.ob('rewrite-typestate', 'hint-chains-configurations', hit >= 1 and not probs,
           'get_proof_hints: ' + '; '.join(sorted(set(probs))) + ' - the generated module would claim steps that do not chain (or not the '
           'steps of the trace)', py.where(mod, lp))


def conversion_keeps_component_order(ctx, py: PyRepo):
    """The conversion of a Kore connective is the notation of the same name applied to the conversions of its components IN THE
    CONNECTIVE'S OWN ORDER (sorts first, then operands - `\\rewrites{S}(l, r)` becomes kore_rewrites(S', l', r')): in every arm
    `case kore.X(c1, .., cn)` of LanguageSemantics._convert_pattern that returns `<notation>(a1, .., am)`, each a_j is
    `_convert_sort(scope, c)` / `_convert_pattern(scope, c)` of a component c (or of `c[k]` for a component that is a sequence),
    the components appear in their order of capture (indices ascending), and every captured component is used.  Exchanging the
    two sides of a rewrite / implication / membership converts every rule to another one."""
    ci = py.find_class('LanguageSemantics', SEM)
    fn = ci.methods.get('_convert_pattern') if ci is not None else None
    ctx.require(fn is not None, 'anchor vanished: LanguageSemantics._convert_pattern')
    matches = [m for m in ast.walk(fn) if isinstance(m, ast.Match)]
    ctx.require(len(matches) >= 1, 'LanguageSemantics._convert_pattern: the dispatch over Kore connectives (match) was not found')
    n = 0
    for case in [c for m in matches for c in m.cases]:
        pat = case.pattern
        if not (isinstance(pat, ast.MatchClass) and pat.patterns and all(isinstance(x, ast.MatchAs) and x.pattern is None for x in pat.patterns)):
            continue
        caps = [x.name for x in pat.patterns]
        env = {a.targets[0].id if isinstance(a, ast.Assign) else a.target.id: a.value for a in case.body
               if isinstance(a, (ast.Assign, ast.AnnAssign)) and a.value is not None
               and isinstance(a.targets[0] if isinstance(a, ast.Assign) else a.target, ast.Name)}
        rets_all = [r for st in case.body for r in ast.walk(st) if isinstance(r, ast.Return) and r.value is not None]

        class _R:                              # `return <call>` or `result = <call>; return result`
            def __init__(self, r):
                self.value = env.get(r.value.id, r.value) if isinstance(r.value, ast.Name) else r.value
                self.lineno, self.col_offset = r.lineno, r.col_offset
        rets = [_R(r) for r in rets_all]
        rets = [r for r in rets if isinstance(r.value, ast.Call)]
        if len(rets) != 1 or len(rets_all) != 1 or any(isinstance(st, (ast.For, ast.While, ast.If, ast.Match)) for st in case.body):
            continue                          # arms with their own control flow (applications, variables ..) are not of this shape
        if not (isinstance(rets[0].value.func, ast.Attribute) and rets[0].value.func.attr.startswith('kore_')):
            continue                          # a binder builds its own notation from the variable's sort: another shape
        srcs = []
        ok = True
        for a in rets[0].value.args:
            v = env.get(a.id, a) if isinstance(a, ast.Name) else a
            if isinstance(v, ast.Call) and isinstance(v.func, ast.Attribute) and v.func.attr in ('_convert_sort', '_convert_pattern') and len(v.args) == 2:
                srcs.append(v.args[1])
            else:
                ok = False
        if not ok or not srcs:
            continue
        n += 1

        def key(e):
            if isinstance(e, ast.Name) and e.id in caps:
                return (caps.index(e.id), -1)
            if isinstance(e, ast.Subscript) and isinstance(e.value, ast.Name) and e.value.id in caps and isinstance(e.slice, ast.Constant):
                return (caps.index(e.value.id), e.slice.value)
            if isinstance(e, ast.Attribute) and isinstance(e.value, ast.Name) and e.value.id in caps:
                return (caps.index(e.value.id), -1)
            return None
        keys = [key(e) for e in srcs]
        used = {k[0] for k in keys if k is not None}
        unused = [c for i, c in enumerate(caps) if c is not None and c != '_' and i not in used]
        in_order = None not in keys and keys == sorted(keys) and len(set(keys)) == len(keys)
        cname = ast.unparse(pat.cls)
        ctx.ob('conversion-order', cname, in_order and not unused,
               f'{cname}({", ".join(str(c) for c in caps)}) is converted to {ast.unparse(rets[0].value.func)}('
               + ', '.join(ast.unparse(e) for e in srcs) + '): ' +
               ('the components are not taken in the connective\'s own order' if not in_order else f'the component(s) {unused} are dropped'),
               py.where(SEM, rets[0]))
    ctx.require(n >= 8, 'LanguageSemantics._convert_pattern: fewer than 8 arms of the shape `case kore.X(..): return <notation>(<conversions>)`')
    ctx.floor('conversion-order', 8)


def by_name(call, fdef):
    """the arguments of a method call as text in the order of the method's parameters (self dropped), keyword arguments put in
    their places; None when they cannot be matched (star arguments, unknown names)"""
    if fdef is None:
        return [ast.unparse(a) for a in call.args] if not call.keywords else None
    params = [a.arg for a in fdef.args.args[1:]]
    if any(isinstance(a, ast.Starred) for a in call.args) or any(k.arg is None for k in call.keywords) or len(call.args) > len(params):
        return None
    out = dict(zip(params, (ast.unparse(a) for a in call.args)))
    for k in call.keywords:
        if k.arg not in params or k.arg in out:
            return None
        out[k.arg] = ast.unparse(k.value)
    if set(out) != set(params[:len(out)]):
        return None
    return [out[p_] for p_ in params[:len(out)]]


def fresh_scope_converter(m):
    """a method `def _m(self, P): S = ConvertionScope(); return (S, self._convert_pattern(S, P))` (either order) -> (index of the scope,
    index of the converted pattern) in the returned pair; None for anything else"""
    params = [a.arg for a in m.args.args[1:]]
    rets = [r for r in ast.walk(m) if isinstance(r, ast.Return)]
    if len(params) != 1 or len(rets) != 1 or not (isinstance(rets[0].value, ast.Tuple) and len(rets[0].value.elts) == 2):
        return None
    env = {}
    for st in m.body:
        if isinstance(st, ast.Assign) and len(st.targets) == 1 and isinstance(st.targets[0], ast.Name):
            if st.targets[0].id in env:
                return None
            env[st.targets[0].id] = st.value
        elif isinstance(st, ast.Expr) and isinstance(st.value, ast.Constant) or st is rets[0]:
            continue
        else:
            return None

    def res(e):
        return env.get(e.id, e) if isinstance(e, ast.Name) else e
    a, b = rets[0].value.elts
    for i, (sc, cv) in enumerate(((a, b), (b, a))):
        if not isinstance(sc, ast.Name):
            continue
        made = env.get(sc.id)
        c = res(cv)
        if isinstance(made, ast.Call) and ast.unparse(made.func) == 'ConvertionScope' and not made.args and not made.keywords \
                and isinstance(c, ast.Call) and ast.unparse(c.func) == 'self._convert_pattern' and len(c.args) == 2 and not c.keywords \
                and isinstance(c.args[0], ast.Name) and c.args[0].id == sc.id and isinstance(c.args[1], ast.Name) and c.args[1].id == params[0] \
                and sum(1 for x in ast.walk(m) if isinstance(x, ast.Name) and x.id == sc.id and isinstance(x.ctx, ast.Load)) == 2:
            return (i, 1 - i)
    return None


def axiom_lookup_closure(ctx, py: PyRepo):
    """a step names its rule by ordinal; the rule may be declared in any module the main module imports, at any depth.
    KModule.get_axiom therefore searches its own table and EVERY transitively imported module: a loop over `self.modules` (the
    closure property - itself a loop over the direct imports that adds the module and the module's own closure), or a loop over the
    direct imports that asks each for the axiom recursively.  A loop over the direct imports that only looks into their own tables
    refuses a valid trace whose rule lives two imports down."""
    km = py.find_class('KModule', SEM)
    if km is None or 'get_axiom' not in km.methods:
        return
    fn = km.methods['get_axiom']
    where = py.where(SEM, fn)
    loops = [x for x in ast.walk(fn) if isinstance(x, (ast.For, ast.comprehension))]
    probs = []
    n = 0
    for lp in loops:
        it = ast.unparse(lp.iter)
        tgt = lp.target.id if isinstance(lp.target, ast.Name) else None
        body = lp.body if isinstance(lp, ast.For) else []
        if 'self.modules' in it:
            n += 1
            continue
        if '_imported_modules' in it:
            n += 1
            recursive = any(isinstance(c, ast.Call) and isinstance(c.func, ast.Attribute) and c.func.attr == 'get_axiom'
                            and isinstance(c.func.value, ast.Name) and c.func.value.id == tgt for b in body for c in ast.walk(b))
            if not recursive:
                probs.append(f'the loop over `{it[:50]}` looks only into the direct imports\' own tables')
    own = any(isinstance(x, ast.Attribute) and x.attr == '_axioms' and isinstance(x.value, ast.Name) and x.value.id == 'self' for x in ast.walk(fn)) \
        or any('self' in [e.id for e in ast.walk(lp.iter) if isinstance(e, ast.Name)] and isinstance(lp.iter, (ast.Tuple, ast.List)) for lp in loops)
    if not own:
        probs.append('the module\'s own axioms are not searched')
    if n == 0:
        probs.append('no loop over the imported modules was found')
    ctx.ob('rewrite-typestate', 'axiom-lookup-reaches-every-import', not probs,
           'KModule.get_axiom: ' + '; '.join(probs) + ' - a rule declared in a module imported through another module is not found and a '
           'valid, chaining trace is refused', where)
    # the closure property itself
    prop = km.methods.get('modules')
    if prop is not None:
        direct = [lp for lp in ast.walk(prop) if isinstance(lp, ast.For) and '_imported_modules' in ast.unparse(lp.iter) and isinstance(lp.target, ast.Name)]
        ok = False
        for lp in direct:
            t = lp.target.id
            adds_self = any(isinstance(c, ast.Call) and isinstance(c.func, ast.Attribute) and c.func.attr in ('append', 'add') and c.args
                            and isinstance(c.args[0], ast.Name) and c.args[0].id == t for c in ast.walk(lp))
            adds_rec = any(isinstance(c, ast.Call) and isinstance(c.func, ast.Attribute) and c.func.attr in ('extend', 'update') and c.args
                           and ast.unparse(c.args[0]) == f'{t}.modules' for c in ast.walk(lp))
            ok = ok or (adds_self and adds_rec)
        if not direct and '_imported_modules' in ast.unparse(prop):
            # written as comprehensions: some element must be the `modules` of an imported module (the recursion)
            comps = [g for g in ast.walk(prop) if isinstance(g, ast.comprehension) and '_imported_modules' in ast.unparse(g.iter) and isinstance(g.target, ast.Name)]
            ok = any(isinstance(x, ast.Attribute) and x.attr == 'modules' and isinstance(x.value, ast.Name) and x.value.id in {g.target.id for g in comps}
                     for x in ast.walk(prop))
            direct = comps or [prop]
        if direct:
            ctx.ob('rewrite-typestate', 'imports-are-transitive', ok,
                   'KModule.modules must contain every direct import and that import\'s own `modules` (the transitive closure the lookups '
                   'range over)', py.where(SEM, prop))


def ordinals_in_sentence_order(ctx, py: PyRepo):
    """the execution trace names a rule by its ordinal: the position of its axiom among ALL axiom sentences of the definition, in
    sentence order (the numbering the K backend uses).  from_kore_definition therefore takes one ordinal per axiom sentence inside
    the pass over the sentences - `rewrite_rule(..)` / `equational_rule(..)` for a rule, `next(<module>.counter)` for any other
    axiom - and nowhere else: rules registered in a later pass get the ordinals that are left over, every rule followed by another
    axiom is shifted, and a step either finds no rule or claims another rule's rewrite."""
    from ..core import astpaths as AP
    sem = py.find_class('LanguageSemantics', SEM)
    fn = sem.methods.get('from_kore_definition') if sem is not None else None
    if fn is None:
        return

    def taker(c):
        if isinstance(c, ast.Call) and isinstance(c.func, ast.Attribute) and c.func.attr in ('rewrite_rule', 'equational_rule'):
            return True
        return isinstance(c, ast.Call) and isinstance(c.func, ast.Name) and c.func.id == 'next' and len(c.args) == 1 \
            and isinstance(c.args[0], ast.Attribute) and c.args[0].attr == 'counter'
    loops = [lp for lp in ast.walk(fn) if isinstance(lp, ast.For) and isinstance(lp.target, ast.Name)
             and any(isinstance(t, ast.Call) and isinstance(t.func, ast.Name) and t.func.id == 'isinstance' and len(t.args) == 2
                     and isinstance(t.args[0], ast.Name) and t.args[0].id == lp.target.id and ast.unparse(t.args[1]).endswith('Axiom') for t in ast.walk(lp))]
    if len(loops) != 1:
        return
    lp = loops[0]
    S = lp.target.id
    inside = {id(x) for x in ast.walk(lp)}
    outside = [c for c in ast.walk(fn) if taker(c) and id(c) not in inside]
    probs = []
    if outside:
        probs.append(f'`{ast.unparse(outside[0])[:60]}` takes an ordinal outside the pass over the sentences')
    n = 0
    for sp in AP.paths(lp.body):
        if sp.end == 'raise':
            continue
        is_ax = next((b for c, b in sp.conds if re.fullmatch(rf'isinstance\({S}, (\w+\.)*Axiom\)', c)), None)
        k = sum(1 for a in sp.actions for c in ast.walk(a) if taker(c))
        if is_ax is True:
            n += 1
            if k != 1:
                probs.append(f'an axiom sentence takes {k} ordinals on the path under ' + ' and '.join(c for c, b in sp.conds if b)[:120])
        elif k:
            probs.append('a sentence that is not an axiom takes an ordinal')
    if n:
        ctx.ob('rewrite-typestate', 'ordinals-in-sentence-order', not probs,
               'from_kore_definition: ' + '; '.join(sorted(set(probs))) + ' - the ordinal a trace names no longer denotes the rule that was '
               'applied', py.where(SEM, lp))


def run(ctx):
    py = PyRepo.get()
    rewrite_event(ctx, py)
    axiom_lookup_closure(ctx, py)
    ordinals_in_sentence_order(ctx, py)
    conversion_keeps_component_order(ctx, py)
    trace_pairs(ctx, py)
    conversion_scope(ctx, py)
    fresh_substitution(ctx, py)
    name_wrapping(ctx, py)
    # the proof of a step is `dynamic_inst(load_axiom(rule), substitution)`: the module is accepted only if Instantiate, Load and the
    # publishes are written the way the checker reads them (rows shared with C02), in particular the pairing of ids and plugs for a
    # substitution whose keys are not in ascending order (the order of the LLVM hint)
    from ..core import machine as M
    from ..core.rustfacts import Rust
    from ..core.wiring import Wiring
    from . import c02, c05
    r = Rust.get()
    w = Wiring(py)
    arms = M.rust_arms(r)
    ops, dec = c02.py_opcodes(py), c05.decode_table(r)
    for meth in ('instantiate', 'load', 'publish_axiom', 'publish_claim', 'publish_proof'):
        c02.method_row(ctx, w, meth, arms, ops, dec)
    ctx.floor('rewrite-typestate', 9)
    ctx.floor('scope-allocator', 4)
    ctx.floor('scope-per-axiom', 3)
    ctx.explanation = (
        'State machine of ExecutionProofExp.rewrite_event: the rule is instantiated with the step\'s substitution and destructured as a '
        'rewrite; claim registration, proof registration and the configuration update all follow the raising check that the left-hand side '
        'equals the current configuration; the claim is that instantiated rule, the next configuration its right-hand side, the proof the '
        'rule axiom instantiated with the same substitution; only __init__ and rewrite_event write the configuration. ConvertionScope '
        'allocates len(table) (+ constant base, disjoint per table of the same constructor) under a not-in guard and never shrinks, so equal '
        'names get equal variables and distinct names distinct ones; each axiom is converted in a fresh scope cached under its own ordinal '
        'and substitutions are converted in that scope by lookup. The K modules need pyk.kore and cannot be imported here; the analysis is '
        'syntactic. Commutation of conversion with substitution and checker acceptance are not decided.')
    ctx.assumptions = ['python ast', 'Notation.assert_matches returns the arguments of the matched notation in order (C13)']
