"""C03 - the published theory and claims are exactly what was declared (structural clauses)."""
from __future__ import annotations

import ast

from ..core import pymachine as PM
from ..core.pyeval import PyEval, show
from ..core.pyfacts import PyRepo
from ..core.wiring import Wiring

LEVEL = 'other'
SELF = ('param', 'self')

# who may call publish_*: (module, enclosing function) -> reason.  `super()` and `sub_interpreter` forwarding inside the
# same-named method of an interpreter class is the override chain (checked separately).
MAY_PUBLISH = {
    'publish_axiom': {('proof', 'execute_gamma_phase'): 'the declared axioms, once each',
                      ('metamath.converter.converter', 'publish_axioms'): 'unused helper of the converter (same loop over its axioms)',
                      },
    'publish_claim': {('proof', 'execute_claims_phase'): 'the declared claims, once each',
                      ('deserialize', 'deserialize_instructions'): 'replay of a serialized stream'},
    'publish_proof': {('proof', 'publish_proof'): 'ProofExp.publish_proof (its thunk)',
                      ('proof', 'execute_proofs_phase'): 'through ProofExp.publish_proof',
                      ('metamath.translate', 'exec_proof'): 'the translated target proof'},
}


def _only_called_from(mi, fn: str, allowed: set, _seen=None) -> bool:
    """`fn` is a helper of the module whose every call site (by name) lies in an allowed function or in such a helper: code moved
    out of an allowed function keeps its licence, a new caller elsewhere does not get one"""
    if not allowed:
        return False
    _seen = (_seen or set()) | {fn}
    callers = set()
    for node in ast.walk(mi.tree):
        if isinstance(node, ast.Call):
            name = node.func.id if isinstance(node.func, ast.Name) else (node.func.attr if isinstance(node.func, ast.Attribute) else None)
            if name == fn:
                callers.add(enclosing(mi.tree, node))
    if not callers:
        return False
    return all(c in allowed or (c not in _seen and c != '<module>' and _only_called_from(mi, c, allowed, _seen)) for c in callers)


def enclosing(tree, node) -> str:
    # the function a call site belongs to is the outermost one it is written in: a nested closure has no licence of its own
    from ..core.pyfacts import enclosing_top
    f_ = enclosing_top(tree, node)
    return f_.name if f_ is not None else '<module>'


def who_may_publish(ctx, py: PyRepo):
    n = 0
    for mname, mi in py.modules.items():
        for node in ast.walk(mi.tree):
            if isinstance(node, ast.Call) and isinstance(node.func, ast.Attribute) and node.func.attr in MAY_PUBLISH:
                meth = node.func.attr
                fn = enclosing(mi.tree, node)
                recv = ast.unparse(node.func.value)
                n += 1
                if fn == meth and recv in ('super()', 'self.sub_interpreter'):
                    continue          # override / forwarding chain
                ok = (mname, fn) in MAY_PUBLISH[meth] or _only_called_from(mi, fn, {f for m, f in MAY_PUBLISH[meth] if m == mname})
                ctx.ob('who-may-publish', f'{meth}@{mname}.{fn}', ok,
                       f'{mname}.{fn} calls {meth}: only {sorted(f"{m}.{f}" for m, f in MAY_PUBLISH[meth])} may publish', py.where(mname, node),
                       facts={'receiver': recv})
    ctx.analysed['publish call sites'] = n


def theory_generator(ci, gname):
    """the other spelling of "imported modules first, recursively, then the own axioms": a generator method G of ProofExp,
         for sub in self._submodules: yield from sub.G()
         yield from self._axioms            (or: for a in self._axioms: yield a)
    -> 'ok'; 'shallow' when what is taken from an imported module is not its own G() (its `get_axioms()` / `_axioms` are that module's
    OWN axioms: the imports of the import are lost); None when G is not of this shape."""
    g = ci.methods.get(gname)
    if g is None or len(g.args.args) != 1:
        return None
    body = [x for x in g.body if not (isinstance(x, ast.Expr) and isinstance(x.value, ast.Constant))]
    if len(body) != 2 or not isinstance(body[0], ast.For) or ast.unparse(body[0].iter) != 'self._submodules' or not isinstance(body[0].target, ast.Name) \
            or body[0].orelse or len(body[0].body) != 1:
        return None
    own = body[1]
    own_ok = (isinstance(own, ast.Expr) and isinstance(own.value, ast.YieldFrom) and ast.unparse(own.value.value) == 'self._axioms') or \
        (isinstance(own, ast.For) and ast.unparse(own.iter) == 'self._axioms' and isinstance(own.target, ast.Name) and len(own.body) == 1 and not own.orelse
         and isinstance(own.body[0], ast.Expr) and isinstance(own.body[0].value, ast.Yield) and isinstance(own.body[0].value.value, ast.Name)
         and own.body[0].value.value.id == own.target.id)
    if not own_ok:
        return None
    inner = body[0].body[0]
    v = body[0].target.id
    if isinstance(inner, ast.Expr) and isinstance(inner.value, ast.YieldFrom):
        src = inner.value.value
        if isinstance(src, ast.Call) and isinstance(src.func, ast.Attribute) and isinstance(src.func.value, ast.Name) and src.func.value.id == v \
                and src.func.attr == gname and not src.args and not src.keywords:
            return 'ok'
        if any(isinstance(x, ast.Name) and x.id == v for x in ast.walk(src)):
            return 'shallow'
    return None


def loop_shape(ctx, py: PyRepo):
    from ..core.pyfacts import self_method_resolver
    # private helpers of ProofExp (a phase split into named parts) are evaluated in place: their loops are the phase's loops
    ev = PyEval(resolver=self_method_resolver(py, py.cls('ProofExp'), SELF, only_private=True))
    gamma_generator = [None]
    spec = {'execute_gamma_phase': ('publish_axiom', ('attr', SELF, '_axioms'), False),
            'execute_claims_phase': ('publish_claim', ('attr', SELF, '_claims'), True)}
    for meth, (pub, source, rev) in spec.items():
        fn = py.method('ProofExp', meth)
        where = py.where('proof', fn)
        loops = []
        for p in ev.paths(fn):
            if p.end[0] == 'raise':
                continue
            for e in p.events:
                if e.kind == 'loop' and e.value[0] == 'for':
                    loops.append(e)
            break
        pubs = []
        for e in loops:
            for bp in e.extra:
                for x in bp.events:
                    if x.kind == 'ecall' and x.value[1] == ('attr', ('param', 'interpreter'), pub):
                        pubs.append((e, x.value))
        ok = len(pubs) == 1
        detail = f'{meth} has {len(pubs)} loops that publish'
        if ok:
            e, call = pubs[0]
            it = e.value[2]
            want_it = ('call', ('name', 'reversed'), (source,), ()) if rev else source
            var = e.value[1]
            want_arg = ('call', ('attr', ('param', 'interpreter'), 'pattern'), (('elem', it),), ())
            tg = None
            if meth == 'execute_gamma_phase' and it[0] == 'call' and it[1][0] == 'attr' and it[1][1] == SELF and not it[2] and not it[3]:
                tg = theory_generator(py.cls('ProofExp'), it[1][2])
                gamma_generator[0] = (it[1][2], tg)
            if tg is not None:
                pass                                                   # judged under `submodules` below; the own axioms come last, in order
            elif it != want_it:
                ok, detail = False, (f'{meth} iterates {show(it)} instead of {show(want_it)}: a slice, filter, set or sorted view '
                                     f'publishes something other than the declared list in order')
            elif call[2] != (want_arg,):
                ok, detail = False, f'{meth} publishes {show(call[2][0]) if call[2] else None} instead of interpreter.pattern({var})'
        ctx.ob('publish-loop', meth, ok, detail, where)
    # submodules first, each through the same method
    fn = py.method('ProofExp', 'execute_gamma_phase')
    sub_ok = False
    SUBS = ('attr', SELF, '_submodules')
    for p in ev.paths(fn):
        if p.end[0] == 'raise':
            continue
        hit = False
        for e in p.events:
            if e.kind == 'loop' and e.value[0] == 'for' and e.value[2] == SUBS:
                for bp in e.extra:
                    for x in bp.events:
                        if x.kind == 'ecall' and x.value[1] == ('attr', ('elem', SUBS), 'execute_gamma_phase') and x.value[2] \
                                and x.value[2][0] == ('param', 'interpreter'):
                            hit = True
        sub_ok = hit
        if not hit:
            break
    if gamma_generator[0] is not None:
        gname_, verdict = gamma_generator[0]
        sub_ok = verdict == 'ok'
        if verdict == 'shallow':
            ctx.ob('publish-loop', 'submodules', False,
                   f'ProofExp.{gname_} takes from each imported module only that module\'s OWN axioms, not its {gname_}(): the axioms of the '
                   f'modules IT imports are declared (and needed by its proofs) but never published', py.where('proof', py.cls('ProofExp').methods[gname_]))
            sub_ok = None
    if sub_ok is not None:
      ctx.ob('publish-loop', 'submodules', sub_ok, 'execute_gamma_phase must publish the axioms of every imported module through the same interpreter',
           py.where('proof', fn))
    # the declared lists are only appended to (no removal / reordering after declaration)
    ci = py.cls('ProofExp')
    bad = []
    for mname, f in ci.methods.items():
        for n in ast.walk(f):
            if isinstance(n, ast.Call) and isinstance(n.func, ast.Attribute) and n.func.attr in ('remove', 'pop', 'clear', 'sort', 'reverse', 'insert') \
                    and ast.unparse(n.func.value) in ('self._axioms', 'self._claims'):
                bad.append(f'{mname}: {ast.unparse(n)}')
            if isinstance(n, ast.Delete) and any('_axioms' in ast.unparse(t) or '_claims' in ast.unparse(t) for t in n.targets):
                bad.append(f'{mname}: {ast.unparse(n)}')
    ctx.ob('publish-loop', 'declared-lists-append-only', not bad, '; '.join(bad), py.where('proof', ci.node))


PATTERN_CALLS = ('evar', 'svar', 'symbol', 'metavar', 'implies', 'app', 'exists', 'mu', 'esubst', 'ssubst', 'instantiate_pattern')


def optimisers_transparent(ctx, py: PyRepo):
    tr = py.cls('InterpreterTransformer')
    for ci in py.subclasses(tr):
        for meth in MAY_PUBLISH:
            ctx.ob('optimiser-transparent', f'{ci.name}.{meth}', meth not in ci.methods,
                   f'{ci.name} overrides {meth}: an optimiser must not change what is published', py.where(ci.module, ci.methods.get(meth) or ci.node))
    # the calls that build and publish patterns: an optimiser stack writes the same theory and claims only if the transformer base
    # forwards each of them to the SAME method of the wrapped interpreter, once, with the same arguments
    for meth in list(MAY_PUBLISH) + [m for m in PATTERN_CALLS if m not in MAY_PUBLISH]:
        mf = PM.level_facts(py, tr, meth)
        ok = mf is not None and all(len(rec['subcalls']) == 1 and rec['subcalls'][0][0] == meth
                                    and rec['subcalls'][0][1] == tuple(('param', p) for p in mf.params) for rec in mf.paths)
        ctx.ob('optimiser-transparent', f'InterpreterTransformer.{meth}', ok,
               f'{meth} must forward exactly once, to {meth} of the wrapped interpreter, with the same arguments'
               + ('' if mf is None else f' (it calls {[rec["subcalls"] and rec["subcalls"][0][0] for rec in mf.paths]})'),
               py.where(tr.module, tr.methods.get(meth) or tr.node))
    # MemoizingInterpreter.pattern returns its argument or the value of super().pattern(argument)
    ci = py.cls('MemoizingInterpreter')
    fn = ci.methods.get('pattern')
    ctx.require(fn is not None, 'anchor vanished: MemoizingInterpreter.pattern')
    from ..core.pyfacts import self_method_resolver as _smr
    ev = PyEval(resolver=_smr(py, ci, SELF, only_private=True))      # `_is_saved(p)` and the like are read in place
    P = ('param', fn.args.args[1].arg)
    ok = True
    rets = [p for p in ev.paths(fn) if p.end[0] == 'return']
    for p in rets:
        v = p.end[1]
        if v != P and v != ('call', ('attr', PM.SUPER, 'pattern'), (P,), ()):
            ok = False
        # whatever it emits besides, it is load/save of that very pattern
        for e in p.events:
            if e.kind == 'ecall' and e.value[1][0] == 'attr' and e.value[1][1] == SELF and e.value[1][2] in ('load', 'save'):
                if e.value[2][-1] != P:
                    ok = False
            if e.kind == 'ecall' and e.value[1][0] == 'attr' and e.value[1][1] == SELF and e.value[1][2].startswith('publish'):
                ok = False
        # the pattern gets onto the stack exactly once: either it is interpreted (the returned value is super().pattern(argument)), or
        # - when the argument itself is returned - it is loaded from memory, after a test that it is there
        loads = [e for e in p.events if e.kind == 'ecall' and e.value[1] == ('attr', SELF, 'load')]
        if v == P:
            def says_in_memory(c, arg):
                if c[0] == 'cmp' and c[1] == 'in' and c[2] == arg and c[3][0] == 'attr' and c[3][2] == 'memory':
                    return True
                if c[0] == 'boolop' and c[1] == 'and':
                    return any(says_in_memory(x, arg) for x in c[2])
                return False

            def through_helper(c):
                # `self._is_saved(p)`: a private predicate of the class whose answer is (a conjunction containing) `p in <x>.memory`
                if c[0] == 'call' and c[1][0] == 'attr' and c[1][1] == SELF and c[1][2] in ci.methods and tuple(c[2]) == (P,):
                    h = ci.methods[c[1][2]]
                    if len(h.args.args) == 2:
                        hp = ('param', h.args.args[1].arg)
                        rs = [q.end[1] for q in PyEval().paths(h) if q.end[0] == 'return']
                        return bool(rs) and all(says_in_memory(r, hp) for r in rs)
                return False
            in_mem = any(b is True and (says_in_memory(c, P) or through_helper(c)) for c, b in p.conds)
            if len(loads) != 1 or not in_mem:
                ok = False
        elif loads:
            ok = False
    ctx.ob('optimiser-transparent', 'MemoizingInterpreter.pattern', ok and bool(rets),
           'the memoiser must return super().pattern(argument), or - for a pattern found in memory - load that very pattern exactly once '
           'and return it; it may only load/save that pattern',
           py.where(ci.module, fn))


def declared_lists(ctx, py: PyRepo):
    """what a module declares is what is added to it: `add_axiom(x)` / `add_claim(x)` / `add_proof_expression(x)` append x to the list
    the phases iterate over exactly when it is not in it yet, and do nothing else to that list"""
    ci = py.cls('ProofExp')
    SELF_ = ('param', 'self')
    for meth, attr in (('add_axiom', '_axioms'), ('add_claim', '_claims'), ('add_proof_expression', '_proof_expressions')):
        fn = ci.methods.get(meth)
        ctx.require(fn is not None and len(fn.args.args) == 2, f'anchor vanished: ProofExp.{meth}(x)')
        X = ('param', fn.args.args[1].arg)
        L = ('attr', SELF_, attr)
        ok, n = True, 0
        for p in PyEval().paths(fn):
            if p.end[0] == 'raise':
                continue
            n += 1
            known = next((b for c, b in p.conds if c == ('cmp', 'in', X, L)), None)
            apps = [e.value for e in p.events if e.kind == 'ecall' and e.value[1] == ('attr', L, 'append')]
            other = [e for e in p.events if e.kind in ('setattr', 'setitem', 'aug') and L in (e.value if isinstance(e.value, tuple) else ())] + \
                    [e for e in p.events if e.kind == 'ecall' and e.value[1][0] == 'attr' and e.value[1][1] == L and e.value[1][2] != 'append']
            if known is True:
                ok = ok and not apps and not other
            elif known is False:
                ok = ok and len(apps) == 1 and apps[0][2] == (X,) and not other
            else:
                ok = ok and len(apps) == 1 and apps[0][2] == (X,) and not other     # no test: always appended
        ctx.ob('module-phases', f'{meth}/declares-what-is-added', ok and n >= 1,
               f'ProofExp.{meth} must append its argument to `self.{attr}` when it is not there yet (and leave the list alone otherwise): '
               f'what the gamma / claim / proof phase publishes is this list', py.where(ci.module, fn))


def symbol_table(ctx, py: PyRepo):
    ci = py.cls('SerializingInterpreter')
    where = py.where(ci.module, ci.node)
    ATTR = '_symbol_identifiers'
    writes = []
    from .c16 import inline_locals

    def scan(mname, fname, scope_body, nodes):
        """writes to the table inside one scope; a local that only names the table (`t = self._symbol_identifiers`) is the table"""
        def txt(e):
            return ast.unparse(inline_locals(scope_body, e)) if scope_body is not None else ast.unparse(e)
        for node in nodes:
            tgts = []
            if isinstance(node, ast.Assign):
                tgts = node.targets
            elif isinstance(node, (ast.AnnAssign, ast.AugAssign)):
                tgts = [node.target]
            elif isinstance(node, ast.Delete):
                tgts = node.targets
            for t in tgts:
                if isinstance(t, ast.Name):
                    continue                       # binding a local name never changes the table
                if ATTR in txt(t):
                    kind = 'delete' if isinstance(node, ast.Delete) else ('item' if isinstance(t, ast.Subscript) else 'rebind')
                    writes.append((mname, fname, kind, node))
            if isinstance(node, ast.Call) and isinstance(node.func, ast.Attribute) and ATTR in txt(node.func.value) \
                    and node.func.attr in ('pop', 'clear', 'popitem', 'update', 'setdefault', '__delitem__'):
                kind = node.func.attr
                if kind == 'setdefault' and len(node.args) == 2 and txt(node.args[1]) == f'len({txt(node.func.value)})':
                    kind = 'item'               # table.setdefault(key, len(table)): assigns a fresh id only when the key is new
                writes.append((mname, fname, kind, node))
    for mname, qn, f, _ci in py.all_functions():
        scan(mname, qn.split('.')[-1], f.body, [n for st in f.body for n in ast.walk(st)])
    for mname, mi in py.modules.items():
        scan(mname, '<module>', None, [n for st in mi.tree.body if not isinstance(st, (ast.FunctionDef, ast.ClassDef)) for n in ast.walk(st)])
    rebinds = [(m, f) for m, f, k, _n in writes if k == 'rebind']
    # the table may live on an object the serializer keeps for itself (`self._encoder = _Encoder(..)`): then that object must be
    # created once per serializer, i.e. the attribute holding it is bound in the serializer's __init__ only
    from ..core.pyfacts import enclosing_def, helper_objects
    holders = helper_objects(py, ci)
    owner_cls = set()
    for m, f, k, n_ in writes:
        if k == 'rebind' and m == 'serializing_interpreter':
            for c_ in py.modules[m].classes.values():
                if any(n_ is x for g in c_.methods.values() for x in ast.walk(g)):
                    owner_cls.add(c_.name)
    holder_ok, holder_why = True, ''
    table_holders = [a for a, (k_, _args) in holders.items() if k_.name in owner_cls and k_.name != ci.name]
    for a in table_holders:
        sites = [(c_.name, g.name) for c_ in py.mro(ci) for g in c_.methods.values() for n_ in ast.walk(g)
                 if isinstance(n_, (ast.Assign, ast.AnnAssign, ast.AugAssign, ast.Delete))
                 for t in (n_.targets if isinstance(n_, (ast.Assign, ast.Delete)) else [n_.target])
                 if isinstance(t, ast.Attribute) and isinstance(t.value, ast.Name) and t.value.id == 'self' and t.attr == a]
        if any(g != '__init__' for _c, g in sites):
            holder_ok = False
            holder_why = f'; the object holding it (`self.{a}`) is re-created in {sorted({g for _c, g in sites if g != "__init__"})}'
    if owner_cls - {ci.name} and not table_holders:
        holder_ok, holder_why = False, f'; the table lives in {sorted(owner_cls)}, which the serializer does not keep as its own object'
    ctx.ob('one-symbol-table', 'created-once', rebinds == [('serializing_interpreter', '__init__')] and holder_ok,
           f'the symbol table is (re)created in {rebinds}{holder_why}: it must be created once per serializer, otherwise ids restart '
           f'between the three files', where)
    others = [(m, f, k) for m, f, k, _n in writes if k not in ('rebind', 'item')]
    ctx.ob('one-symbol-table', 'never-shrinks', not others, f'the symbol table is modified by {others}', where)
    items = [(m, f) for m, f, k, _n in writes if k == 'item']
    # `symbol` itself, or a private helper of the serializer that nothing but `symbol` (or such a helper) calls
    allowed = {'symbol'}
    callers: dict[str, set] = {}
    for mname, qn, f, _ci in py.all_functions():
        for n in ast.walk(f):
            if isinstance(n, ast.Attribute) and n.attr.startswith('_') and n.attr in ci.methods:
                callers.setdefault(n.attr, set()).add((mname, qn.split('.')[-1]))
    # ... or a method of the object that holds the table, called by nothing else
    for a in table_holders:
        for mname2 in holders[a][0].methods:
            for mname, qn, f, _ci in py.all_functions():
                for n in ast.walk(f):
                    if isinstance(n, ast.Attribute) and n.attr == mname2 and isinstance(n.value, ast.Attribute) and n.value.attr == a:
                        callers.setdefault(mname2, set()).add((mname, qn.split('.')[-1]))
    for _round in range(3):
        for h, cs in callers.items():
            if cs and all(m == 'serializing_interpreter' and f in allowed for m, f in cs):
                allowed.add(h)
    ctx.ob('one-symbol-table', 'written-only-by-symbol',
           bool(items) and all(m == 'serializing_interpreter' and f in allowed for m, f in items)
           and any(f == 'symbol' or f in allowed for _m, f in items),
           f'symbol ids are assigned in {sorted(set(items))}: only `symbol` (or a private helper only it uses) may number symbols', where)
    # ids are len(table), assigned only when the name is new: on every path of `symbol` the id written is the table entry of the
    # name, and an entry is stored only under `name not in table` (or by setdefault), with the value len(table)
    fn = ci.methods.get('symbol')
    ok = False
    if fn is not None and len(fn.args.args) == 2:
        T, NAME = ('attr', SELF, ATTR), ('param', fn.args.args[1].arg)
        if len(table_holders) == 1 and ci.name not in owner_cls:
            T = ('attr', ('attr', SELF, table_holders[0]), ATTR)
        LEN = ('call', ('name', 'len'), (T,), ())
        w = Wiring(py)
        got = w.serializer_cases('symbol')
        ok = got is not None and bool(got[1])
        for case in (got[1] if got else []):
            rec = case['rec']
            ids = [o[1] for o in case['operands'] if o[0] == 'scalar']
            known = [b_ for c, b_ in rec['conds'] if c == ('cmp', 'in', NAME, T)]
            good = False
            if len(ids) == 1 and ids[0] == ('call', ('attr', T, 'setdefault'), (NAME, LEN), ()):
                good = True
            elif len(ids) == 1 and ids[0] == ('sub', T, NAME) and known == [True]:
                good = True
            elif len(ids) == 1 and ids[0] == ('sub', T, NAME) and known == [False]:
                # the new entry is stored with the value len(table) (and is what is written: read back or kept in a local)
                good = any(e.kind == 'setitem' and e.value == (T, NAME, LEN) for e in rec.get('events', []))
            ok = ok and good
    ctx.ob('one-symbol-table', 'fresh-id-is-len', ok,
           'a new symbol must get id len(table) under a `name not in table` guard (injective and stable numbering)', py.where(ci.module, fn or ci.node))
    # ProofExp.serialize: one serializer, one execute_full over it per branch
    fn = py.method('ProofExp', 'serialize')
    ev = PyEval()
    ok = True
    for p in ev.paths(fn):
        if p.end[0] == 'raise':
            continue
        mk = [e.value for e in p.events if e.kind == 'ecall' and e.value[1] == ('attr', SELF, 'get_serializing_interpreter')]
        runs = [e.value for e in p.events if e.kind == 'ecall' and e.value[1] == ('attr', SELF, 'execute_full')]
        uses = [r for r in runs if mk and (r[2][0] == mk[0] or (r[2][0][0] == 'call' and mk[0] in r[2][0][2]))]
        if len(mk) != 1 or len(uses) != 1:
            ok = False
    ctx.ob('one-symbol-table', 'one-serializer-per-module', ok,
           'ProofExp.serialize must create one serializer and run execute_full over it exactly once (the three files share its symbol table)',
           py.where('proof', fn))


def bounded_writes(ctx, py: PyRepo):
    ci = py.cls('SerializingInterpreter')
    n = 0
    emit_helpers: set[str] = set()
    for mname, fn in ci.methods.items():
        for node in ast.walk(fn):
            if isinstance(node, ast.Call) and ast.unparse(node.func) == 'self.out.write':
                n += 1
                arg = node.args[0] if node.args else None
                is_bytes = isinstance(arg, ast.Call) and isinstance(arg.func, ast.Name) and arg.func.id == 'bytes' \
                    and len(arg.args) == 1 and isinstance(arg.args[0], (ast.List, ast.Tuple))
                # bytes(<*args of this method>): the tuple of the caller's arguments - bounded like a display; what the callers pass
                # is checked at every call of this helper below
                if isinstance(arg, ast.Call) and isinstance(arg.func, ast.Name) and arg.func.id == 'bytes' and len(arg.args) == 1 \
                        and isinstance(arg.args[0], ast.Name) and fn.args.vararg is not None and arg.args[0].id == fn.args.vararg.arg:
                    is_bytes = True
                    emit_helpers.add(mname)
                # bytes([<parameter>, *<the *args parameter>]): likewise a display of the caller's arguments
                if is_bytes and fn.args.vararg is not None and isinstance(arg.args[0], (ast.List, ast.Tuple)):
                    params_ = {a.arg for a in fn.args.args[1:]}
                    elts_ = arg.args[0].elts
                    if elts_ and all((isinstance(x, ast.Name) and x.id in params_)
                                     or (isinstance(x, ast.Starred) and isinstance(x.value, ast.Name) and x.value.id == fn.args.vararg.arg)
                                     for x in elts_) and any(isinstance(x, ast.Starred) for x in elts_):
                        emit_helpers.add(mname)
                # a local that holds bytes([...]) is the same idiom
                if isinstance(arg, ast.Name):
                    defs = [a for a in ast.walk(fn) if isinstance(a, ast.Assign) and isinstance(a.targets[0], ast.Name) and a.targets[0].id == arg.id]
                    if len(defs) == 1 and isinstance(defs[0].value, ast.Call) and ast.unparse(defs[0].value.func) == 'bytes' \
                            and defs[0].value.args and isinstance(defs[0].value.args[0], (ast.List, ast.Tuple)):
                        is_bytes, arg = True, defs[0].value
                masked = False
                helper = None
                if isinstance(arg, ast.Call) and isinstance(arg.func, ast.Name) and arg.func.id != 'bytes':
                    # a byte-rendering helper of the repository: bounded iff it is `return bytes(<its parameter>)`
                    for hm in py.modules.values():
                        if arg.func.id in hm.functions:
                            helper = hm.functions[arg.func.id]
                    if helper is not None:
                        from .c16 import returned_exprs
                        rets = returned_exprs(helper)
                        hp = [a.arg for a in helper.args.args]
                        plain = len(rets) == 1 and len(hp) == 1 and ast.unparse(rets[0][1]) == f'bytes({hp[0]})'
                        is_bytes = True
                        masked = not plain
                        arg = arg.args[0] if arg.args else arg
                if is_bytes:
                    for x in ast.walk(arg):
                        if isinstance(x, ast.BinOp) and isinstance(x.op, (ast.Mod, ast.BitAnd)):
                            masked = True
                        if isinstance(x, ast.Call) and isinstance(x.func, ast.Attribute) and x.func.attr in ('to_bytes',):
                            masked = True
                        if isinstance(x, ast.Call) and isinstance(x.func, ast.Name) and x.func.id in ('min', 'bytearray'):
                            masked = True
                ctx.ob('bounded-write', f'{ci.name}.{mname}:{n}', is_bytes and not masked,
                       f'{ast.unparse(node)}: every write must be bytes([...]) of unmasked ids - the constructor that raises above 255 - '
                       f'so that a module with more than 256 ids is refused rather than encoded ambiguously', py.where(ci.module, node))
    # calls of a byte-emitting helper: the arguments are the bytes written
    for mname, fn in ci.methods.items():
        for node in ast.walk(fn):
            if isinstance(node, ast.Call) and isinstance(node.func, ast.Attribute) and isinstance(node.func.value, ast.Name) \
                    and node.func.value.id == 'self' and node.func.attr in emit_helpers:
                n += 1
                masked = any((isinstance(x, ast.BinOp) and isinstance(x.op, (ast.Mod, ast.BitAnd)))
                             or (isinstance(x, ast.Call) and isinstance(x.func, ast.Attribute) and x.func.attr == 'to_bytes')
                             or (isinstance(x, ast.Call) and isinstance(x.func, ast.Name) and x.func.id in ('min', 'bytearray'))
                             for a in node.args for x in ast.walk(a))
                ctx.ob('bounded-write', f'{ci.name}.{mname}:{n}', not masked,
                       f'{ast.unparse(node)}: every byte written must be an unmasked id handed to bytes() - the constructor that raises '
                       f'above 255 - so that a module with more than 256 ids is refused rather than encoded ambiguously', py.where(ci.module, node))
    ctx.analysed['serializer write sites'] = n


def encoding_faithful(ctx, py: PyRepo):
    """what is published is a pattern built through the interpreter: each construction call must be written with an opcode,
    operands and meaning the checker reads back as the same pattern (shared with C02), and memory slots must be counted
    alike on both sides so that a Load emitted by the memoiser addresses the term it meant (shared with C04)"""
    from ..core import machine as M
    from ..core.rustfacts import Rust
    from . import c02, c04, c05
    r = Rust.get()
    w = Wiring(py)
    arms = M.rust_arms(r)
    py_ops = c02.py_opcodes(py)
    dec = c05.decode_table(r)
    for meth in ('evar', 'svar', 'symbol', 'metavar', 'implies', 'app', 'exists', 'mu', 'esubst', 'ssubst', 'instantiate_pattern',
                 'save', 'load', 'publish_axiom', 'publish_claim'):
        c02.method_row(ctx, w, meth, arms, py_ops, dec)
    c04.memory_and_load(ctx, py, w, arms)
    # what gets published is interpreter.pattern(<declared pattern>): the walk that rebuilds a pattern through interpreter calls must
    # hand every sub-pattern on in place and under its own key (shared with C08) - a permuted or re-keyed map publishes another pattern
    from . import c08
    c08.walk_order(ctx, py, w)
    # the three files get what the module hands the serializer for them (shared with C08)
    c08.ctor_forwarding(ctx, py)


def run(ctx):
    py = PyRepo.get()
    encoding_faithful(ctx, py)
    who_may_publish(ctx, py)
    loop_shape(ctx, py)
    optimisers_transparent(ctx, py)
    symbol_table(ctx, py)
    declared_lists(ctx, py)
    bounded_writes(ctx, py)
    ctx.floor('who-may-publish', 6)
    ctx.floor('publish-loop', 4)
    ctx.floor('bounded-write', 24)
    ctx.floor('one-symbol-table', 5)
    ctx.explanation = (
        'Structural clauses on which "published = declared" rests: only the phase drivers publish (who-may-call table over resolved call '
        'sites); the gamma loop ranges over self._axioms itself after the imported modules, the claims loop over reversed(self._claims), '
        'and publishes interpreter.pattern(<loop variable>); the declared lists are append-only; optimisers neither override nor alter '
        'publishing and the memoiser only loads/saves the very pattern it was asked for; the serializer has one symbol table created in '
        '__init__, growing only in symbol() with id len(table) under a not-in guard, shared by the three files through one serializer; '
        'every byte is written through bytes([...]) without masking, so ids above 255 raise; each pattern-construction call is encoded '
        'with the opcode, operands and meaning the checker reads back (shared with C02) and memory slots are counted alike on both sides '
        '(shared with C04). The files are not decoded.')
    ctx.assumptions = ['python ast', 'MAY_PUBLISH table (confirmed by reading)']
