"""C09 - the tautology prover: one necessary clause of completeness - the saturation loop enumerates every pair."""
from __future__ import annotations

import ast

from ..core.pyfacts import PyRepo

LEVEL = 'other'


def names_stored(node) -> set[str]:
    out = set()
    for n in ast.walk(node):
        if isinstance(n, ast.Name) and isinstance(n.ctx, (ast.Store, ast.Del)):
            out.add(n.id)
    return out


def reads(node, name: str) -> bool:
    return any(isinstance(n, ast.Name) and n.id == name and isinstance(n.ctx, ast.Load) for n in ast.walk(node))


def store_reaches_read(path: list[tuple[list, int]], name: str, inner_body: list) -> str | None:
    """path: [(block, index of the statement containing the store)] from the inner loop body down to the storing statement.
    -> description of how the clobbered value is read again, or None if every continuation leaves the inner loop first."""
    # walk outwards: after the storing statement in its block, then after the enclosing statement in the parent block, ...
    for block, idx in reversed(path):
        for st in block[idx + 1:]:
            if isinstance(st, (ast.Break, ast.Return, ast.Raise)):
                return None
            if isinstance(st, ast.Continue):
                return f'`continue` at line {st.lineno} starts the next inner iteration, whose guard reads `{name}`'
            if reads(st, name):
                return f'line {st.lineno} reads `{name}` after it was rebound'
            # a compound statement that always leaves the loop
            if isinstance(st, ast.If) and _always_leaves(st.body) and _always_leaves(st.orelse):
                return None
    # fell off the end of the inner loop body: the next inner iteration runs
    if any(reads(st, name) for st in inner_body):
        return f'the next iteration of the inner loop reads `{name}` (the rebound value replaces the outer loop element)'
    return None


def _always_leaves(stmts) -> bool:
    if not stmts:
        return False
    last = stmts[-1]
    if isinstance(last, (ast.Break, ast.Return, ast.Raise)):
        return True
    if isinstance(last, ast.If):
        return _always_leaves(last.body) and _always_leaves(last.orelse)
    return False


def find_stores(block: list, targets: set[str], path: list):
    """yield (name, node, path) for every statement (not nested loop targets) that rebinds an outer-loop target"""
    for i, st in enumerate(block):
        here = path + [(block, i)]
        if isinstance(st, (ast.Assign, ast.AugAssign, ast.AnnAssign)):
            tg = st.targets if isinstance(st, ast.Assign) else [st.target]
            for t in tg:
                for nm in names_stored(t) & targets:
                    yield nm, st, here
        elif isinstance(st, ast.Expr):
            for n in ast.walk(st):
                if isinstance(n, ast.NamedExpr) and n.target.id in targets:
                    yield n.target.id, st, here
        elif isinstance(st, ast.If):
            for n in ast.walk(st.test):
                if isinstance(n, ast.NamedExpr) and n.target.id in targets:
                    yield n.target.id, st, here
            yield from find_stores(st.body, targets, here)
            yield from find_stores(st.orelse, targets, here)
        elif isinstance(st, (ast.For, ast.While)):
            if isinstance(st, ast.For):
                for nm in names_stored(st.target) & targets:
                    yield nm, st, here
            yield from find_stores(st.body, targets, here)
        elif isinstance(st, ast.With):
            for it in st.items:
                if it.optional_vars is not None:
                    for nm in names_stored(it.optional_vars) & targets:
                        yield nm, st, here
            yield from find_stores(st.body, targets, here)
        elif isinstance(st, ast.Try):
            for blk in (st.body, st.orelse, st.finalbody):
                yield from find_stores(blk, targets, here)
            for h in st.handlers:
                yield from find_stores(h.body, targets, here)


def glue_polarity(ctx, py: PyRepo):
    """prove_tautology returns (True, proof of pat) or (False, proof of ~pat) on every path, given the contracts of the stages
    (each stage returns a term with proofs of both implications; the resolution stage returns a proof of the clause
    conjunction or of its negation, flagged) - the glue is type-checked like a lemma."""
    from ..core import schema as S
    from ..core.pyeval import PyEval
    fn = py.method('Tautology', 'prove_tautology')
    where = py.where('tautology', fn)
    sc = S.SchemaChecker(py, ['Propositional', 'Tautology'])
    SELF = ('param', 'self')
    PAT = ('P', 'Symbol', ('str', '$pat'))
    N = sc.N

    def neg(t):
        return N.apply('neg', [t])

    def atom(n):
        return ('P', 'Symbol', ('str', '$' + n))

    def IMP(a, b):
        return ('P', 'Implies', a, b)

    X0 = neg(PAT)
    T1, T2, T3, T4 = atom('T1'), atom('T2'), atom('T3'), atom('T4')
    conj = ('call', ('attr', SELF, 'to_conj_form'), (('call', ('name', 'neg'), (('param', 'pat'),), ()),), ())
    pn = ('call', ('attr', SELF, 'propag_neg'), (('item', conj, 0),), ())
    cnf = ('call', ('attr', SELF, 'to_cnf'), (('item', pn, 0),), ())
    cls = ('call', ('attr', SELF, 'to_clauses'), (('item', cnf, 0),), ())
    res = ('call', ('attr', SELF, 'start_resolution_algorithm'), (('item', cls, 0),), ())
    n = 0
    for p in PyEval().paths(fn):
        if p.end[0] != 'return' or p.end[1] == ('const', None):
            continue
        rv = p.end[1]
        if not (rv[0] == 'tuple' and len(rv[1]) == 2 and rv[1][0][0] == 'const' and isinstance(rv[1][0][1], bool)):
            ctx.ob('glue-polarity', f'path{n}', False, 'prove_tautology returns something other than (bool, proof)', where)
            n += 1
            continue
        flag, pfv = rv[1][0][1], rv[1][1]
        conds = {c: b for c, b in p.conds}
        is_bot = conds.get(('call', ('name', 'isinstance'), (('item', conj, 0), ('name', 'CFBot')), ()))
        negated = conds.get(('attr', ('item', conj, 0), 'negated'))
        proved_true = conds.get(('item', res, 0))
        ov = {}
        if is_bot:
            # "when the new term is Top or Bottom, the first proof is a proof of the input (Top) or of its negation (Bottom)"
            ov[('item', conj, 1)] = ('pf', X0 if negated else neg(X0))
        else:
            ov[('item', conj, 1)] = ('pf', IMP(X0, T1))
            ov[('item', conj, 2)] = ('pf', IMP(T1, X0))
        ov[('item', pn, 1)], ov[('item', pn, 2)] = ('pf', IMP(T1, T2)), ('pf', IMP(T2, T1))
        ov[('item', cnf, 1)], ov[('item', cnf, 2)] = ('pf', IMP(T2, T3)), ('pf', IMP(T3, T2))
        ov[('item', cls, 1)], ov[('item', cls, 2)] = ('pf', IMP(T3, T4)), ('pf', IMP(T4, T3))
        ov[('item', res, 1)] = ('pf', T4 if proved_true else neg(T4))
        ty = S.Typer(sc, {'pat': ('pat', PAT)}, 'prove_tautology', 'Tautology')
        ty.overrides = ov
        tag = f'{"bot" if is_bot else "general"}/{"negated" if negated else ""}{"clauses-proved" if proved_true else ""}'.rstrip('/') + f'->{flag}'
        try:
            got = ty.pf(pfv)
            want = PAT if flag else neg(PAT)
            ctx.ob('glue-polarity', tag, got == want,
                   f'prove_tautology returns ({flag}, proof of {S.tshow(got)}); with flag {flag} the proof must conclude '
                   f'{"the pattern" if flag else "the negated pattern"} {S.tshow(want)}', where, facts={'proves': S.tshow(got)})
        except S.Violation as v:
            ctx.ob('glue-polarity', tag, False, f'the glue does not type-check under the stage contracts: {v}', where)
        except S.Decline as d:
            ctx.require(False, f'prove_tautology: glue outside the analysed subset: {d}')
        n += 1


def conj_form_contract(ctx, py: PyRepo):
    """inductive step of the first stage: assuming every recursive call of to_conj_form keeps the stage contract (a term T with proofs
    of `p -> T` and `T -> p`; for a constant result only one proof, of `p` or of `~p`), every returning path does.  The contract is
    the one prove_tautology's glue is typed against (glue-polarity), so the two rules close the induction for this stage."""
    from ..core import schema as S
    from ..core.pyeval import PyEval, show
    fn = py.method('Tautology', 'to_conj_form')
    where = py.where('tautology', fn)
    sc = S.SchemaChecker(py, ['Propositional', 'Tautology'])
    N = sc.N
    SELF = ('param', 'self')
    PARAM = ('param', fn.args.args[1].arg)

    def atom(n):
        return ('P', 'Symbol', ('str', '$' + n))

    def neg(t):
        return N.apply('neg', [t])

    def IMP(a, b):
        return ('P', 'Implies', a, b)

    BOT, TOP = N.apply('bot', []), N.apply('top', [])
    EXTRACT = ('call', ('attr', ('name', 'Implies'), 'extract'), (PARAM,), ())
    n = 0
    for p in PyEval().paths(fn):
        if p.end[0] != 'return':
            continue
        rv = p.end[1]
        if not (rv[0] == 'tuple' and len(rv[1]) == 3):
            ctx.ob('stage-contract', f'to_conj_form/path{n}', False, 'to_conj_form returns something other than (form, proof, proof | None)', where)
            n += 1
            continue
        conds = {c: b for c, b in p.conds}
        ov = {}
        if conds.get(('cmp', '==', ('call', ('name', 'bot'), (), ()), PARAM)):
            PAT = BOT
        elif conds.get(('cmp', '==', ('call', ('name', 'top'), (), ()), PARAM)):
            PAT = TOP
        elif conds.get(EXTRACT):
            P0, P1 = atom('p0'), atom('p1')
            PAT = IMP(P0, P1)
            for form in ('item', 'sub'):
                for i, P in ((0, P0), (1, P1)):
                    ov[(form, EXTRACT, i if form == 'item' else ('const', i))] = ('pat', P)
        else:
            PAT = atom('pat')
        rec_T = {}
        for i in (0, 1):
            rec = None
            for arg in (('sub', EXTRACT, ('const', i)), ('item', EXTRACT, i)):
                cand = ('call', ('attr', SELF, 'to_conj_form'), (arg,), ())
                if ('call', ('name', 'isinstance'), (('item', cand, 0), ('name', 'CFBot')), ()) in conds:
                    rec = cand
            if rec is None:
                continue
            cf = ('item', rec, 0)
            is_bot = conds.get(('call', ('name', 'isinstance'), (cf, ('name', 'CFBot')), ()))
            Pi = atom(f'p{i}')
            flag = conds.get(('attr', cf, 'negated'))
            if is_bot:
                if flag is None:
                    continue
                ov[('item', rec, 1)] = ('pf', Pi if flag else neg(Pi))
                continue
            B = atom(f'B{i}')
            for e in p.events:
                if e.kind == 'setattr' and e.value[0] == cf and e.value[1] == 'negated' and e.value[2][0] == 'const':
                    pass
            T_in = (neg(B) if flag else B) if flag is not None else atom(f'T{i}')
            ov[('item', rec, 1)], ov[('item', rec, 2)] = ('pf', IMP(Pi, T_in)), ('pf', IMP(T_in, Pi))
            final = flag
            for e in p.events:
                if e.kind == 'setattr' and e.value[0] == cf and e.value[1] == 'negated' and e.value[2][0] == 'const':
                    final = bool(e.value[2][1])
            rec_T[cf] = (neg(B) if final else B) if final is not None else T_in

        def T_of(v):
            if v in rec_T:
                return rec_T[v]
            if v[0] == 'call' and v[1] == ('name', 'CFVar'):
                return PAT
            if v[0] == 'call' and v[1] == ('name', 'CFOr') and len(v[2]) == 2:
                a, b = T_of(v[2][0]), T_of(v[2][1])
                return None if a is None or b is None else N.apply('_or', [a, b])
            return None

        cfv, pf1, pf2 = rv[1]
        tag = f'to_conj_form/{show(cfv)[:44]}#{n}'
        n += 1
        ty = S.Typer(sc, {PARAM[1]: ('pat', PAT)}, 'to_conj_form', 'Tautology')
        ty.overrides = ov
        try:
            if cfv[0] == 'call' and cfv[1] == ('name', 'CFBot') and len(cfv[2]) == 1 and cfv[2][0][0] == 'const':
                want1 = PAT if cfv[2][0][1] else neg(PAT)
                got1 = ty.pf(pf1)
                ctx.ob('stage-contract', tag, got1 == want1 and pf2 == ('const', None),
                       f'for a constant result the first proof must prove {"the input" if cfv[2][0][1] else "the negated input"} '
                       f'{S.tshow(want1)}; it proves {S.tshow(got1)}', where)
                continue
            T = T_of(cfv)
            if T is None:
                ctx.require(False, f'to_conj_form: returned form {show(cfv)[:60]} is outside the analysed subset')
            got1, got2 = ty.pf(pf1), ty.pf(pf2)
            bad = []
            if got1 != IMP(PAT, T):
                bad.append(f'the first proof concludes {S.tshow(got1)}, the contract is input -> form = {S.tshow(IMP(PAT, T))}')
            if got2 != IMP(T, PAT):
                bad.append(f'the second proof concludes {S.tshow(got2)}, the contract is form -> input = {S.tshow(IMP(T, PAT))}')
            ctx.ob('stage-contract', tag, not bad, '; '.join(bad) + ' (input = ' + S.tshow(PAT) + ', recursive results assumed to keep the contract)',
                   where, facts={'form': S.tshow(T)})
        except S.Violation as v:
            ctx.ob('stage-contract', tag, False, f'does not type-check under the stage contract of the recursive calls: {v}', where)
        except S.Decline as d:
            ctx.decline(tag, str(d))
    ctx.analysed['to_conj_form returning paths'] = n


def _walk(v):
    if isinstance(v, tuple) and v:
        yield v
        for x in v:
            if isinstance(x, tuple):
                yield from _walk(x)


def resolvable_contract(ctx, py: PyRepo):
    """`resolvable(A, B)` is what resolution_algorithm and build_proof_from_hint take for granted: it answers (r, R) only when
    exactly one literal r of B has its negation in A, and R = (A without -r) together with (B without r).  Decided on the value
    paths by a membership algebra: for an arbitrary literal y, `y in <set expression>` is a boolean function of the atoms
    y in A, y in B, -y in A, y == r, y == -r (union = or, intersection = and, difference = and-not, {e} = equality,
    {-x for x in A} = "-y in A"), compared with the specified function over all assignments of the atoms that the data allow
    (r != 0; -r in A and r in B by the definition of r; clauses on the work list contain no complementary pair - the trivial ones
    are filtered by start_resolution_algorithm and a resolvent over exactly one clash has none)."""
    import itertools
    from ..core.pyeval import PyEval, show
    fn = py.method('Tautology', 'resolvable')
    where = py.where('tautology', fn)
    ctx.require(fn is not None and len(fn.args.args) == 3, 'anchor vanished: Tautology.resolvable(c1, c2)')
    A, B = (('param', a.arg) for a in fn.args.args[1:])
    ATOMS = ('inA', 'inB', 'negInA', 'isR', 'isNegR')

    class Undecided(Exception):
        pass

    def mem(v, r):
        """membership of the arbitrary literal y in the set value v, as a function env -> bool"""
        if v == A:
            return lambda e: e['inA']
        if v == B:
            return lambda e: e['inB']
        if v[0] == 'call' and v[1] in (('name', 'set'), ('name', 'frozenset')) and len(v[2]) == 1:
            return mem(v[2][0], r)
        if v[0] == 'comp' and v[1] in ('setcomp', 'gen', 'listcomp') and len(v[3]) == 1 and not v[3][0][2] \
                and v[2] == ('unop', 'USub', ('bound', v[3][0][0])) and v[3][0][1] == A:
            return lambda e: e['negInA']
        if v[0] == 'set':
            parts = []
            for x in v[1]:
                if r is not None and x == r:
                    parts.append('isR')
                elif r is not None and x == ('unop', 'USub', r):
                    parts.append('isNegR')
                else:
                    raise Undecided(f'set display element {show(x)[:40]}')
            return lambda e: any(e[k] for k in parts)
        op = None
        if v[0] == 'call' and v[1][0] == 'attr' and v[1][2] in ('union', 'intersection', 'difference') and len(v[2]) == 1 and not v[3]:
            op, l, rr = v[1][2], v[1][1], v[2][0]
        elif v[0] == 'binop' and v[1] in ('BitOr', 'BitAnd', 'Sub'):
            op, l, rr = {'BitOr': 'union', 'BitAnd': 'intersection', 'Sub': 'difference'}[v[1]], v[2], v[3]
        if op is not None:
            f, g = mem(l, r), mem(rr, r)
            return {'union': lambda e: f(e) or g(e), 'intersection': lambda e: f(e) and g(e), 'difference': lambda e: f(e) and not g(e)}[op]
        raise Undecided(f'set expression {show(v)[:60]}')

    def envs(with_r):
        for bits in itertools.product((False, True), repeat=len(ATOMS)):
            e = dict(zip(ATOMS, bits))
            if not with_r and (e['isR'] or e['isNegR']):
                continue
            if e['isR'] and e['isNegR']:
                continue                                   # r != 0
            if e['isR'] and not (e['inB'] and e['negInA']):
                continue                                   # y == r: r is in B and -r in A
            if e['isNegR'] and not e['inA']:
                continue                                   # y == -r: -r is in A
            if e['inA'] and e['negInA'] and False:
                continue
            if e['isR'] and e['inA'] or e['isNegR'] and e['inB']:
                continue                                   # no complementary pair inside A or inside B
            yield e

    probs, n_ret = [], 0
    try:
        paths = PyEval().paths(fn)
    except Exception as ex:  # noqa: BLE001
        ctx.require(False, f'resolvable: outside the analysed subset: {ex}')
    for p in paths:
        if p.end[0] != 'return':
            continue
        n_ret += 1
        # the clash set: the operand of the len(..) test on this path
        lens = [(c, b) for c, b in p.conds if c[0] == 'cmp' and c[1] in ('==', '!=') and c[2][0] == 'call' and c[2][1] == ('name', 'len')
                and c[3] == ('const', 1)]
        if len(lens) != 1:
            probs.append('a returning path does not test that exactly one literal clashes (len(<clash set>) == 1)')
            continue
        (c, b) = lens[0]
        common = c[2][2][0]
        exactly_one = b if c[1] == '==' else not b
        try:
            f = mem(common, None)
            if any(f(e) != (e['negInA'] and e['inB']) for e in envs(False)):
                probs.append(f'the clash set `{show(common)[:70]}` is not the set of literals of the second clause whose negation is in the first')
        except Undecided as u:
            ctx.require(False, f'resolvable: {u} is outside the membership algebra')
        if not exactly_one:
            if p.end[1] != ('const', None):
                probs.append('answers with a resolvent although the number of clashing literals is not one')
            continue
        v = p.end[1]
        if not (v[0] == 'tuple' and len(v[1]) == 2):
            probs.append(f'returns {show(v)[:60]}, not (literal, resolvent)')
            continue
        r, R = v[1]
        elem = r in (('item', common, 0), ('sub', common, ('const', 0))) or (r[0] == 'call' and r[1] == ('name', 'next') and len(r[2]) == 1) \
            or r == ('call', ('attr', common, 'pop'), (), ())
        if not elem:
            probs.append(f'the literal returned, `{show(r)[:50]}`, is not the element of the clash set')
            continue
        try:
            g = mem(R, r)
            bad = [e for e in envs(True) if g(e) != ((e['inA'] and not e['isNegR']) or (e['inB'] and not e['isR']))]
            if bad:
                e = bad[0]
                what = 'r itself' if e['isR'] else ('-r' if e['isNegR'] else ('a literal of the first clause' if e['inA'] else
                                                                              ('a literal of the second clause' if e['inB'] else 'a literal of neither clause')))
                probs.append(f'the resolvent `{show(R)[:80]}` is not (first clause without -r) + (second clause without r): it differs on {what}')
        except Undecided as u:
            ctx.require(False, f'resolvable: {u} is outside the membership algebra')
    ctx.ob('stage-contract', 'resolution/resolvable', n_ret >= 2 and not probs,
           'resolvable(A, B) must answer (r, (A - {-r}) | (B - {r})) exactly when one literal r of B has its negation in A, else None: '
           + ('; '.join(probs) if probs else f'{n_ret} returning paths decided'), where)


def resolution_contract(ctx, py: PyRepo):
    """inductive step of the refutation builder: assuming each recursive call of build_proof_from_hint returns a clause L with a proof
    of `CONJ -> clause_to_pattern(L)`, and simplify_clause / merge_clauses keep their contracts (equivalences, stated as assumptions),
    the resolution branch returns the resolvent clause with a proof of `CONJ -> clause_to_pattern(resolvent)` in each of the four
    emptiness cases of the two remainders."""
    from ..core import schema as S
    from ..core.pyeval import PyEval, show
    fn = py.method('Tautology', 'build_proof_from_hint')
    where = py.where('tautology', fn)
    sc = S.SchemaChecker(py, ['Propositional', 'Tautology'])
    N = sc.N
    SELF = ('param', 'self')

    def atom(n):
        return ('P', 'Symbol', ('str', '$' + n))

    def IMP(a, b):
        return ('P', 'Implies', a, b)

    CONJ, P, A, B, M = atom('CONJ'), atom('P'), atom('A'), atom('B'), atom('M')
    NEGP = N.apply('neg', [P])
    BOT = N.apply('bot', [])
    # what resolution_algorithm records for a resolvent, on value paths (helpers of the class evaluated in place): with
    # (r, rest) = resolvable(A, B) - r in B, -r in A - the entry must be ResolutionHintSource(<parent holding -|r|>, <parent holding |r|>, |r|),
    # because build_proof_from_hint normalises the left parent on -resolvant and the right parent on resolvant
    from ..core.pyfacts import self_method_resolver
    ra = py.method('Tautology', 'resolution_algorithm')
    ci_t = py.cls('Tautology')
    rev = PyEval(resolver=self_method_resolver(py, ci_t, SELF, exclude=('resolvable',)))
    stores = []

    def collect(paths, conds):
        for q in paths:
            cs = conds + list(q.conds)
            for e in q.events:
                if e.kind == 'setitem' and e.value[0] == ('param', ra.args.args[1].arg):
                    stores.append((cs, e.value[2]))
                elif e.kind == 'loop':
                    collect(e.extra, cs)
    try:
        collect([q for q in rev.paths(ra)], [])
    except S.Decline as d:
        ctx.require(False, f'resolution_algorithm outside the analysed subset: {d}')
    # the same store is seen once from inside the loop and once on the returning path: judge distinct (conditions, value) pairs
    seen, n_st, bad = set(), 0, []

    def split_ifexp(v, cs):
        """case split on a conditional expression inside the stored value"""
        for x in _walk(v):
            if x[0] == 'ifexp':
                out = []
                for truth, pick in ((True, x[2]), (False, x[3])):
                    atom_, pol = PyEval.norm_test(x[1])

                    def sub(y):
                        if y == x:
                            return pick
                        return tuple(sub(z) if isinstance(z, tuple) else z for z in y) if isinstance(y, tuple) else y
                    v2 = sub(v)
                    # (a, b)[0] after the split
                    def proj(y):
                        if isinstance(y, tuple) and y:
                            y = tuple(proj(z) if isinstance(z, tuple) else z for z in y)
                            if y[0] in ('sub', 'item') and y[1][0] in ('tuple', 'list'):
                                k = y[2][1] if y[0] == 'sub' and y[2][0] == 'const' else (y[2] if y[0] == 'item' else None)
                                if isinstance(k, int) and -len(y[1][1]) <= k < len(y[1][1]):
                                    return y[1][1][k]
                        return y
                    out.extend(split_ifexp(proj(v2), cs + [(atom_, truth == pol)]))
                return out
        return [(cs, v)]

    for cs, v in stores:
        for cs2, v2 in split_ifexp(v, cs):
            key = (tuple(sorted(map(repr, cs2))), v2)
            if key in seen:
                continue
            seen.add(key)
            n_st += 1
            args = list(v2[2]) + [kv[1] for kv in v2[3]] if v2[0] == 'call' and v2[1] == ('name', 'ResolutionHintSource') else None
            if args is None or len(args) != 3 or v2[3]:
                bad.append(f'records {show(v2)[:100]}')
                continue
            L, R, V = args
            src = [x for x in _walk(V) if x[0] == 'call' and x[1] == ('attr', SELF, 'resolvable') and len(x[2]) == 2]
            if not src:
                bad.append(f'records the variable {show(V)[:80]}, not the literal found by resolvable()')
                continue
            A, B = src[0][2]
            X = None
            for cand in (('item', src[0], 0), ('sub', src[0], ('const', 0))):
                if cand in list(_walk(V)):
                    X = cand
            neg = None                      # is the literal known negative on this path?
            for c, b in cs2:
                if c[0] == 'cmp' and c[2] == X and c[3] == ('const', 0):
                    neg = {('<', True): True, ('<', False): False, ('>=', True): False, ('>=', False): True,
                           ('>', True): False, ('<=', False): False}.get((c[1], b), neg)
                if c[0] == 'cmp' and c[3] == X and c[2] == ('const', 0):
                    neg = {('>', True): True, ('>', False): False, ('<=', True): False, ('<=', False): True,
                           ('<', True): False, ('>=', False): False}.get((c[1], b), neg)
            absolute = V == ('call', ('name', 'abs'), (X,), ()) or (neg is True and V == ('unop', 'USub', X)) or (neg is False and V == X)
            if not absolute:
                bad.append(f'records {show(V)[:60]} as the resolved variable{"" if neg is None else " when the literal is " + ("negative" if neg else "not negative")}: '
                           f'it must be its absolute value')
            elif neg is None:
                bad.append('records the parents without testing the sign of the literal: which parent holds the negated variable is not fixed')
            elif (L, R) != ((B, A) if neg else (A, B)):
                bad.append(f'when the literal is {"negative" if neg else "not negative"} the parents are recorded as ({show(L)[:30]}, {show(R)[:30]}): the left '
                           f'one must be the clause holding the negated variable')
    ctx.ob('stage-contract', 'resolution/resolvant-is-absolute', n_st >= 2 and not bad,
           'resolution_algorithm must record (clause with -|r|, clause with |r|, |r|) for a resolvent: build_proof_from_hint normalises the left '
           'parent on -resolvant and the right one on resolvant; ' + ('; '.join(bad) if bad else f'{n_st} recording cases found'),
           py.where('tautology', ra))
    n = 0
    # helpers of the class that branch (a case split moved out of the method) are evaluated in place; straight-line lemmas are typed
    # by their schema, and the methods whose contracts are assumed above stay opaque
    base_res = self_method_resolver(py, ci_t, SELF, exclude=('build_proof_from_hint', 'simplify_clause', 'merge_clauses', 'conjunction_implies_nth'))

    def branching_helpers(call, env, _ev):
        hit = base_res(call, env, _ev)
        if hit is not None and any(isinstance(x, (ast.If, ast.Match, ast.IfExp)) for x in ast.walk(hit[0])) \
                and not any(isinstance(x, (ast.For, ast.While)) for x in ast.walk(hit[0])):
            return hit
        return None
    for p in PyEval(resolver=branching_helpers).paths(fn):
        if p.end[0] != 'return':
            continue
        rv = p.end[1]
        if not (rv[0] == 'tuple' and len(rv[1]) == 2):
            ctx.ob('stage-contract', f'build_proof_from_hint/path{n}', False, 'returns something other than (clause, proof)', where)
            n += 1
            continue
        lst, pfv = rv[1]
        recs = [v for v in _walk(pfv) if v[0] == 'call' and v[1] == ('attr', SELF, 'build_proof_from_hint')]
        if not recs:
            # leaf: the n-th clause with the projection out of the conjunction; index agreement
            ok = pfv[0] == 'call' and pfv[1] == ('attr', SELF, 'conjunction_implies_nth') and len(pfv[2]) == 3 \
                and lst[0] == 'sub' and pfv[2][1] == lst[2] and pfv[2][0][0] == 'call' and pfv[2][0][1] == ('name', 'clause_conjunctionto_pattern') \
                and pfv[2][0][2] == (lst[1],)
            ctx.ob('stage-contract', 'build_proof_from_hint/leaf', ok,
                   f'an input clause must be returned with the projection of the same index out of the conjunction of the same clause list; '
                   f'returns {show(rv)[:120]}', where)
            n += 1
            continue
        sides = {}
        for r in recs:
            which = 'l' if 'left_set' in repr(r[2][1]) else ('r' if 'right_set' in repr(r[2][1]) else None)
            if which:
                sides[which] = r
        simp = {}
        for v in _walk(rv):
            if v[0] == 'call' and v[1] == ('attr', SELF, 'simplify_clause') and len(v[2]) == 2:
                for w, r in sides.items():
                    if v[2][0] == ('item', r, 0):
                        simp[w] = v
        ctx.require(set(sides) == {'l', 'r'} and set(simp) == {'l', 'r'}, 'build_proof_from_hint: the two parents / their simplification not recognised')
        # the literal each parent is normalised on: -resolvant on the left, resolvant on the right
        neg_left = simp['l'][2][1][0] == 'unop' and simp['r'][2][1] == simp['l'][2][1][2] if len(simp['l'][2][1]) > 2 else False
        conds = {c: b for c, b in p.conds}
        empt = {}
        for w in ('l', 'r'):
            rest = None
            for c, b in p.conds:
                # an emptiness test of the remainder X of that parent: len(X) == 0 | len(X) > 0 | len(X) | X (truthiness)
                x, empty = None, None
                if c[0] == 'cmp' and c[1] in ('==', '>', '<', '>=', '<=') and c[2][0] == 'call' and c[2][1] == ('name', 'len') and len(c[2][2]) == 1:
                    x = c[2][2][0]
                    empty = {('==', 0): b, ('>', 0): not b, ('<=', 0): b, ('>=', 1): not b, ('<', 1): b}.get((c[1], c[3][1] if c[3][0] == 'const' else None))
                elif c[0] == 'call' and c[1] == ('name', 'len') and len(c[2]) == 1:
                    x, empty = c[2][0], not b
                elif c[0] in ('sub', 'slice', 'name', 'item', 'rest'):
                    x, empty = c, not b
                if x is not None and empty is not None and ('item', simp[w], 0) in list(_walk(x)) and w not in empt:
                    empt[w] = empty
                    rest = x
            ctx.require(w in empt, 'build_proof_from_hint: emptiness case of a remainder not found on the path')
            simp[w + '_rest'] = rest
        CL = {'l': (NEGP if empt['l'] else N.apply('_or', [NEGP, A])), 'r': (P if empt['r'] else N.apply('_or', [P, B]))}
        ov = {}
        for w in ('l', 'r'):
            C0 = atom('C' + w)
            ov[('item', sides[w], 1)] = ('pf', IMP(CONJ, C0))
            ov[('item', simp[w], 1)] = ('pf', N.apply('equiv', [C0, CL[w]]))
        for v in _walk(pfv):
            if v[0] == 'call' and v[1] == ('name', 'id_to_metavar'):
                ov[v] = ('pat', P)
            if v[0] == 'call' and v[1] == ('name', 'clause_to_pattern') and len(v[2]) == 1:
                if v[2][0] == simp['l_rest']:
                    ov[v] = ('pat', BOT if empt['l'] else A)
                elif v[2][0] == simp['r_rest']:
                    ov[v] = ('pat', BOT if empt['r'] else B)
            if v[0] == 'call' and v[1] == ('attr', SELF, 'merge_clauses') and len(v[2]) == 3:
                ov[v] = ('pf', N.apply('equiv', [N.apply('_or', [A, B]), M]))
        want_C = BOT if (empt['l'] and empt['r']) else (B if empt['l'] else (A if empt['r'] else M))
        # the clause returned is left remainder + right remainder
        ok_list = lst == ('binop', 'Add', simp['l_rest'], simp['r_rest'])
        tag = f'build_proof_from_hint/left-{"empty" if empt["l"] else "rest"}-right-{"empty" if empt["r"] else "rest"}'
        ty = S.Typer(sc, {}, 'build_proof_from_hint', 'Tautology')
        ty.overrides = ov
        try:
            got = ty.pf(pfv)
            ctx.ob('stage-contract', tag, ok_list and bool(neg_left) and got == IMP(CONJ, want_C),
                   f'with the left remainder {"empty" if empt["l"] else "A"} and the right remainder {"empty" if empt["r"] else "B"} the proof '
                   f'must conclude CONJ -> {S.tshow(want_C)} for the clause (left remainder + right remainder); it concludes {S.tshow(got)}'
                   + ('' if ok_list else f' and the clause returned is {show(lst)[:80]}'), where)
        except S.Violation as v:
            ctx.ob('stage-contract', tag, False, f'does not type-check under the contracts of the recursive calls: {v}', where)
        except S.Decline as d:
            ctx.decline(tag, str(d))
        n += 1
    ctx.analysed['build_proof_from_hint returning paths'] = n


def form_stage_contract(ctx, py: PyRepo, meth: str):
    """inductive step of a stage working on conjunctive-form trees (propag_neg, to_cnf): assuming every recursive call returns a form
    with proofs of `T(arg) -> T(result)` and `T(result) -> T(arg)` (T = conj_to_pattern), every returning path returns a form with
    proofs of `T(term) -> T(form)` and `T(form) -> T(term)`.  Sub-forms are opaque patterns; a result tested to be a conjunction is the
    conjunction of its two (opaque) children; a negation flag flipped before the recursive calls is seen flipped by them; a flag
    that is flipped but never tested on a path is split into both values."""
    import itertools
    from ..core import schema as S
    from ..core.pyeval import PyEval, show
    fn = py.method('Tautology', meth)
    where = py.where('tautology', fn)
    sc = S.SchemaChecker(py, ['Propositional', 'Tautology'])
    N = sc.N
    SELF = ('param', 'self')
    TERM = ('param', fn.args.args[1].arg)
    n = 0

    def one_case(p, rv, conds, suffix):
        atoms = {}

        def atom(key, hint):
            if key not in atoms:
                atoms[key] = ('P', 'Symbol', ('str', f'${hint}{len(atoms)}'))
            return atoms[key]

        def is_a(v, cls):
            return conds.get(('call', ('name', 'isinstance'), (v, ('name', cls)), ()))

        flips = {}
        for i, e in enumerate(p.events):
            if e.kind == 'setattr' and e.value[1] == 'negated':
                obj, val = e.value[0], e.value[2]
                flips[obj] = i if val == ('not', ('attr', obj, 'negated')) else None
        first_rec = min([i for i, e in enumerate(p.events) if e.kind == 'ecall' and e.value[0] == 'call' and e.value[1] == ('attr', SELF, meth)],
                        default=len(p.events))

        def T(v, post=False):
            """pattern denoted by a form value; post: as seen by the recursive calls, i.e. after the flag flips of this path"""
            if v[0] == 'call' and v[1] in (('name', 'CFAnd'), ('name', 'CFOr')) and len(v[2]) == 2:
                return N.apply('_and' if v[1][1] == 'CFAnd' else '_or', [T(v[2][0], post), T(v[2][1], post)])
            flag = conds.get(('attr', v, 'negated'))
            if v in flips:
                if flips[v] is None or flips[v] > first_rec or flag is None:
                    raise S.Decline(f'{meth}: the negation flag of {show(v)} is rewritten in a way the analysis does not follow')
                if post:
                    flag = not flag

            def wrap(t):
                return t if flag is None else (N.apply('neg', [t]) if flag else t)
            if is_a(v, 'CFVar'):
                return atom(('lit', v), 'lit') if flag is None else wrap(atom(('var', v), 'v'))
            if is_a(v, 'CFAnd'):
                return wrap(N.apply('_and', [T(('attr', v, 'left'), post), T(('attr', v, 'right'), post)]))
            if is_a(v, 'CFOr'):
                return wrap(N.apply('_or', [T(('attr', v, 'left'), post), T(('attr', v, 'right'), post)]))
            return atom(('form', v), 't') if flag is None else wrap(atom(('base', v), 'b'))

        form, pf1, pf2 = rv[1]
        tag = f'{meth}/{show(form)[:40]}#{n}{suffix}'
        try:
            ov = {}
            for v in _walk(rv):
                if v[0] == 'call' and v[1] == ('attr', SELF, meth) and len(v[2]) == 1:
                    ta, tr = T(v[2][0], post=True), T(('item', v, 0))
                    ov[('item', v, 1)] = ('pf', ('P', 'Implies', ta, tr))
                    ov[('item', v, 2)] = ('pf', ('P', 'Implies', tr, ta))
                if v[0] == 'call' and v[1] == ('name', 'MetaVar') and len(v[2]) == 1 and v[2][0] == ('attr', TERM, 'id'):
                    ov[v] = ('pat', atom(('var', TERM), 'v'))
            ty = S.Typer(sc, {}, meth, 'Tautology')
            ty.overrides = ov
            tin, tout = T(TERM), T(form)
            got1, got2 = ty.pf(pf1), ty.pf(pf2)
            bad = []
            if got1 != ('P', 'Implies', tin, tout):
                bad.append(f'the first proof concludes {S.tshow(got1)}, the contract is T(term) -> T(form) = {S.tshow(("P", "Implies", tin, tout))}')
            if got2 != ('P', 'Implies', tout, tin):
                bad.append(f'the second proof concludes {S.tshow(got2)}, the contract is T(form) -> T(term) = {S.tshow(("P", "Implies", tout, tin))}')
            ctx.ob('stage-contract', tag, not bad, '; '.join(bad), where, facts={'T(term)': S.tshow(tin), 'T(form)': S.tshow(tout)})
        except S.Violation as v:
            ctx.ob('stage-contract', tag, False, f'does not type-check under the stage contract of the recursive calls: {v}', where)
        except S.Decline as d:
            ctx.decline(tag, str(d))

    for p in PyEval().paths(fn):
        if p.end[0] != 'return':
            continue
        rv = p.end[1]
        if not (rv[0] == 'tuple' and len(rv[1]) == 3):
            ctx.ob('stage-contract', f'{meth}/path{n}', False, f'{meth} returns something other than (form, proof, proof)', where)
            n += 1
            continue
        base = {c: b for c, b in p.conds}
        unknown = list(dict.fromkeys(e.value[0] for e in p.events if e.kind == 'setattr' and e.value[1] == 'negated'
                                     and ('attr', e.value[0], 'negated') not in base))
        for assignment in itertools.product([False, True], repeat=len(unknown)):
            conds = dict(base)
            for obj, val in zip(unknown, assignment):
                conds[('attr', obj, 'negated')] = val
            one_case(p, rv, conds, ''.join(f'[{show(o)[-10:]}.negated={v}]' for o, v in zip(unknown, assignment)))
        n += 1
    ctx.analysed[f'{meth} returning paths (contract)'] = n


def literal_encoding(ctx, py: PyRepo):
    """clauses are lists of non-zero integers: to_clauses encodes variable t as t+1 and its negation as -(t+1); id_to_metavar decodes.
    The two are inverse (linear arithmetic on the index expressions), and the signs cannot meet (0 is excluded)."""
    from .c16 import Lin
    from ..core.pyeval import PyEval
    tc = py.method('Tautology', 'to_clauses')
    dec = py.function('tautology', 'id_to_metavar')
    where = py.where('tautology', tc)
    TERM = ('param', tc.args.args[1].arg)
    # encoder: on the paths of the variable case, the single literal of the single clause returned, by polarity of term.negated
    enc = {}
    for p in PyEval().paths(tc):
        if p.end[0] != 'return' or not any(c == ('call', ('name', 'isinstance'), (TERM, ('name', 'CFVar')), ()) and b for c, b in p.conds):
            continue
        rv = p.end[1]
        pols = {b for c, b in p.conds if c == ('attr', TERM, 'negated')}
        if rv[0] == 'tuple' and rv[1] and rv[1][0][0] == 'list' and len(rv[1][0][1]) == 1 and rv[1][0][1][0][0] == 'list' \
                and len(rv[1][0][1][0][1]) == 1 and len(pols) == 1:
            enc.setdefault(next(iter(pols)), set()).add(rv[1][0][1][0][1][0])
    ctx.require(set(enc) == {True, False} and all(len(v) == 1 for v in enc.values()), 'to_clauses: literal numbering of a variable not found')
    enc = {k: next(iter(v)) for k, v in enc.items()}
    # decoder: by sign of the number, the argument of MetaVar in the returned pattern (under neg(..) for negative numbers)
    P = ('param', dec.args.args[0].arg)
    dd = {}
    for p in PyEval().paths(dec):
        if p.end[0] != 'return':
            continue
        neg_pol = [b for c, b in p.conds if c == ('cmp', '<', P, ('const', 0))] + [not b for c, b in p.conds if c == ('cmp', '>=', P, ('const', 0))] \
            + [not b for c, b in p.conds if c == ('cmp', '>', P, ('const', 0))]
        rv = p.end[1]
        negated = rv[0] == 'call' and rv[1] == ('name', 'neg') and len(rv[2]) == 1
        inner = rv[2][0] if negated else rv
        if len(set(neg_pol)) == 1 and inner[0] == 'call' and inner[1] == ('name', 'MetaVar') and len(inner[2]) == 1 and negated == neg_pol[0]:
            dd.setdefault(neg_pol[0], set()).add(inner[2][0])
    ctx.require(set(dd) == {True, False} and all(len(v) == 1 for v in dd.values()), 'id_to_metavar: decoding of a literal not found')
    dd = {k: next(iter(v)) for k, v in dd.items()}

    def lin(v, sub):
        """linear form of a value with the leaves in `sub` replaced"""
        if v in sub:
            return sub[v]
        if v[0] == 'const' and isinstance(v[1], int) and not isinstance(v[1], bool):
            return Lin(v[1])
        if v[0] == 'unop' and v[1] == 'USub':
            return lin(v[2], sub).scale(-1)
        if v[0] == 'binop' and v[1] in ('Add', 'Sub'):
            r = lin(v[3], sub)
            return lin(v[2], sub) + (r if v[1] == 'Add' else r.scale(-1))
        raise ValueError(repr(v)[:80])

    t = Lin(0, {'t': 1})
    for pol in (True, False):
        try:
            code = lin(enc[pol], {('attr', TERM, 'id'): t})
            back = lin(dd[pol], {P: code})
            sign_ok = (code.t.get('t') == -1 and code.c < 0) if pol else (code.t.get('t') == 1 and code.c > 0)
            ctx.ob('literal-encoding', 'negative' if pol else 'positive', back == t and sign_ok,
                   f'variable t{" negated" if pol else ""} is numbered {code} and decoded as variable {back}: the decoding must give t back and '
                   f'{"negative" if pol else "positive"} literals must be {"< 0" if pol else "> 0"} for every t >= 0', where,
                   facts={'code': repr(code), 'decoded': repr(back)})
        except ValueError as ex:
            ctx.require(False, f'literal numbering is not linear: {ex}')


def clauses_stage_contract(ctx, py: PyRepo, max_k: int = 4):
    """to_clauses re-associates with proofs built by a loop over the run-time length of the left operand.  Bounded decision: for
    every length k = 1..max_k of that operand the loop is unrolled in the syntax tree (k - 2 copies of its body, the counter a
    constant) and the unrolled function is typed against the stage contract like the other stages: assuming the recursive calls
    return clause lists with proofs of `T(arg) -> CC(list)` and back, the result is the concatenation with proofs of
    `T(term) -> CC(left + right)` and back (CC = right-nested conjunction of right-nested disjunctions).  Longer operands run the
    same body more often and are not decided."""
    import copy
    from ..core import schema as S
    from ..core.pyeval import PyEval, show
    src_fn = py.method('Tautology', 'to_clauses')
    where = py.where('tautology', src_fn)
    sc = S.SchemaChecker(py, ['Propositional', 'Tautology'])
    N = sc.N
    SELF = ('param', 'self')
    TERM_NAME = src_fn.args.args[1].arg
    TERM = ('param', TERM_NAME)

    def atom(n):
        return ('P', 'Symbol', ('str', '$' + n))

    def foldr(op, xs, tail=None):
        xs = list(xs) + ([tail] if tail is not None else [])
        t = xs[-1]
        for x in reversed(xs[:-1]):
            t = N.apply(op, [x, t])
        return t

    class Unroll(ast.NodeTransformer):
        def __init__(self, k, lens=None, seqlens=None):
            self.k, self.i = k, None
            self.seqlens = dict(seqlens or {})          # local name of a sequence -> its (assumed) length
            # the length variables: locals whose definition is `len(..)` of a recursive result
            self.lens = lens if lens is not None else {
                n.targets[0].id for n in ast.walk(src_fn) if isinstance(n, ast.Assign) and len(n.targets) == 1
                and isinstance(n.targets[0], ast.Name) and isinstance(n.value, ast.Call) and ast.unparse(n.value.func) == 'len'}

        def _int(self, e):
            if isinstance(e, ast.Constant) and isinstance(e.value, int):
                return e.value
            if isinstance(e, ast.Name) and e.id in self.lens:
                return self.k
            if isinstance(e, ast.Call) and isinstance(e.func, ast.Name) and e.func.id == 'len' and len(e.args) == 1 \
                    and isinstance(e.args[0], ast.Name) and e.args[0].id in self.seqlens:
                return self.seqlens[e.args[0].id]
            if isinstance(e, ast.BinOp) and isinstance(e.op, (ast.Add, ast.Sub)):
                a, b = self._int(e.left), self._int(e.right)
                return None if a is None or b is None else (a + b if isinstance(e.op, ast.Add) else a - b)
            return None

        def visit_For(self, node):
            # `for i in range(a, b)` and `for x in map(f, range(a, b))` (x stands for f(i)) with bounds known for this k
            it, wrap = node.iter, None
            if isinstance(it, ast.Call) and ast.unparse(it.func) == 'map' and len(it.args) == 2 and isinstance(it.args[0], (ast.Name, ast.Attribute)):
                wrap, it = it.args[0], it.args[1]
            if isinstance(node.target, ast.Name) and isinstance(it, ast.Call) and ast.unparse(it.func) == 'range':
                bounds = [self._int(a) for a in it.args]
                if bounds and all(b is not None for b in bounds):
                    out = []
                    for j in range(*bounds):
                        self.i = (node.target.id, j, wrap)
                        for st in node.body:
                            out.append(self.visit(copy.deepcopy(st)))
                        self.i = None
                    return out or ast.Pass()
            return self.generic_visit(node)

        def visit_If(self, node):
            t = node.test
            if isinstance(t, ast.Compare) and len(t.ops) == 1:
                a, b = self._int(t.left), self._int(t.comparators[0])
                if a is not None and b is not None and any(isinstance(x, ast.Name) and x.id in self.lens for x in ast.walk(t)):
                    val = {ast.Gt: a > b, ast.GtE: a >= b, ast.Lt: a < b, ast.LtE: a <= b, ast.Eq: a == b, ast.NotEq: a != b}.get(type(t.ops[0]))
                    if val is not None:
                        out = []
                        for st in (node.body if val else node.orelse):
                            r = self.visit(st)
                            out.extend(r if isinstance(r, list) else [r])
                        return out or ast.Pass()
            return self.generic_visit(node)

        def visit_Assert(self, node):
            return ast.Pass()

        def visit_BinOp(self, node):
            node = self.generic_visit(node)
            if isinstance(node.op, (ast.Add, ast.Sub)) and isinstance(node.left, ast.Constant) and isinstance(node.right, ast.Constant) \
                    and isinstance(node.left.value, int) and isinstance(node.right.value, int):
                return ast.Constant(node.left.value + node.right.value if isinstance(node.op, ast.Add) else node.left.value - node.right.value)
            return node

        def visit_Name(self, node):
            if self.i and node.id == self.i[0] and isinstance(node.ctx, ast.Load):
                if len(self.i) > 2 and self.i[2] is not None:
                    return ast.Call(func=copy.deepcopy(self.i[2]), args=[ast.Constant(self.i[1])], keywords=[])
                return ast.Constant(self.i[1])
            return node

    n = 0
    for branch, op in (('CFAnd', '_and'), ('CFOr', '_or')):
        for k in range(1, max_k + 1):
            # the contract's shape assumption for the recursive result on term.left: k clauses (conjunction) / ONE clause of k literals
            left_names = [t.elts[0].id for n in ast.walk(src_fn) if isinstance(n, ast.Assign) and len(n.targets) == 1
                          for t in [n.targets[0]] if isinstance(t, ast.Tuple) and t.elts and isinstance(t.elts[0], ast.Name)
                          and isinstance(n.value, ast.Call) and ast.unparse(n.value.func) == f'self.{src_fn.name}'
                          and n.value.args and ast.unparse(n.value.args[0]).endswith('.left')]
            un = Unroll(k, seqlens={nm: (k if branch == 'CFAnd' else 1) for nm in left_names})
            fn = un.visit(copy.deepcopy(src_fn))
            ast.fix_missing_locations(fn)
            taut = py.cls('Tautology')

            def resolver(call, env, _ev, un=un, k=k):
                """a helper method that receives the length and runs the re-association loop: evaluated in place, its loop unrolled
                for the same k (the parameter bound to a length variable is the constant k inside)"""
                f = call.func
                if not (isinstance(f, ast.Attribute) and isinstance(f.value, ast.Name) and f.value.id == 'self'):
                    return None
                hit = py.find_method(taut, f.attr)
                if hit is None or f.attr == src_fn.name:
                    return None
                h = hit[1]
                if not any(isinstance(x, ast.For) for x in ast.walk(h)):
                    return None
                params = [a.arg for a in h.args.args[1:]]
                lens = {pn for pn, a in zip(params, call.args) if isinstance(a, ast.Name) and a.id in un.lens}
                seql = {pn: un.seqlens[a.id] for pn, a in zip(params, call.args) if isinstance(a, ast.Name) and a.id in un.seqlens}
                if not lens and not seql:
                    return None
                hk = Unroll(k, lens, seql).visit(copy.deepcopy(h))
                ast.fix_missing_locations(hk)
                if any(isinstance(x, (ast.For, ast.While)) for x in ast.walk(hk)):
                    return None
                return hk, SELF
            try:
                paths = [p for p in PyEval(resolver=resolver).paths(fn) if p.end[0] == 'return'
                         and dict(p.conds).get(('call', ('name', 'isinstance'), (TERM, ('name', branch)), ())) is True]
            except Exception as ex:  # noqa: BLE001 - the unrolled tree left the evaluated subset
                ctx.require(False, f'to_clauses unrolled for k={k}: {ex}')
            ctx.require(len(paths) == 1, f'to_clauses/{branch} unrolled for k={k}: expected one returning path, found {len(paths)}')
            rv = paths[0].end[1]
            lst, pf1, pf2 = rv[1]
            recs = {}
            for v in _walk(rv):
                if v[0] == 'call' and v[1] == ('attr', SELF, 'to_clauses') and len(v[2]) == 1 and v[2][0][0] == 'attr' and v[2][0][1] == TERM:
                    recs[v[2][0][2]] = v
            ctx.require(set(recs) == {'left', 'right'}, 'to_clauses: recursive calls on term.left / term.right not found')
            TL, TR = atom('TL'), atom('TR')
            parts = [atom(f'c{i}') for i in range(k)]
            RR = atom('RR')
            if branch == 'CFAnd':
                cc_l, cc_r = foldr('_and', parts), RR                 # k clauses on the left, any non-empty list on the right
                want_list = lst == ('binop', 'Add', ('item', recs['left'], 0), ('item', recs['right'], 0))
            else:
                cc_l, cc_r = foldr('_or', parts), RR                  # one clause of k literals on the left, one clause on the right
                want_list = lst[0] == 'list' and len(lst[1]) == 1 and lst[1][0][0] == 'binop' and lst[1][0][1] == 'Add' \
                    and ('item', recs['left'], 0) in list(_walk(lst[1][0][2])) and ('item', recs['right'], 0) in list(_walk(lst[1][0][3]))
            t_in = N.apply(op, [TL, TR])
            t_out = foldr(op, parts, RR)
            ov = {('item', recs['left'], 1): ('pf', ('P', 'Implies', TL, cc_l)), ('item', recs['left'], 2): ('pf', ('P', 'Implies', cc_l, TL)),
                  ('item', recs['right'], 1): ('pf', ('P', 'Implies', TR, cc_r)), ('item', recs['right'], 2): ('pf', ('P', 'Implies', cc_r, TR))}
            ty = S.Typer(sc, {}, 'to_clauses', 'Tautology')
            ty.overrides = ov
            tag = f'to_clauses/{branch}/k={k}'
            n += 1
            try:
                got1, got2 = ty.pf(pf1), ty.pf(pf2)
                bad = []
                if not want_list:
                    bad.append(f'the list returned is {show(lst)[:80]}, not the concatenation of the two results')
                if got1 != ('P', 'Implies', t_in, t_out):
                    bad.append(f'the first proof concludes {S.tshow(got1)[:300]}, the contract is {S.tshow(("P", "Implies", t_in, t_out))[:300]}')
                if got2 != ('P', 'Implies', t_out, t_in):
                    bad.append(f'the second proof concludes {S.tshow(got2)[:300]}, the contract is {S.tshow(("P", "Implies", t_out, t_in))[:300]}')
                ctx.ob('stage-contract', tag, not bad, f'with {k} {"clause(s)" if branch == "CFAnd" else "literal(s)"} on the left: ' + '; '.join(bad), where)
            except S.Violation as v:
                ctx.ob('stage-contract', tag, False, f'with {k} on the left the re-association does not type-check: {v}', where)
            except S.Decline as d:
                ctx.decline(tag, str(d))
    ctx.analysed['to_clauses unrolled cases'] = n


def cnf_shape(ctx, py: PyRepo):
    """advertised shape of to_cnf, by induction on the recursion: assuming every recursive call returns a term in CNF, every return
    does.  Shapes: LIT (variable) < CLAUSE (tree of ORs over literals) < CNF ; AND = CNF whose root is a conjunction.  A CNF term whose
    root is tested not to be a conjunction is a CLAUSE."""
    from ..core.pyeval import PyEval, show
    fn = py.method('Tautology', 'to_cnf')
    where = py.where('tautology', fn)
    SELF = ('param', 'self')
    TERM = ('param', fn.args.args[1].arg)
    LE_CLAUSE = {'LIT', 'CLAUSE'}
    LE_CNF = {'LIT', 'CLAUSE', 'AND', 'CNF'}

    def shape(v, conds):
        facts = {c: b for c, b in conds}

        def isinst(x, cls):
            return facts.get(('call', ('name', 'isinstance'), (x, ('name', cls)), ()))

        if v == TERM:
            return 'LIT' if isinst(v, 'CFVar') else 'ANY'
        if v[0] == 'item' and v[2] == 0 and v[1][0] == 'call' and v[1][1] == ('attr', SELF, 'to_cnf'):
            a = isinst(v, 'CFAnd')
            return 'AND' if a is True else ('CLAUSE' if a is False else 'CNF')
        if v[0] == 'attr' and v[2] in ('left', 'right'):
            base = shape(v[1], conds)
            return {'AND': 'CNF', 'CLAUSE': 'CLAUSE'}.get(base, 'ANY')
        if v[0] == 'call' and v[1] == ('name', 'CFAnd') and len(v[2]) == 2:
            return 'AND' if all(shape(x, conds) in LE_CNF for x in v[2]) else 'ANY'
        if v[0] == 'call' and v[1] == ('name', 'CFOr') and len(v[2]) == 2:
            return 'CLAUSE' if all(shape(x, conds) in LE_CLAUSE for x in v[2]) else 'ANY'
        return 'ANY'

    n = 0
    for p in PyEval().paths(fn):
        if p.end[0] != 'return':
            continue
        v = p.end[1]
        if not (v[0] == 'tuple' and len(v[1]) == 3):
            ctx.ob('cnf-shape', f'return{n}', False, 'to_cnf returns something other than (term, proof, proof)', where)
            n += 1
            continue
        sh = shape(v[1][0], p.conds)
        ctx.ob('cnf-shape', f'return{n}:{show(v[1][0])[:50]}', sh in LE_CNF,
               f'to_cnf returns {show(v[1][0])[:90]}, which is not guaranteed to be in conjunctive normal form: a disjunction may keep a '
               f'conjunction below it (only a term whose root was tested not to be a conjunction is a clause; distributing once is not '
               f'enough when the conjunct has more than two members)', where, facts={'shape': sh})
        n += 1
        # the recursive calls of a distribution branch must be on the distributed term
    ctx.analysed['to_cnf returning paths'] = n


def fold_direction(ctx, py: PyRepo):
    """the conjunction of trivial-clause proofs must be nested like clause_conjunctionto_pattern nests the clauses (a right fold): an
    accumulator started on the last two and extended by PREPENDING must walk the remaining prefix from right to left"""
    import ast as _ast
    fn = py.method('Tautology', 'start_resolution_algorithm')
    where = py.where('tautology', fn)
    tgt = py.function('tautology', 'clause_conjunctionto_pattern')
    right_nested = any(isinstance(n, _ast.Call) and isinstance(n.func, _ast.Name) and n.func.id == 'foldr_op' for n in _ast.walk(tgt))
    left_nested = any(isinstance(n, _ast.Call) and isinstance(n.func, _ast.Name) and n.func.id == 'foldl_op' for n in _ast.walk(tgt))
    ctx.require(right_nested != left_nested, 'clause_conjunctionto_pattern: cannot tell how the conjunction is nested')
    # a fold, in either spelling: (the element is the FIRST argument of and_intro, iterable, text of the initial accumulator, label, text)
    folds = []
    for lp in [n for n in _ast.walk(fn) if isinstance(n, _ast.For) and isinstance(n.target, _ast.Name)]:
        x = lp.target.id
        for st in lp.body:
            if isinstance(st, _ast.Assign) and isinstance(st.targets[0], _ast.Name) and isinstance(st.value, _ast.Call) \
                    and _ast.unparse(st.value.func) == 'self.and_intro' and len(st.value.args) == 2:
                acc = st.targets[0].id
                a0, a1 = _ast.unparse(st.value.args[0]), _ast.unparse(st.value.args[1])
                if {a0, a1} != {x, acc}:
                    continue
                inits = [n for n in _ast.walk(fn) if isinstance(n, _ast.Assign) and isinstance(n.targets[0], _ast.Name) and n.targets[0].id == acc
                         and n.lineno < lp.lineno]
                folds.append((a0 == x, lp.iter, _ast.unparse(inits[-1].value) if inits else '', acc, _ast.unparse(st)))
    for c in [n for n in _ast.walk(fn) if isinstance(n, _ast.Call) and _ast.unparse(n.func) in ('reduce', 'functools.reduce') and len(n.args) == 3]:
        lam = c.args[0]
        if isinstance(lam, _ast.Lambda) and len(lam.args.args) == 2 and isinstance(lam.body, _ast.Call) \
                and _ast.unparse(lam.body.func) == 'self.and_intro' and len(lam.body.args) == 2:
            acc, x = lam.args.args[0].arg, lam.args.args[1].arg                  # reduce(f, xs, init): f(accumulator, element)
            a0, a1 = _ast.unparse(lam.body.args[0]), _ast.unparse(lam.body.args[1])
            if {a0, a1} == {x, acc}:
                folds.append((a0 == x, c.args[1], _ast.unparse(c.args[2]), 'reduce', _ast.unparse(lam)))
    found = len(folds)
    for prepend, it, init, acc, step_txt in folds:
        rev = isinstance(it, _ast.Call) and isinstance(it.func, _ast.Name) and it.func.id == 'reversed'
        seq = it.args[0] if rev else it
        sl = _ast.unparse(seq.slice) if isinstance(seq, _ast.Subscript) else None
        base = _ast.unparse(seq.value) if isinstance(seq, _ast.Subscript) else _ast.unparse(seq)
        if right_nested:
            ok = prepend and rev and sl == ':-2' and init == f'self.and_intro({base}[-2], {base}[-1])'
            want = f'start from and_intro({base}[-2], {base}[-1]) and prepend the elements of reversed({base}[:-2])'
        else:
            ok = (not prepend) and (not rev) and sl == '2:' and init == f'self.and_intro({base}[0], {base}[1])'
            want = f'start from and_intro({base}[0], {base}[1]) and append the elements of {base}[2:]'
        ctx.ob('fold-direction', f'start_resolution_algorithm/{acc}', ok,
               f'the proofs are combined as `{step_txt}` over `{_ast.unparse(it)}` starting from `{init}`; to prove the clauses '
               f'conjoined in the order clause_conjunctionto_pattern nests them the loop must {want} - with four or more clauses the '
               f'conclusion is a reordered conjunction', where)
    ctx.require(found >= 1, 'start_resolution_algorithm: the fold over the trivial-clause proofs was not found')


def trivial_clause_definition(ctx, py: PyRepo):
    """a clause is trivial exactly when it contains a literal together with its complement (then it is a tautology by itself and
    is left out of the resolution); a clause wrongly classed as trivial is dropped and the prover declines or mis-answers.
    Accepted spellings: a scan over all PAIRS of the clause (`combinations(.., 2)`, by loop or any()) for `x + y == 0` / `x == -y`;
    `any(-x in cl for x in cl)`; and the cardinality idiom `len({abs(x) for x in cl}) < len(cl)` ONLY on a parameter declared as a
    set and called with sets - on a clause list a repeated literal ([1, 1]) has fewer variables than literals without being trivial."""
    import ast as _ast
    from ..core.ordertaint import OrderAnalysis, ann_set_elem
    fn = py.method('Tautology', 'is_trivial_clause')
    where = py.where('tautology', fn)
    ctx.require(len(fn.args.args) == 2, 'is_trivial_clause: signature changed')
    CL = fn.args.args[1].arg
    src = _ast.unparse(fn)
    pair_scan = any(isinstance(n, _ast.Call) and _ast.unparse(n.func).endswith('combinations') and len(n.args) == 2
                    and isinstance(n.args[1], _ast.Constant) and n.args[1].value == 2
                    and any(isinstance(x, _ast.Name) and x.id == CL for x in _ast.walk(n.args[0])) for n in _ast.walk(fn))
    complement_test = any(isinstance(n, _ast.Compare) and len(n.ops) == 1 and isinstance(n.ops[0], _ast.Eq) and (
        (isinstance(n.left, _ast.BinOp) and isinstance(n.left.op, _ast.Add) and isinstance(n.comparators[0], _ast.Constant) and n.comparators[0].value == 0)
        or isinstance(n.left, _ast.UnaryOp) and isinstance(n.left.op, _ast.USub) or isinstance(n.comparators[0], _ast.UnaryOp)
        and isinstance(n.comparators[0].op, _ast.USub)) for n in _ast.walk(fn))
    member_scan = any(isinstance(n, _ast.Compare) and len(n.ops) == 1 and isinstance(n.ops[0], _ast.In) and isinstance(n.left, _ast.UnaryOp)
                      and isinstance(n.left.op, _ast.USub) and _ast.unparse(n.comparators[0]) == CL for n in _ast.walk(fn))
    cardinality = any(isinstance(n, _ast.Compare) and len(n.ops) == 1 and isinstance(n.ops[0], (_ast.Lt, _ast.NotEq, _ast.Gt))
                      and 'abs(' in _ast.unparse(n) and f'len({CL})' in _ast.unparse(n) for n in _ast.walk(fn))
    if (pair_scan and complement_test) or member_scan:
        ctx.ob('trivial-clause', 'definition', True, 'complementary pair scan', where)
        return
    if cardinality:
        ann = _ast.unparse(fn.args.args[1].annotation) if fn.args.args[1].annotation is not None else ''
        is_set = ann_set_elem(ann) is not None
        oa = OrderAnalysis(py)
        bad_sites = []
        for mname, qn, g, ci in py.all_functions():
            if mname != 'tautology':
                continue
            env = oa.local_env(g, ci)
            for c in _ast.walk(g):
                if isinstance(c, _ast.Call) and isinstance(c.func, _ast.Attribute) and c.func.attr == fn.name and len(c.args) == 1:
                    if oa.set_elem(c.args[0], env, ci) is None:
                        bad_sites.append(f'{qn}: {_ast.unparse(c)[:50]}')
        ctx.ob('trivial-clause', 'definition', is_set and not bad_sites,
               f'is_trivial_clause compares the number of variables with the number of literals (`{src.splitlines()[-1].strip()[:70]}`): that '
               f'is "contains a complementary pair" only for duplicate-free clauses, but the parameter is declared `{ann}` and is called with '
               f'{bad_sites or "sets"}: a clause list with a repeated literal such as [1, 1] is classed as trivial and dropped from the '
               f'resolution', where)
        return
    ctx.require(False, f'is_trivial_clause: unrecognised definition `{src.splitlines()[-1].strip()[:80]}`')


def run(ctx):
    py = PyRepo.get()
    trivial_clause_definition(ctx, py)
    glue_polarity(ctx, py)
    # the stages are typed against the documented schemas of the lemmas they call: those schemas must be what the lemmas prove
    from .c10 import lemma_schemas
    lemma_schemas(ctx, py)
    conj_form_contract(ctx, py)
    resolution_contract(ctx, py)
    resolvable_contract(ctx, py)
    form_stage_contract(ctx, py, 'propag_neg')
    form_stage_contract(ctx, py, 'to_cnf')
    literal_encoding(ctx, py)
    clauses_stage_contract(ctx, py, max_k=8 if ctx.tier == 'thorough' else 4)
    cnf_shape(ctx, py)
    fold_direction(ctx, py)
    ctx.floor('cnf-shape', 5)
    # a stage whose proofs could not be typed is undecided (it was typed on the reference tree): never a silent pass
    if ctx.declined and not any(not o['ok'] for o in ctx.obligations):
        ctx.require(False, f'{len(ctx.declined)} stage contract(s) left the analysed subset: ' + '; '.join(f"{d['name']}: {d['reason']}" for d in ctx.declined[:3]))
    ctx.floor('fold-direction', 1)
    ctx.floor('glue-polarity', 4)
    ctx.floor('stage-contract', 28)
    ctx.floor('lemma-schema', 75)
    ctx.floor('literal-encoding', 2)
    fn = py.method('Tautology', 'resolution_algorithm')
    where = py.where('tautology', fn)
    outers = [n for n in fn.body if isinstance(n, ast.For)]
    ctx.require(len(outers) >= 1, 'resolution_algorithm has no saturation loop')
    n_loops = 0
    for outer in outers:
        inners = [n for n in ast.walk(outer) if isinstance(n, ast.For) and n is not outer]
        for inner in inners:
            n_loops += 1
            o_t = names_stored(outer.target)
            i_t = names_stored(inner.target)
            same_list = ast.unparse(outer.iter) == ast.unparse(inner.iter)
            ctx.ob('pair-enumeration', 'same-collection', same_list,
                   f'the inner loop ranges over {ast.unparse(inner.iter)} while the outer ranges over {ast.unparse(outer.iter)}: '
                   f'pairs with later clauses are never formed', py.where('tautology', inner))
            # the early exit compares the two loop elements
            guard = None
            for st in inner.body:
                if isinstance(st, ast.If) and isinstance(st.test, ast.Compare) and len(st.test.ops) == 1 \
                        and isinstance(st.test.ops[0], (ast.Eq, ast.Is)) and st.body and isinstance(st.body[0], (ast.Break, ast.Continue)):
                    sides = {ast.unparse(st.test.left), ast.unparse(st.test.comparators[0])}
                    if sides & o_t and sides & i_t:
                        guard = st
            ctx.ob('pair-enumeration', 'diagonal-guard', guard is not None,
                   'the inner loop has no `if <inner element> == <outer element>: break` guard: the enumeration of pairs is not the '
                   'triangular one the saturation relies on', py.where('tautology', inner))
            # no store to the outer element reaches a later read inside the inner loop
            stores = list(find_stores(inner.body, o_t, []))
            if not stores:
                ctx.ob('pair-enumeration', 'outer-element-stable', True, '', py.where('tautology', inner),
                       facts={'outer target': sorted(o_t), 'stores in inner loop': 0})
            for nm, st, path in stores:
                why = store_reaches_read(path, nm, inner.body)
                ctx.ob('pair-enumeration', f'outer-element-stable/{nm}@{ast.unparse(st)[:40]}', why is None,
                       f'`{ast.unparse(st)}` rebinds the outer loop element `{nm}` inside the inner loop and {why}: after it the early '
                       f'`break` compares against the wrong clause and pairs are skipped (completeness of resolution is lost)',
                       py.where('tautology', st))
            # new resolvents join the collection being saturated
            appended = any(isinstance(n, ast.Call) and isinstance(n.func, ast.Attribute) and n.func.attr == 'append'
                           and ast.unparse(n.func.value) == ast.unparse(outer.iter) for n in ast.walk(inner))
            ctx.ob('pair-enumeration', 'resolvents-rejoin', appended,
                   'new resolvents are not appended to the collection being saturated, so they are never resolved further',
                   py.where('tautology', inner))
    ctx.floor('pair-enumeration', 4)
    ctx.analysed['saturation loops'] = n_loops
    ctx.explanation = (
        'Two structural clauses. (1) The glue of prove_tautology, type-checked like a lemma under the contracts of the stages (each stage '
        'returns a term with proofs of both implications; the resolution stage a flagged proof of the clause conjunction or its negation): '
        'on every path the returned proof concludes literally the pattern when the flag is True and its negation when False. (2) A '
        'necessary clause of completeness of the resolution stage: the nested saturation loop forms every pair - both loops range over '
        'the same growing list, the inner loop stops at the diagonal, new resolvents rejoin the list, and no assignment inside the inner '
        'loop rebinds the outer loop element on a path that reads it again (def-use over the nested loop; a rebinding followed by break or '
        'after the last read is spared). The stage lemmas the prover composes are schema-checked under C10. Equivalence of the normal '
        'forms, proof reconstruction and "declines only when contingent" are data-dependent recursion and are not decided.')
    ctx.assumptions = ['python ast']
