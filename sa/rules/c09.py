"""C09 - the tautology prover: one necessary clause of completeness - the saturation loop enumerates every pair."""
from __future__ import annotations

import ast

from ..core.pyfacts import PyRepo

LEVEL = 'other'


def names_stored(node) -> set[str]:
    out = set()
    for n in ast.walk(node):
        if isinstance(n, ast.Name) and isinstance(n.ctx, (ast.Store, ast.Del)):
            out.add(n.id)
    return out


def reads(node, name: str) -> bool:
    return any(isinstance(n, ast.Name) and n.id == name and isinstance(n.ctx, ast.Load) for n in ast.walk(node))


def store_reaches_read(path: list[tuple[list, int]], name: str, inner_body: list) -> str | None:
    """path: [(block, index of the statement containing the store)] from the inner loop body down to the storing statement.
    -> description of how the clobbered value is read again, or None if every continuation leaves the inner loop first."""
    # walk outwards: after the storing statement in its block, then after the enclosing statement in the parent block, ...
    for block, idx in reversed(path):
        for st in block[idx + 1:]:
            if isinstance(st, (ast.Break, ast.Return, ast.Raise)):
                return None
            if isinstance(st, ast.Continue):
                return f'`continue` at line {st.lineno} starts the next inner iteration, whose guard reads `{name}`'
            if reads(st, name):
                return f'line {st.lineno} reads `{name}` after it was rebound'
            # a compound statement that always leaves the loop
            if isinstance(st, ast.If) and _always_leaves(st.body) and _always_leaves(st.orelse):
                return None
    # fell off the end of the inner loop body: the next inner iteration runs
    if any(reads(st, name) for st in inner_body):
        return f'the next iteration of the inner loop reads `{name}` (the rebound value replaces the outer loop element)'
    return None


def _always_leaves(stmts) -> bool:
    if not stmts:
        return False
    last = stmts[-1]
    if isinstance(last, (ast.Break, ast.Return, ast.Raise)):
        return True
    if isinstance(last, ast.If):
        return _always_leaves(last.body) and _always_leaves(last.orelse)
    return False


def find_stores(block: list, targets: set[str], path: list):
    """yield (name, node, path) for every statement (not nested loop targets) that rebinds an outer-loop target"""
    for i, st in enumerate(block):
        here = path + [(block, i)]
        if isinstance(st, (ast.Assign, ast.AugAssign, ast.AnnAssign)):
            tg = st.targets if isinstance(st, ast.Assign) else [st.target]
            for t in tg:
                for nm in names_stored(t) & targets:
                    yield nm, st, here
        elif isinstance(st, ast.Expr):
            for n in ast.walk(st):
                if isinstance(n, ast.NamedExpr) and n.target.id in targets:
                    yield n.target.id, st, here
        elif isinstance(st, ast.If):
            for n in ast.walk(st.test):
                if isinstance(n, ast.NamedExpr) and n.target.id in targets:
                    yield n.target.id, st, here
            yield from find_stores(st.body, targets, here)
            yield from find_stores(st.orelse, targets, here)
        elif isinstance(st, (ast.For, ast.While)):
            if isinstance(st, ast.For):
                for nm in names_stored(st.target) & targets:
                    yield nm, st, here
            yield from find_stores(st.body, targets, here)
        elif isinstance(st, ast.With):
            for it in st.items:
                if it.optional_vars is not None:
                    for nm in names_stored(it.optional_vars) & targets:
                        yield nm, st, here
            yield from find_stores(st.body, targets, here)
        elif isinstance(st, ast.Try):
            for blk in (st.body, st.orelse, st.finalbody):
                yield from find_stores(blk, targets, here)
            for h in st.handlers:
                yield from find_stores(h.body, targets, here)


def glue_polarity(ctx, py: PyRepo):
    """prove_tautology returns (True, proof of pat) or (False, proof of ~pat) on every path, given the contracts of the stages
    (each stage returns a term with proofs of both implications; the resolution stage returns a proof of the clause
    conjunction or of its negation, flagged) - the glue is type-checked like a lemma."""
    from ..core import schema as S
    from ..core.pyeval import PyEval
    fn = py.method('Tautology', 'prove_tautology')
    where = py.where('tautology', fn)
    sc = S.SchemaChecker(py, ['Propositional', 'Tautology'])
    SELF = ('param', 'self')
    PAT = ('P', 'Symbol', ('str', '$pat'))
    N = sc.N

    def neg(t):
        return N.apply('neg', [t])

    def atom(n):
        return ('P', 'Symbol', ('str', '$' + n))

    def IMP(a, b):
        return ('P', 'Implies', a, b)

    X0 = neg(PAT)
    T1, T2, T3, T4 = atom('T1'), atom('T2'), atom('T3'), atom('T4')
    conj = ('call', ('attr', SELF, 'to_conj_form'), (('call', ('name', 'neg'), (('param', 'pat'),), ()),), ())
    pn = ('call', ('attr', SELF, 'propag_neg'), (('item', conj, 0),), ())
    cnf = ('call', ('attr', SELF, 'to_cnf'), (('item', pn, 0),), ())
    cls = ('call', ('attr', SELF, 'to_clauses'), (('item', cnf, 0),), ())
    res = ('call', ('attr', SELF, 'start_resolution_algorithm'), (('item', cls, 0),), ())
    n = 0
    for p in PyEval().paths(fn):
        if p.end[0] != 'return' or p.end[1] == ('const', None):
            continue
        rv = p.end[1]
        if not (rv[0] == 'tuple' and len(rv[1]) == 2 and rv[1][0][0] == 'const' and isinstance(rv[1][0][1], bool)):
            ctx.ob('glue-polarity', f'path{n}', False, 'prove_tautology returns something other than (bool, proof)', where)
            n += 1
            continue
        flag, pfv = rv[1][0][1], rv[1][1]
        conds = {c: b for c, b in p.conds}
        is_bot = conds.get(('call', ('name', 'isinstance'), (('item', conj, 0), ('name', 'CFBot')), ()))
        negated = conds.get(('attr', ('item', conj, 0), 'negated'))
        proved_true = conds.get(('item', res, 0))
        ov = {}
        if is_bot:
            # "when the new term is Top or Bottom, the first proof is a proof of the input (Top) or of its negation (Bottom)"
            ov[('item', conj, 1)] = ('pf', X0 if negated else neg(X0))
        else:
            ov[('item', conj, 1)] = ('pf', IMP(X0, T1))
            ov[('item', conj, 2)] = ('pf', IMP(T1, X0))
        ov[('item', pn, 1)], ov[('item', pn, 2)] = ('pf', IMP(T1, T2)), ('pf', IMP(T2, T1))
        ov[('item', cnf, 1)], ov[('item', cnf, 2)] = ('pf', IMP(T2, T3)), ('pf', IMP(T3, T2))
        ov[('item', cls, 1)], ov[('item', cls, 2)] = ('pf', IMP(T3, T4)), ('pf', IMP(T4, T3))
        ov[('item', res, 1)] = ('pf', T4 if proved_true else neg(T4))
        ty = S.Typer(sc, {'pat': ('pat', PAT)}, 'prove_tautology', 'Tautology')
        ty.overrides = ov
        tag = f'{"bot" if is_bot else "general"}/{"negated" if negated else ""}{"clauses-proved" if proved_true else ""}'.rstrip('/') + f'->{flag}'
        try:
            got = ty.pf(pfv)
            want = PAT if flag else neg(PAT)
            ctx.ob('glue-polarity', tag, got == want,
                   f'prove_tautology returns ({flag}, proof of {S.tshow(got)}); with flag {flag} the proof must conclude '
                   f'{"the pattern" if flag else "the negated pattern"} {S.tshow(want)}', where, facts={'proves': S.tshow(got)})
        except S.Violation as v:
            ctx.ob('glue-polarity', tag, False, f'the glue does not type-check under the stage contracts: {v}', where)
        except S.Decline as d:
            ctx.require(False, f'prove_tautology: glue outside the analysed subset: {d}')
        n += 1


def cnf_shape(ctx, py: PyRepo):
    """advertised shape of to_cnf, by induction on the recursion: assuming every recursive call returns a term in CNF, every return
    does.  Shapes: LIT (variable) < CLAUSE (tree of ORs over literals) < CNF ; AND = CNF whose root is a conjunction.  A CNF term whose
    root is tested not to be a conjunction is a CLAUSE."""
    from ..core.pyeval import PyEval, show
    fn = py.method('Tautology', 'to_cnf')
    where = py.where('tautology', fn)
    SELF = ('param', 'self')
    TERM = ('param', fn.args.args[1].arg)
    LE_CLAUSE = {'LIT', 'CLAUSE'}
    LE_CNF = {'LIT', 'CLAUSE', 'AND', 'CNF'}

    def shape(v, conds):
        facts = {c: b for c, b in conds}

        def isinst(x, cls):
            return facts.get(('call', ('name', 'isinstance'), (x, ('name', cls)), ()))

        if v == TERM:
            return 'LIT' if isinst(v, 'CFVar') else 'ANY'
        if v[0] == 'item' and v[2] == 0 and v[1][0] == 'call' and v[1][1] == ('attr', SELF, 'to_cnf'):
            a = isinst(v, 'CFAnd')
            return 'AND' if a is True else ('CLAUSE' if a is False else 'CNF')
        if v[0] == 'attr' and v[2] in ('left', 'right'):
            base = shape(v[1], conds)
            return {'AND': 'CNF', 'CLAUSE': 'CLAUSE'}.get(base, 'ANY')
        if v[0] == 'call' and v[1] == ('name', 'CFAnd') and len(v[2]) == 2:
            return 'AND' if all(shape(x, conds) in LE_CNF for x in v[2]) else 'ANY'
        if v[0] == 'call' and v[1] == ('name', 'CFOr') and len(v[2]) == 2:
            return 'CLAUSE' if all(shape(x, conds) in LE_CLAUSE for x in v[2]) else 'ANY'
        return 'ANY'

    n = 0
    for p in PyEval().paths(fn):
        if p.end[0] != 'return':
            continue
        v = p.end[1]
        if not (v[0] == 'tuple' and len(v[1]) == 3):
            ctx.ob('cnf-shape', f'return{n}', False, 'to_cnf returns something other than (term, proof, proof)', where)
            n += 1
            continue
        sh = shape(v[1][0], p.conds)
        ctx.ob('cnf-shape', f'return{n}:{show(v[1][0])[:50]}', sh in LE_CNF,
               f'to_cnf returns {show(v[1][0])[:90]}, which is not guaranteed to be in conjunctive normal form: a disjunction may keep a '
               f'conjunction below it (only a term whose root was tested not to be a conjunction is a clause; distributing once is not '
               f'enough when the conjunct has more than two members)', where, facts={'shape': sh})
        n += 1
        # the recursive calls of a distribution branch must be on the distributed term
    ctx.analysed['to_cnf returning paths'] = n


def fold_direction(ctx, py: PyRepo):
    """the conjunction of trivial-clause proofs must be nested like clause_conjunctionto_pattern nests the clauses (a right fold): an
    accumulator started on the last two and extended by PREPENDING must walk the remaining prefix from right to left"""
    import ast as _ast
    fn = py.method('Tautology', 'start_resolution_algorithm')
    where = py.where('tautology', fn)
    tgt = py.function('tautology', 'clause_conjunctionto_pattern')
    right_nested = any(isinstance(n, _ast.Call) and isinstance(n.func, _ast.Name) and n.func.id == 'foldr_op' for n in _ast.walk(tgt))
    left_nested = any(isinstance(n, _ast.Call) and isinstance(n.func, _ast.Name) and n.func.id == 'foldl_op' for n in _ast.walk(tgt))
    ctx.require(right_nested != left_nested, 'clause_conjunctionto_pattern: cannot tell how the conjunction is nested')
    loops = [n for n in _ast.walk(fn) if isinstance(n, _ast.For) and isinstance(n.target, _ast.Name)]
    found = 0
    for lp in loops:
        x = lp.target.id
        for st in lp.body:
            if isinstance(st, _ast.Assign) and isinstance(st.targets[0], _ast.Name) and isinstance(st.value, _ast.Call) \
                    and _ast.unparse(st.value.func) == 'self.and_intro' and len(st.value.args) == 2:
                acc = st.targets[0].id
                a0, a1 = _ast.unparse(st.value.args[0]), _ast.unparse(st.value.args[1])
                if {a0, a1} != {x, acc}:
                    continue
                found += 1
                prepend = a0 == x
                it = lp.iter
                rev = isinstance(it, _ast.Call) and isinstance(it.func, _ast.Name) and it.func.id == 'reversed'
                seq = it.args[0] if rev else it
                sl = _ast.unparse(seq.slice) if isinstance(seq, _ast.Subscript) else None
                inits = [n for n in _ast.walk(fn) if isinstance(n, _ast.Assign) and isinstance(n.targets[0], _ast.Name) and n.targets[0].id == acc
                         and n.lineno < lp.lineno]
                init = _ast.unparse(inits[-1].value) if inits else ''
                base = _ast.unparse(seq.value) if isinstance(seq, _ast.Subscript) else _ast.unparse(seq)
                if right_nested:
                    ok = prepend and rev and sl == ':-2' and init == f'self.and_intro({base}[-2], {base}[-1])'
                    want = f'start from and_intro({base}[-2], {base}[-1]) and prepend the elements of reversed({base}[:-2])'
                else:
                    ok = (not prepend) and (not rev) and sl == '2:' and init == f'self.and_intro({base}[0], {base}[1])'
                    want = f'start from and_intro({base}[0], {base}[1]) and append the elements of {base}[2:]'
                ctx.ob('fold-direction', f'start_resolution_algorithm/{acc}', ok,
                       f'the proofs are combined as `{_ast.unparse(st)}` over `{_ast.unparse(it)}` starting from `{init}`; to prove the clauses '
                       f'conjoined in the order clause_conjunctionto_pattern nests them the loop must {want} - with four or more clauses the '
                       f'conclusion is a reordered conjunction', where)
    ctx.require(found >= 1, 'start_resolution_algorithm: the fold over the trivial-clause proofs was not found')


def run(ctx):
    py = PyRepo.get()
    glue_polarity(ctx, py)
    cnf_shape(ctx, py)
    fold_direction(ctx, py)
    ctx.floor('cnf-shape', 5)
    ctx.floor('fold-direction', 1)
    ctx.floor('glue-polarity', 4)
    fn = py.method('Tautology', 'resolution_algorithm')
    where = py.where('tautology', fn)
    outers = [n for n in fn.body if isinstance(n, ast.For)]
    ctx.require(len(outers) >= 1, 'resolution_algorithm has no saturation loop')
    n_loops = 0
    for outer in outers:
        inners = [n for n in ast.walk(outer) if isinstance(n, ast.For) and n is not outer]
        for inner in inners:
            n_loops += 1
            o_t = names_stored(outer.target)
            i_t = names_stored(inner.target)
            same_list = ast.unparse(outer.iter) == ast.unparse(inner.iter)
            ctx.ob('pair-enumeration', 'same-collection', same_list,
                   f'the inner loop ranges over {ast.unparse(inner.iter)} while the outer ranges over {ast.unparse(outer.iter)}: '
                   f'pairs with later clauses are never formed', py.where('tautology', inner))
            # the early exit compares the two loop elements
            guard = None
            for st in inner.body:
                if isinstance(st, ast.If) and isinstance(st.test, ast.Compare) and len(st.test.ops) == 1 \
                        and isinstance(st.test.ops[0], (ast.Eq, ast.Is)) and st.body and isinstance(st.body[0], (ast.Break, ast.Continue)):
                    sides = {ast.unparse(st.test.left), ast.unparse(st.test.comparators[0])}
                    if sides & o_t and sides & i_t:
                        guard = st
            ctx.ob('pair-enumeration', 'diagonal-guard', guard is not None,
                   'the inner loop has no `if <inner element> == <outer element>: break` guard: the enumeration of pairs is not the '
                   'triangular one the saturation relies on', py.where('tautology', inner))
            # no store to the outer element reaches a later read inside the inner loop
            stores = list(find_stores(inner.body, o_t, []))
            if not stores:
                ctx.ob('pair-enumeration', 'outer-element-stable', True, '', py.where('tautology', inner),
                       facts={'outer target': sorted(o_t), 'stores in inner loop': 0})
            for nm, st, path in stores:
                why = store_reaches_read(path, nm, inner.body)
                ctx.ob('pair-enumeration', f'outer-element-stable/{nm}@{ast.unparse(st)[:40]}', why is None,
                       f'`{ast.unparse(st)}` rebinds the outer loop element `{nm}` inside the inner loop and {why}: after it the early '
                       f'`break` compares against the wrong clause and pairs are skipped (completeness of resolution is lost)',
                       py.where('tautology', st))
            # new resolvents join the collection being saturated
            appended = any(isinstance(n, ast.Call) and isinstance(n.func, ast.Attribute) and n.func.attr == 'append'
                           and ast.unparse(n.func.value) == ast.unparse(outer.iter) for n in ast.walk(inner))
            ctx.ob('pair-enumeration', 'resolvents-rejoin', appended,
                   'new resolvents are not appended to the collection being saturated, so they are never resolved further',
                   py.where('tautology', inner))
    ctx.floor('pair-enumeration', 4)
    ctx.analysed['saturation loops'] = n_loops
    ctx.explanation = (
        'Two structural clauses. (1) The glue of prove_tautology, type-checked like a lemma under the contracts of the stages (each stage '
        'returns a term with proofs of both implications; the resolution stage a flagged proof of the clause conjunction or its negation): '
        'on every path the returned proof concludes literally the pattern when the flag is True and its negation when False. (2) A '
        'necessary clause of completeness of the resolution stage: the nested saturation loop forms every pair - both loops range over '
        'the same growing list, the inner loop stops at the diagonal, new resolvents rejoin the list, and no assignment inside the inner '
        'loop rebinds the outer loop element on a path that reads it again (def-use over the nested loop; a rebinding followed by break or '
        'after the last read is spared). The stage lemmas the prover composes are schema-checked under C10. Equivalence of the normal '
        'forms, proof reconstruction and "declines only when contingent" are data-dependent recursion and are not decided.')
    ctx.assumptions = ['python ast']
