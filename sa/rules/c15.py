"""C15 - Metamath compressed proofs: the digit tables are the specified bijections; mandatory hypotheses are numbered
from a database-ordered source (two structural clauses)."""
from __future__ import annotations

import ast
import re

from ..core.ordertaint import OrderAnalysis
from ..core.pyfacts import PyRepo
from ..core.report import AnalysisError

LEVEL = 'other'
ORDERED_ATTR = '_floating_patterns'       # list of `$f #Pattern x` variables, appended in database order
IN_ORDER_HELPERS = {'get_metavars_in_order'}


MODULE = 'metamath.converter.converter'


def _tab(e):
    """the name a digit table is known by at a subscript: a plain name, or `self.<attr>` (a table kept on an object)"""
    if isinstance(e, ast.Name):
        return e.id
    if isinstance(e, ast.Attribute) and isinstance(e.value, ast.Name) and e.value.id == 'self':
        return f'self.{e.attr}'
    return None


def find_tables(py: PyRepo, fn: ast.FunctionDef):
    """letter -> small-int tables visible to the decoder: constant dicts (literal, comprehension over an alphabet, dict(zip(..)))
    assigned to a name in _import_proof or at module level; identified by content shape, not by name"""
    from ..core.constfold import dict_pairs
    found = {}
    tree = py.modules[MODULE].tree
    cands = [n for n in tree.body if isinstance(n, (ast.Assign, ast.AnnAssign))] + [n for n in ast.walk(fn) if isinstance(n, (ast.Assign, ast.AnnAssign))]
    cands += [n for c in py.modules[MODULE].classes.values() for g in c.methods.values() if g is not fn
              for n in ast.walk(g) if isinstance(n, (ast.Assign, ast.AnnAssign))]
    for node in cands:
        tgt = node.targets[0] if isinstance(node, ast.Assign) else node.target
        if _tab(tgt) is None or node.value is None:
            continue
        pairs = dict_pairs(node.value)
        if pairs and all(isinstance(k, str) and len(k) == 1 and isinstance(x, int) and not isinstance(x, bool) for k, x in pairs):
            found[_tab(tgt)] = (pairs, node)
    return found


def find_decoder(py: PyRepo, fn: ast.FunctionDef, table_names):
    """the function that turns one word into a number: nested in _import_proof or at module level, it subscripts the digit tables"""
    tree = py.modules[MODULE].tree
    cands = [n for n in ast.walk(fn) if isinstance(n, ast.FunctionDef) and n is not fn] + [n for n in tree.body if isinstance(n, ast.FunctionDef)]
    cands += [g for c in py.modules[MODULE].classes.values() for g in c.methods.values() if g is not fn and g.name != fn.name and g not in cands]
    out = []
    for g in cands:
        used = {_tab(n.value) for n in ast.walk(g) if isinstance(n, ast.Subscript) and _tab(n.value) in table_names
                and isinstance(n.ctx, ast.Load)}
        if len(used) >= 2:
            out.append(g)
    return out


class InlineDecoder:
    """the word decoder written in place in the loop that cuts the proof string into words: `acc` collects the letters of the
    current word (with or without the closing letter), `letter` is the loop variable, which under `letter in <ls table>` is the
    LAST letter of the word; the arithmetic sits in `loop`'s body"""
    def __init__(self, fn, loop, acc, letter, acc_has_last):
        self.fn, self.loop, self.acc, self.letter, self.acc_has_last = fn, loop, acc, letter, acc_has_last
        self.name = fn.name
        self.lineno = loop.lineno
        self.col_offset = loop.col_offset


def find_inline_decoder(fn: ast.FunctionDef, names):
    """-> InlineDecoder | None"""
    ls, ms = names['least-significant'], names['most-significant']
    nested = {id(n) for g in ast.walk(fn) if isinstance(g, (ast.FunctionDef, ast.Lambda)) and g is not fn for n in ast.walk(g)}

    def own(node):
        return [n for n in ast.walk(node) if id(n) not in nested]

    def subs(node, table):
        return [n for n in own(node) if isinstance(n, ast.Subscript) and _tab(n.value) == table and isinstance(n.ctx, ast.Load)]

    mains = [lp for lp in own(fn) if isinstance(lp, ast.For) and isinstance(lp.target, ast.Name) and subs(lp, ls) and subs(lp, ms)]
    # the outermost such loop
    mains = [lp for lp in mains if not any(lp is not o and any(lp is x for x in ast.walk(o)) for o in mains)]
    if len(mains) != 1:
        return None
    main = mains[0]
    letter = main.target.id
    accs = {}
    # polarity of `letter in <ls>` at each accumulation `acc += letter`
    def visit(stmts, pol):
        for st in stmts:
            if isinstance(st, ast.If):
                t = st.test
                p_ = None
                neg = False
                if isinstance(t, ast.UnaryOp) and isinstance(t.op, ast.Not):
                    t, neg = t.operand, True
                if isinstance(t, ast.Compare) and len(t.ops) == 1 and isinstance(t.left, ast.Name) and t.left.id == letter \
                        and isinstance(t.comparators[0], ast.Name) and t.comparators[0].id == ls and isinstance(t.ops[0], (ast.In, ast.NotIn)):
                    p_ = isinstance(t.ops[0], ast.In) != neg
                visit(st.body, pol if p_ is None else p_)
                visit(st.orelse, pol if p_ is None else (not p_))
                # a branch that leaves the iteration fixes the polarity of what follows
                if p_ is not None and st.body and isinstance(st.body[-1], (ast.Continue, ast.Return, ast.Raise, ast.Break)) and not st.orelse:
                    pol = not p_
                elif p_ is not None and st.orelse and isinstance(st.orelse[-1], (ast.Continue, ast.Return, ast.Raise, ast.Break)):
                    pol = p_
            elif isinstance(st, ast.AugAssign) and isinstance(st.op, ast.Add) and isinstance(st.target, ast.Name) \
                    and isinstance(st.value, ast.Name) and st.value.id == letter:
                accs.setdefault(st.target.id, set()).add(pol)
            elif isinstance(st, (ast.For, ast.While, ast.With, ast.Try)):
                visit(getattr(st, 'body', []), pol)
    visit(main.body, None)
    if len(accs) != 1:
        return None
    acc, pols = next(iter(accs.items()))
    if pols == {None}:
        has_last = True
    elif pols == {False}:
        has_last = False
    else:
        return None
    # the accumulator starts empty
    def empty(e):
        return isinstance(e, ast.Constant) and e.value == '' or (isinstance(e, (ast.List, ast.Tuple)) and not e.elts)
    inits = [n for n in own(fn) if isinstance(n, (ast.Assign, ast.AnnAssign)) and n.value is not None
             and isinstance(n.targets[0] if isinstance(n, ast.Assign) else n.target, ast.Name)
             and (n.targets[0] if isinstance(n, ast.Assign) else n.target).id == acc]
    inside = {id(n) for n in ast.walk(main)}
    if not inits or not all(empty(n.value) for n in inits) or not any(id(n) not in inside for n in inits):
        return None                          # (that it is emptied once per word is rule step-tokens/buffer-reset)
    return InlineDecoder(fn, main, acc, letter, has_last)


def _factors(e):
    if isinstance(e, ast.BinOp) and isinstance(e.op, ast.Mult):
        return _factors(e.left) + _factors(e.right)
    return [e]


def loop_weight(cf: ast.FunctionDef, lp: ast.For, ms_name: str, within=None):
    """place value given to the high digit read in iteration i of `lp`, by induction-variable analysis of the loop:
    the accumulated product <ms>[letter] * f1 * f2 .. with every other factor a constant, a power 5 ** e (pow(5, e)) of a counter
    e = a + s*i (an `enumerate` index, or a local set before the loop and stepped once per iteration), or a running product
    w = c * r^i (a local set before the loop and multiplied once per iteration).  -> (C, A, S) meaning C * 5^(A + S*i), or None"""
    top = list(lp.body)

    def const_int(e):
        if isinstance(e, ast.Constant) and isinstance(e.value, int) and not isinstance(e.value, bool):
            return e.value
        if isinstance(e, ast.UnaryOp) and isinstance(e.op, ast.USub) and const_int(e.operand) is not None:
            return -const_int(e.operand)
        return None

    acc = None
    for i, st in enumerate(top):
        val = None
        if isinstance(st, ast.AugAssign) and isinstance(st.op, ast.Add) and isinstance(st.target, ast.Name):
            val = st.value
        elif isinstance(st, ast.Assign) and len(st.targets) == 1 and isinstance(st.targets[0], ast.Name) and isinstance(st.value, ast.BinOp) \
                and isinstance(st.value.op, ast.Add) and isinstance(st.value.left, ast.Name) and st.value.left.id == st.targets[0].id:
            val = st.value.right
        if val is not None and any(isinstance(f, ast.Subscript) and _tab(f.value) == ms_name for f in _factors(val)):
            if acc is not None:
                return None
            acc = (i, val)
    if acc is None:
        return None
    use_at, val = acc

    def before_loop(name):
        defs = [n for n in ast.walk(cf) if isinstance(n, (ast.Assign, ast.AnnAssign)) and n.value is not None
                and isinstance(n.targets[0] if isinstance(n, ast.Assign) else n.target, ast.Name)
                and (n.targets[0] if isinstance(n, ast.Assign) else n.target).id == name and n.lineno < lp.lineno
                and (within is None or any(n is x for x in ast.walk(within)))]
        stores_in = [n for n in ast.walk(lp) if isinstance(n, ast.Name) and n.id == name and isinstance(n.ctx, ast.Store)]
        return (const_int(defs[-1].value) if defs else None), stores_in

    def counter(name):
        """(a, s): the value of the counter when it is used in iteration i is a + s*i"""
        it = lp.iter
        if isinstance(it, ast.Call) and isinstance(it.func, ast.Name) and it.func.id == 'enumerate' and isinstance(lp.target, ast.Tuple) \
                and isinstance(lp.target.elts[0], ast.Name) and lp.target.elts[0].id == name:
            st_e = it.args[1] if len(it.args) > 1 else next((k.value for k in it.keywords if k.arg == 'start'), None)
            a = 0 if st_e is None else const_int(st_e)
            return None if a is None or any(isinstance(n, ast.Name) and n.id == name and isinstance(n.ctx, ast.Store) for b in lp.body for n in ast.walk(b)) \
                else (a, 1)
        if isinstance(it, ast.Call) and isinstance(it.func, ast.Name) and it.func.id == 'range' and not it.keywords and 1 <= len(it.args) <= 3 \
                and isinstance(lp.target, ast.Name) and lp.target.id == name:
            # for e in range([a,] n[, s]): e = a + s*i
            a = 0 if len(it.args) == 1 else const_int(it.args[0])
            s_ = 1 if len(it.args) < 3 else const_int(it.args[2])
            if a is None or s_ is None or any(isinstance(n, ast.Name) and n.id == name and isinstance(n.ctx, ast.Store) for b in lp.body for n in ast.walk(b)):
                return None
            return (a, s_)
        init, stores = before_loop(name)
        steps = [(j, st) for j, st in enumerate(top) if isinstance(st, ast.AugAssign) and isinstance(st.target, ast.Name) and st.target.id == name
                 and isinstance(st.op, (ast.Add, ast.Sub)) and const_int(st.value) is not None]
        if init is None or len(steps) != 1 or len(stores) != 1:
            return None
        j, st = steps[0]
        step = const_int(st.value) * (1 if isinstance(st.op, ast.Add) else -1)
        return (init + (step if j < use_at else 0), step)

    def running(name):
        """(c, r): the value of the running product when it is used in iteration i is c * r^i"""
        init, stores = before_loop(name)
        steps = [(j, st) for j, st in enumerate(top) if isinstance(st, ast.AugAssign) and isinstance(st.target, ast.Name) and st.target.id == name
                 and isinstance(st.op, ast.Mult) and const_int(st.value) is not None]
        if init is None or len(steps) != 1 or len(stores) != 1:
            return None
        j, st = steps[0]
        r = const_int(st.value)
        return (init * (r if j < use_at else 1), r)

    C, A, S = 1, 0, 0
    # the sum may be scaled once where it is used after the loop (`ones + twenties * 20`): a constant factor of the whole sum
    acc_name = top[use_at].target.id if isinstance(top[use_at], ast.AugAssign) else top[use_at].targets[0].id
    scope_ = within if within is not None else cf
    parents_ = {c: p_ for p_ in ast.walk(scope_) for c in ast.iter_child_nodes(p_)}
    inside_ = {id(x) for x in ast.walk(lp)}
    later = [x for x in ast.walk(scope_) if isinstance(x, ast.Name) and x.id == acc_name and isinstance(x.ctx, ast.Load) and id(x) not in inside_]
    if len(later) == 1:
        e_ = later[0]
        while isinstance(parents_.get(e_), ast.BinOp) and isinstance(parents_[e_].op, ast.Mult):
            par = parents_[e_]
            other = par.right if par.left is e_ else par.left
            if const_int(other) is None:
                return None
            C *= const_int(other)
            e_ = par
    for f in _factors(val):
        if isinstance(f, ast.Subscript) and _tab(f.value) == ms_name:
            continue
        k = const_int(f)
        if k is not None:
            C *= k
            continue
        base = expo = None
        if isinstance(f, ast.Call) and ast.unparse(f.func) == 'pow' and len(f.args) == 2 and not f.keywords:
            base, expo = f.args
        elif isinstance(f, ast.BinOp) and isinstance(f.op, ast.Pow):
            base, expo = f.left, f.right
        if base is not None:
            if const_int(base) != 5:
                return None
            if const_int(expo) is not None:
                A += const_int(expo)
                continue
            if isinstance(expo, ast.Name) and counter(expo.id) is not None:
                a, s_ = counter(expo.id)
                A += a
                S += s_
                continue
            return None
        if isinstance(f, ast.Name) and running(f.id) is not None:
            c, r = running(f.id)
            if r != 5:
                return None
            C *= c
            S += 1
            continue
        return None
    return C, A, S


def digit_tables(ctx, py: PyRepo, fn: ast.FunctionDef):
    want = {'lsdigit': [(chr(ord('A') + i), i + 1) for i in range(20)],       # A..T -> 1..20 (Metamath book, appendix B)
            'msdigit': [(chr(ord('U') + i), i + 1) for i in range(5)]}        # U..Y -> 1..5
    tables = find_tables(py, fn)
    ctx.require(len(tables) >= 2, f'_import_proof: expected two letter->digit tables, found {sorted(tables)}')
    ls = [(n, v) for n, v in tables.items() if len(v[0]) >= 10 or any(k == 'A' for k, _x in v[0])]
    ms = [(n, v) for n, v in tables.items() if (n, v) not in ls]
    names = {}
    for label, cands, spec in (('least-significant', ls, want['lsdigit']), ('most-significant', ms, want['msdigit'])):
        ctx.require(len(cands) == 1, f'_import_proof: cannot identify the {label} digit table')
        name, (pairs, node) = cands[0]
        names[label] = name
        keys = [k for k, _v in pairs]
        ok = sorted(pairs) == sorted(spec) and len(set(keys)) == len(keys)
        diff = sorted(set(spec) ^ set(pairs))
        ctx.ob('digit-table', label, ok,
               f'the {label} digit table `{name}` differs from the specification at {diff[:6]}'
               + (' (duplicate keys)' if len(set(keys)) != len(keys) else ''), py.where(MODULE, node),
               facts={'entries': len(pairs)})
    # the decoder uses them with the specified weights: n = ls + sum ms_i * 5^i * 20
    conv = find_decoder(py, fn, set(names.values()))
    if not conv:
        inl = find_inline_decoder(fn, names)
        ctx.require(inl is not None, 'anchor vanished: the function that decodes one word with both digit tables (convert_to_number), '
                                     'or the same arithmetic written in place in the loop over the proof letters')
        loops_ = [n for n in ast.walk(inl.loop) if isinstance(n, ast.For) and n is not inl.loop
                  and any(isinstance(x, ast.Subscript) and _tab(x.value) == names['most-significant'] for x in ast.walk(n))]
        ok, why_w = False, ''
        if len(loops_) == 1:
            lw = loop_weight(fn, loops_[0], names['most-significant'], within=inl.loop)
            if lw is not None:
                C, A, S = lw
                ok = S == 1 and A >= 0 and C * 5 ** A == 20
                why_w = f' (iteration i gives the digit the weight {C} * 5^({A} + {S}*i))'
        ctx.ob('digit-table', 'weights', ok, 'the word decoder does not weight the high digits by 20 * 5^i' + why_w, py.where(MODULE, inl.loop))
        return names, inl
    ctx.require(len(conv) == 1, 'anchor vanished: the function that decodes one word with both digit tables (convert_to_number)')
    ok = False
    why_w = ''
    if zip_weight_table(py, fn, conv[0]) is not None:
        # ms[letter] * weight with the weight taken from a table: the table itself is checked under digit-order
        ok = any(isinstance(n, ast.BinOp) and isinstance(n.op, ast.Mult) and len(_factors(n)) == 2
                 and any(isinstance(f, ast.Subscript) and _tab(f.value) == names['most-significant'] for f in _factors(n))
                 for n in ast.walk(conv[0]))
    else:
        loops_ = [n for n in ast.walk(conv[0]) if isinstance(n, ast.For)]
        if len(loops_) == 1:
            lw = loop_weight(conv[0], loops_[0], names['most-significant'])
            if lw is not None:
                C, A, S = lw
                # C * 5^(A + S*i) == 20 * 5^i for every i
                ok = S == 1 and A >= 0 and C * 5 ** A == 20
                why_w = f' (iteration i gives the digit the weight {C} * 5^({A} + {S}*i))'
    ctx.ob('digit-table', 'weights', ok, 'the word decoder does not weight the high digits by 20 * 5^i' + why_w, py.where(MODULE, conv[0]))
    return names, conv[0]


def _is_pattern_label(e) -> bool:
    return isinstance(e, ast.JoinedStr) and 'is-pattern' in ast.unparse(e)


def numbering_sites(py: PyRepo, fn: ast.FunctionDef, ci):
    """where the mandatory hypotheses get their numbers: in _import_proof or in a method of the converter it calls (one level).
    -> [(scope function, kind, node, source iterable, counter description)]  kind: 'loop' | 'comp'"""
    scopes = [fn]
    for c in ast.walk(fn):
        if isinstance(c, ast.Call) and isinstance(c.func, ast.Attribute) and isinstance(c.func.value, ast.Name) and c.func.value.id == 'self' \
                and c.func.attr in ci.methods and ci.methods[c.func.attr] not in scopes:
            scopes.append(ci.methods[c.func.attr])
    out = []
    for sc in scopes:
        for node in ast.walk(sc):
            if isinstance(node, ast.For):
                for st in ast.walk(node):
                    if isinstance(st, ast.Assign) and isinstance(st.targets[0], ast.Subscript) and isinstance(st.targets[0].value, ast.Name) \
                            and _is_pattern_label(st.value):
                        out.append((sc, 'loop', node, st))
            elif isinstance(node, ast.DictComp) and _is_pattern_label(node.value) and len(node.generators) == 1 and not node.generators[0].ifs:
                out.append((sc, 'comp', node, None))
    return out


def inner_fn(sc, node):
    """the innermost function of `sc` that contains `node`"""
    inner = sc
    for g in ast.walk(sc):
        if isinstance(g, ast.FunctionDef) and g is not sc and any(x is node for x in ast.walk(g)):
            if inner is sc or any(x is g for x in ast.walk(inner)):
                inner = g
    return inner


def numbering(ctx, py: PyRepo, fn: ast.FunctionDef, ci):
    oa = OrderAnalysis(py)
    sites = numbering_sites(py, fn, ci)
    ctx.require(len(sites) >= 1, '_import_proof: cannot find the loop that numbers the mandatory hypotheses')
    for sc, kind, loop, st in sites:
        env = oa.local_env(sc)
        where = py.where('metamath.converter.converter', loop)
        header = loop.iter if kind == 'loop' else loop.generators[0].iter
        target = loop.target if kind == 'loop' else loop.generators[0].target
        it = header
        enum_start = None
        if isinstance(it, ast.Call) and isinstance(it.func, ast.Name) and it.func.id == 'enumerate' and it.args:
            # for number, var in enumerate(source, start=1)
            st_e = it.args[1] if len(it.args) > 1 else next((k.value for k in it.keywords if k.arg == 'start'), None)
            enum_start = st_e.value if isinstance(st_e, ast.Constant) else (0 if st_e is None else None)
            it = it.args[0]
        # the sequence may be computed by a method of the converter (`for v in self._ordered(statement)`): what that method returns
        hops = 0
        sc_it = sc
        while isinstance(it, ast.Call) and isinstance(it.func, ast.Attribute) and isinstance(it.func.value, ast.Name) and it.func.value.id == 'self' \
                and it.func.attr in ci.methods and hops < 2:
            from .c16 import returned_exprs
            rets = returned_exprs(ci.methods[it.func.attr])
            if len(rets) != 1:
                break
            sc_it = ci.methods[it.func.attr]
            env = oa.local_env(sc_it)
            it = rets[0][1]
            hops += 1
        src = order_from_set(sc_it, oa, env, ci, it)
        if src is not None:
            ctx.ob('hypothesis-order', 'numbering-loop', False,
                   f'the mandatory hypotheses are numbered in the iteration order of `{src[0]}`, a set of {src[1]}: with two or more '
                   f'variables the numbering depends on the hash seed instead of the database order', where)
        else:
            # the innermost function around the loop: its single-assignment locals are read through
            from .c16 import inline_locals
            inner = sc
            for g in ast.walk(sc):
                if isinstance(g, ast.FunctionDef) and g is not sc and any(x is loop for x in ast.walk(g)):
                    if inner is sc or any(x is g for x in ast.walk(inner)):
                        inner = g
            ok, why = database_ordered(sc_it, it)
            if ok is None and sc_it is sc:
                ok, why = database_ordered(inner, inline_locals(inner.body, it))
            elif ok is None:
                ok, why = database_ordered(sc_it, inline_locals(sc_it.body, it))
            if ok is None:
                raise AnalysisError(f'_import_proof: cannot decide whether `{ast.unparse(it)}` is in database order ({why})')
            ctx.ob('hypothesis-order', 'numbering-loop', ok, why, where, facts={'source': ast.unparse(it)})
        # which variables get a number: every variable of the statement has a mandatory `$f` hypothesis, so the set the hypotheses are
        # selected with must be `<the statement>.get_metavariables()` - not a set handed in by the caller (e.g. only the pattern
        # metavariables of the converted notation)
        inner = inner_fn(sc, loop)
        sel_scope = sc_it if sc_it is not sc else inner
        def flowing(e, depth=0):
            """the expressions that flow into the sequence: definitions and `+=` extensions of the locals it mentions"""
            out = [e]
            if depth > 3:
                return out
            for nm in {x.id for x in ast.walk(e) if isinstance(x, ast.Name)}:
                for n_ in ast.walk(sel_scope):
                    if isinstance(n_, (ast.Assign, ast.AnnAssign, ast.AugAssign)) and n_.value is not None:
                        t_ = n_.targets[0] if isinstance(n_, ast.Assign) else n_.target
                        if isinstance(t_, ast.Name) and t_.id == nm and isinstance(n_.value, (ast.ListComp, ast.GeneratorExp, ast.Call, ast.BinOp)):
                            out.extend(flowing(n_.value, depth + 1))
            return out
        filt = []
        for sel_expr in flowing(it):
            for n_ in ast.walk(sel_expr):
                if isinstance(n_, ast.comprehension):
                    for c in n_.ifs:
                        if isinstance(c, ast.Compare) and len(c.ops) == 1 and isinstance(c.ops[0], ast.In) \
                                and ast.unparse(c.comparators[0]) not in [ast.unparse(x) for x in filt]:
                            filt.append(c.comparators[0])
                    # the hypotheses come from the ordered list of floating hypotheses filtered by membership in the statement's
                    # variables: a comprehension over that list that keeps what is NOT among them selects the complement
                    if ast.unparse(n_.iter) == f'self.{ORDERED_ATTR}':
                        neg = [c for c in n_.ifs if isinstance(c, ast.Compare) and len(c.ops) == 1 and isinstance(c.ops[0], ast.NotIn)]
                        pos = [c for c in n_.ifs if isinstance(c, ast.Compare) and len(c.ops) == 1 and isinstance(c.ops[0], ast.In)]
                        if neg and not pos:
                            ctx.ob('hypothesis-order', 'variables-of-the-statement', False,
                                   f'the mandatory hypotheses are taken from `self.{ORDERED_ATTR}` keeping what is NOT in '
                                   f'`{ast.unparse(neg[0].comparators[0])}`: the hypotheses of the statement\'s own variables are the ones to number',
                                   where)
        # a local that only names the set
        resolved = []
        for S in filt:
            if isinstance(S, ast.Name):
                d_ = [n_.value for g_ in (sel_scope, inner, fn) for n_ in ast.walk(g_) if isinstance(n_, (ast.Assign, ast.AnnAssign)) and n_.value is not None
                      and isinstance(n_.targets[0] if isinstance(n_, ast.Assign) else n_.target, ast.Name)
                      and (n_.targets[0] if isinstance(n_, ast.Assign) else n_.target).id == S.id]
                if len({ast.unparse(x) for x in d_}) == 1:
                    S = d_[0]
            resolved.append(S)
        filt = resolved
        fparams = {a.arg for g_ in [fn, sel_scope, inner] for a in g_.args.posonlyargs + g_.args.args + g_.args.kwonlyargs}
        for S in filt:
            if isinstance(S, ast.Call) and isinstance(S.func, ast.Attribute) and S.func.attr == 'get_metavariables' and not S.args:
                ctx.ob('hypothesis-order', 'variables-of-the-statement', isinstance(S.func.value, ast.Name) and S.func.value.id in fparams,
                       f'the mandatory hypotheses are selected with `{ast.unparse(S)}`, which is not the set of variables of the statement '
                       f'being imported', where)
            elif isinstance(S, ast.Call) and not (isinstance(S.func, ast.Attribute) and S.func.attr == 'get_metavariables'):
                ctx.ob('hypothesis-order', 'variables-of-the-statement', False,
                       f'the mandatory hypotheses are selected with `{ast.unparse(S)[:60]}`, which is not the set of variables of the statement '
                       f'being imported (<statement>.get_metavariables())', where)
            elif isinstance(S, ast.Name) and S.id in fparams and S.id != 'self':
                defs_ = [n_ for g_ in {fn, sel_scope, inner} for n_ in ast.walk(g_) if isinstance(n_, (ast.Assign, ast.AnnAssign))
                         and isinstance(n_.targets[0] if isinstance(n_, ast.Assign) else n_.target, ast.Name)
                         and (n_.targets[0] if isinstance(n_, ast.Assign) else n_.target).id == S.id]
                if not defs_:
                    ctx.ob('hypothesis-order', 'variables-of-the-statement', False,
                           f'the mandatory hypotheses are selected with the parameter `{S.id}`: every variable of the statement has a mandatory '
                           f'`$f` hypothesis, the set must be <statement>.get_metavariables(), not what the caller thinks the variables are '
                           f'(a set that leaves out element / set variables shifts every later number)', where)
        # the index is a counter that starts at 1 and is incremented once per hypothesis
        idx = st.targets[0].slice if kind == 'loop' else loop.key
        ok_idx = isinstance(idx, ast.Name)
        if ok_idx and it is not header and isinstance(target, ast.Tuple) and len(target.elts) == 2 \
                and isinstance(target.elts[0], ast.Name) and target.elts[0].id == idx.id:
            # the index is the enumerate counter: it must start at 1 and not be touched in the loop
            touched = kind == 'loop' and any(isinstance(a, (ast.Assign, ast.AugAssign)) and any(
                isinstance(x, ast.Name) and x.id == idx.id and isinstance(x.ctx, ast.Store) for x in ast.walk(a)) for a in ast.walk(loop) if a is not loop)
            ok_idx = enum_start == 1 and not touched
        elif ok_idx and kind == 'loop':
            inits = [a for a in ast.walk(sc) if isinstance(a, ast.Assign) and isinstance(a.targets[0], ast.Name) and a.targets[0].id == idx.id]
            incs = [a for a in ast.walk(loop) if isinstance(a, ast.AugAssign) and isinstance(a.target, ast.Name) and a.target.id == idx.id]
            ok_idx = len(inits) == 1 and isinstance(inits[0].value, ast.Constant) and inits[0].value.value == 1 and len(incs) == 1 \
                and isinstance(incs[0].op, ast.Add) and isinstance(incs[0].value, ast.Constant) and incs[0].value.value == 1
        elif kind == 'loop' and isinstance(idx, ast.BinOp) and isinstance(idx.op, ast.Add) and isinstance(st.targets[0].value, ast.Name):
            # table[len(table) + 1] = ..: the number of entries so far plus one - 1, 2, 3, .. when the table is empty before the loop and
            # every iteration stores exactly this one new key
            T = st.targets[0].value.id
            parts = {ast.unparse(idx.left), ast.unparse(idx.right)}
            stores = [a for a in ast.walk(loop) if isinstance(a, (ast.Assign, ast.AugAssign, ast.Delete)) and any(
                isinstance(x, ast.Subscript) and isinstance(x.value, ast.Name) and x.value.id == T and isinstance(x.ctx, (ast.Store, ast.Del))
                for x in ast.walk(a))]
            inits = sorted((a for g in [inner_fn(sc, loop)] for a in ast.walk(g) if isinstance(a, (ast.Assign, ast.AnnAssign)) and a.value is not None
                            and isinstance(a.targets[0] if isinstance(a, ast.Assign) else a.target, ast.Name)
                            and (a.targets[0] if isinstance(a, ast.Assign) else a.target).id == T and a.lineno < loop.lineno), key=lambda a: a.lineno)
            empty = bool(inits) and ast.unparse(inits[-1].value) in ('{}', 'dict()')
            touched_between = bool(inits) and any(
                isinstance(x, ast.Name) and x.id == T and inits[-1].lineno < x.lineno < loop.lineno for x in ast.walk(inner_fn(sc, loop)))
            ok_idx = parts == {f'len({T})', '1'} and len(stores) == 1 and stores[0] is st and empty and not touched_between \
                and st in loop.body
        else:
            ok_idx = False
        ctx.ob('hypothesis-order', 'numbering-from-1', ok_idx, 'hypothesis numbers must be 1, 2, 3, ... in loop order', where)
    label_table_fresh(ctx, py, fn, ci, sites)


def label_table_fresh(ctx, py: PyRepo, fn, ci, sites):
    """the number -> label table of one proof is extended in place with that proof's own label list (and becomes Proof.labels): it must
    be an object created for that proof.  A table handed out of a cache or kept on the converter is shared by every proof that gets
    it, so the labels of an earlier proof shift the numbers of a later one."""
    fn = _sums_as_loops(fn)
    from .c16 import returned_exprs

    def fresh(e, scope, depth=0):
        if isinstance(e, (ast.Dict, ast.DictComp)):
            return True
        if isinstance(e, ast.Call) and isinstance(e.func, ast.Name) and e.func.id == 'dict':
            return True
        if isinstance(e, ast.Call) and isinstance(e.func, ast.Attribute) and e.func.attr == 'copy' and not e.args:
            return True
        if isinstance(e, ast.Call) and isinstance(e.func, ast.Attribute) and isinstance(e.func.value, ast.Name) and e.func.value.id == 'self' \
                and e.func.attr in ci.methods and depth < 2:
            rets = returned_exprs(ci.methods[e.func.attr])
            return bool(rets) and all(fresh(v, ci.methods[e.func.attr], depth + 1) for _st, v in rets)
        if isinstance(e, ast.Name):
            defs = [n for n in ast.walk(scope) if isinstance(n, (ast.Assign, ast.AnnAssign)) and n.value is not None
                    and isinstance(n.targets[0] if isinstance(n, ast.Assign) else n.target, ast.Name)
                    and (n.targets[0] if isinstance(n, ast.Assign) else n.target).id == e.id]
            return bool(defs) and all(fresh(d.value, scope, depth + 1) for d in defs)
        return False
    # the table is the dict into which the labels are registered: a name that is subscript-assigned inside _import_proof (or one of
    # its nested functions).  When that name is a parameter of a nested function, the table is what the callers pass for it.
    n = 0
    nested = [x for x in ast.walk(fn) if isinstance(x, ast.FunctionDef)]
    # innermost enclosing function: the last assignment wins when walking outermost-first
    parent_fn = {}
    for f_ in nested:                                # ast.walk is breadth-first: outer functions come before inner ones
        for g in ast.walk(f_):
            if isinstance(g, ast.FunctionDef) and g is not f_:
                parent_fn[id(g)] = f_

    def own_nodes(sc):
        inner = {id(x) for g in ast.walk(sc) if isinstance(g, ast.FunctionDef) and g is not sc for x in ast.walk(g)}
        return [x for x in ast.walk(sc) if id(x) not in inner]

    def binds(sc, name):
        """'param' | 'local' | None (free in sc)"""
        if name in [a.arg for a in sc.args.args + sc.args.kwonlyargs]:
            return 'param'
        for x in own_nodes(sc):
            if isinstance(x, ast.Name) and x.id == name and isinstance(x.ctx, ast.Store):
                return 'local'
        return None

    seen = set()
    for sc in nested:
        stored = {t.value.id for st in own_nodes(sc) if isinstance(st, ast.Assign) for t in st.targets
                  if isinstance(t, ast.Subscript) and isinstance(t.value, ast.Name)}
        for name in sorted(stored):
            # lexical scoping: a free name is the binding of the nearest enclosing function
            home = sc
            while binds(home, name) is None and id(home) in parent_fn:
                home = parent_fn[id(home)]
            kind = binds(home, name)
            if kind is None or (id(home), name) in seen:
                continue
            seen.add((id(home), name))
            if kind == 'param' and home is not fn:
                k = [a.arg for a in home.args.args].index(name) if name in [a.arg for a in home.args.args] else None
                if k is None:
                    continue
                for caller in nested:
                    for c in ast.walk(caller):
                        if isinstance(c, ast.Call) and isinstance(c.func, ast.Name) and c.func.id == home.name and len(c.args) > k:
                            n += 1
                            ctx.ob('hypothesis-order', 'label-table-fresh', fresh(c.args[k], caller),
                                   f'the table `{ast.unparse(c.args[k])}` that {home.name} extends with the proof\'s labels is not an object created for '
                                   f'this proof (a cached / shared dict): a second proof over the same variables inherits the labels of the first and '
                                   f'every number after the hypotheses denotes the wrong thing', py.where('metamath.converter.converter', c))
            elif kind == 'local':
                n += 1
                ctx.ob('hypothesis-order', 'label-table-fresh', fresh(ast.Name(id=name, ctx=ast.Load()), home),
                       f'the table `{name}` that {home.name} fills with the proof\'s hypotheses and labels is not an object created for this proof '
                       f'(a cached / shared dict): a second proof over the same variables inherits the labels of the first and every number '
                       f'after the hypotheses denotes the wrong thing', py.where('metamath.converter.converter', home))
    ctx.require(n >= 1, '_import_proof: the table that receives the hypothesis numbers and the listed labels was not found')


def order_from_set(fn, oa, env, ci, e, depth=0):
    """the order of the sequence `e` derives from iterating a set (through a comprehension, list()/tuple(), or a local name)"""
    if depth > 4:
        return None
    el = oa.set_elem(e, env, ci)
    if el is not None:
        return ast.unparse(e), el
    if isinstance(e, (ast.ListComp, ast.GeneratorExp)) and e.generators:
        return order_from_set(fn, oa, env, ci, e.generators[0].iter, depth + 1)
    if isinstance(e, ast.Call) and isinstance(e.func, ast.Name) and e.func.id in ('list', 'tuple') and e.args:
        return order_from_set(fn, oa, env, ci, e.args[0], depth + 1)
    if isinstance(e, ast.BinOp) and isinstance(e.op, ast.Add):
        return order_from_set(fn, oa, env, ci, e.left, depth + 1)
    if isinstance(e, ast.Name):
        defs = [n.value for n in ast.walk(fn) if isinstance(n, ast.Assign) and isinstance(n.targets[0], ast.Name) and n.targets[0].id == e.id]
        if defs:
            return order_from_set(fn, oa, env, ci, defs[0], depth + 1)
    return None


def zip_weight_table(py: PyRepo, fn: ast.FunctionDef, cf: ast.FunctionDef):
    """the decoder pairs the high digits with precomputed place values: `.. for letter, w in zip(<letters>, <table>)`.
    -> (letters expression, table expression, folded table or None, node) or None"""
    from ..core.constfold import NotConstant, fold
    for n in ast.walk(cf):
        gens = n.generators if isinstance(n, (ast.GeneratorExp, ast.ListComp)) else ([n] if isinstance(n, ast.For) else [])
        for g in gens:
            it = g.iter
            if isinstance(it, ast.Call) and isinstance(it.func, ast.Name) and it.func.id == 'zip' and len(it.args) == 2 \
                    and isinstance(g.target, ast.Tuple) and len(g.target.elts) == 2:
                consts = {}
                tree = py.modules[MODULE].tree
                for a in [x for x in tree.body if isinstance(x, ast.Assign)] + [x for x in ast.walk(fn) if isinstance(x, ast.Assign)]:
                    if len(a.targets) == 1 and isinstance(a.targets[0], ast.Name):
                        try:
                            consts[a.targets[0].id] = fold(a.value, consts=consts)
                        except NotConstant:
                            pass
                try:
                    table = list(fold(it.args[1], consts=consts))
                except (NotConstant, TypeError):
                    table = None
                return it.args[0], it.args[1], table, n
    return None


def digit_order(ctx, py: PyRepo, fn: ast.FunctionDef, names, cf):
    """positional weights of the decoder: the LAST letter of a word is the least-significant (A..T) digit, and the preceding U..Y
    letters are base-5 digits whose weight grows from right to left (exponent 0 next to the last letter).  Decided from the
    direction in which the high digits are traversed and the direction in which the exponent counts."""
    inline = cf if isinstance(cf, InlineDecoder) else None
    if inline is not None:
        where = py.where('metamath.converter.converter', inline.loop)
        word = None
        cf = inline.loop                     # the scope searched for definitions: the body of the loop over the proof letters
    else:
        where = py.where('metamath.converter.converter', cf)
        word = [a.arg for a in cf.args.args if a.arg != 'self'][0]

    use_line = [10 ** 9]

    def direction(e, depth=0):
        """-> ('fwd'|'rev', drops_last: bool) for a sequence over the letters of `word`, or None"""
        if depth > 6:
            return None
        if isinstance(e, ast.Name) and e.id == word:
            return ('fwd', False)
        if inline is not None and isinstance(e, ast.Name) and e.id == inline.acc:
            # the letters collected so far, in reading order; without the closing letter when it is never appended
            return ('fwd', not inline.acc_has_last)
        if isinstance(e, ast.Call) and isinstance(e.func, ast.Name) and e.func.id in ('list', 'tuple', 'iter') and e.args:
            return direction(e.args[0], depth + 1)
        if isinstance(e, ast.Call) and isinstance(e.func, ast.Name) and e.func.id == 'reversed' and e.args:
            d = direction(e.args[0], depth + 1)
            return None if d is None else ('rev' if d[0] == 'fwd' else 'fwd', d[1])
        if isinstance(e, ast.Subscript) and isinstance(e.slice, ast.Slice):
            d = direction(e.value, depth + 1)
            if d is None:
                return None
            sl = ast.unparse(e.slice)
            if sl in (':-1',) and d[0] == 'fwd':
                return ('fwd', True)
            if sl in ('1:',) and d[0] == 'rev':
                return ('rev', True)
            if sl in ('-2::-1',) and d[0] == 'fwd':
                return ('rev', True)
            if sl in ('::-1',):
                return ('rev' if d[0] == 'fwd' else 'fwd', d[1])
            return None
        if isinstance(e, ast.Name):
            # unpacking definitions:  a, *rest = seq   |   *rest, a = seq   |   plain assignment; the latest definition wins
            cands = sorted((n for n in ast.walk(cf) if isinstance(n, ast.Assign) and n.lineno < use_line[0]), key=lambda n: -n.lineno)
            for n in cands:
                if isinstance(n, ast.Assign) and isinstance(n.targets[0], ast.Tuple):
                    elts = n.targets[0].elts
                    for i, t in enumerate(elts):
                        if isinstance(t, ast.Starred) and isinstance(t.value, ast.Name) and t.value.id == e.id and len(elts) == 2:
                            saved = use_line[0]
                            use_line[0] = n.lineno          # the right-hand side sees only earlier bindings
                            d = direction(n.value, depth + 1)
                            use_line[0] = saved
                            if d is None or d[1]:
                                return None
                            # star first  (*rest, x): drops the last element of src ; star second (x, *rest): drops the first
                            if i == 0:
                                return (d[0], True) if d[0] == 'fwd' else None
                            return (d[0], True) if d[0] == 'rev' else None
                if isinstance(n, ast.Assign) and isinstance(n.targets[0], ast.Name) and n.targets[0].id == e.id:
                    saved = use_line[0]
                    use_line[0] = n.lineno
                    d = direction(n.value, depth + 1)
                    use_line[0] = saved
                    return d
        return None

    def single_letter(name):
        """which letter of the word a scalar name holds: 'last' | 'first' | None"""
        if inline is not None and name == inline.letter:
            return 'last'                    # the loop variable where the A..T table is consulted closes the word
        for n in ast.walk(cf):
            if isinstance(n, ast.Assign) and isinstance(n.targets[0], ast.Tuple) and len(n.targets[0].elts) == 2:
                a, b = n.targets[0].elts
                saved = use_line[0]
                use_line[0] = n.lineno
                d = direction(n.value)
                use_line[0] = saved
                if d is None or d[1]:
                    continue
                if isinstance(a, ast.Name) and a.id == name and isinstance(b, ast.Starred):      # x, *rest = seq
                    return 'first' if d[0] == 'fwd' else 'last'
                if isinstance(b, ast.Name) and b.id == name and isinstance(a, ast.Starred):      # *rest, x = seq
                    return 'last' if d[0] == 'fwd' else 'first'
            if isinstance(n, ast.Assign) and isinstance(n.targets[0], ast.Name) and n.targets[0].id == name \
                    and isinstance(n.value, ast.Subscript) and ast.unparse(n.value.value) == (word if inline is None else (inline.acc if inline.acc_has_last else None)):
                idx = ast.unparse(n.value.slice)
                return {'-1': 'last', '0': 'first'}.get(idx)
        return None

    # least-significant digit: lsdigit[<last letter>]
    ls_uses = [n for n in ast.walk(cf) if isinstance(n, ast.Subscript) and _tab(n.value) == names['least-significant']]
    ok_ls = False
    if len(ls_uses) == 1:
        sl = ls_uses[0].slice
        if isinstance(sl, ast.Name):
            ok_ls = single_letter(sl.id) == 'last'
        elif isinstance(sl, ast.Subscript) and ast.unparse(sl.value) == (word if inline is None else (inline.acc if inline.acc_has_last else None)):
            ok_ls = ast.unparse(sl.slice) == '-1'
    ctx.ob('digit-order', 'least-significant-is-last-letter', ok_ls,
           'the A..T digit must be taken from the LAST letter of the word', where)
    # high digits: traversal direction vs exponent direction
    zw = zip_weight_table(py, fn, cf)
    if zw is not None:
        letters, table_e, table, node = zw
        use_line[0] = getattr(node, 'lineno', 10 ** 9)
        d = direction(letters)
        use_line[0] = 10 ** 9
        if d is None or table is None:
            raise AnalysisError(f'convert_to_number: cannot determine the traversal direction of `{ast.unparse(letters)}` or the place '
                                f'values `{ast.unparse(table_e)}`')
        want = [20 * 5 ** i for i in range(len(table))]
        ok = d[0] == 'rev' and d[1] and table == want
        ctx.ob('digit-order', 'high-digits-weighted-right-to-left', ok,
               f'the U..Y digits are traversed {"left-to-right" if d[0] == "fwd" else "right-to-left"} and paired with the place values '
               f'{table[:4]}..: the digit next to the last letter must get weight 20*5^0, the next 20*5^1, ..', where,
               facts={'traversal': d, 'place values': table})
        # zip stops at the shorter sequence: a finite table silently drops the leading digits of longer words
        largest = 20 + 25 * (5 ** len(table) - 1)
        ctx.ob('digit-order', 'place-values-cover-the-numbers', largest >= 10 ** 6,
               f'the place values are a finite table of {len(table)} entries and `zip` stops at the shorter sequence: a word with more than '
               f'{len(table)} high digits loses its leading digits without an error, so every step number above {largest} decodes to a '
               f'smaller one (the property covers at least 10^6)', where, facts={'entries': len(table), 'largest decodable': largest})
        return
    loops = [n for n in ast.walk(cf) if isinstance(n, ast.For) and n is not cf]
    ctx.require(len(loops) == 1, 'convert_to_number: expected one loop over the high digits')
    lp = loops[0]
    it = lp.iter
    exp_dir = None
    seq = it
    if isinstance(it, ast.Call) and isinstance(it.func, ast.Name) and it.func.id == 'enumerate' and it.args:
        seq = it.args[0]
    lw = loop_weight(inline.fn if inline is not None else cf, lp, names['most-significant'], within=inline.loop if inline is not None else None)
    if lw is not None and lw[2] != 0:
        exp_dir = 'asc' if lw[2] > 0 else 'desc'
    use_line[0] = lp.lineno
    d = direction(seq)
    use_line[0] = 10 ** 9
    if d is None and word is not None and isinstance(it, ast.Call) and isinstance(it.func, ast.Name) and it.func.id == 'range' \
            and isinstance(lp.target, ast.Name):
        d = _indexed_direction(cf, lp, word, names['most-significant'])
        if d is not None:
            ctx.ob('digit-order', 'every-high-digit-is-read', d[2] is None,
                   f'the high digits are read by index over {d[2]}; a word of n letters has n - 1 of them (range(0, len({word}) - 1)): '
                   f'a digit that is not read is missing from the number', where)
            d = d[:2]
    if d is None or exp_dir is None:
        from ..core.report import AnalysisError as _AE
        raise _AE(f'convert_to_number: cannot determine the traversal direction of `{ast.unparse(seq)}` or of the exponent')
    # the number is exactly <ls>[last letter] + the weighted high digits: the variable the loop accumulates into starts as the
    # plain table entry and is what the decoder hands back
    scope = inline.loop if inline is not None else cf
    accs = [st.target.id if isinstance(st, ast.AugAssign) else st.targets[0].id for st in lp.body
            if (isinstance(st, ast.AugAssign) and isinstance(st.op, ast.Add) and isinstance(st.target, ast.Name)
                or isinstance(st, ast.Assign) and len(st.targets) == 1 and isinstance(st.targets[0], ast.Name) and isinstance(st.value, ast.BinOp))
            and any(isinstance(x, ast.Subscript) and _tab(x.value) == names['most-significant'] for x in ast.walk(st.value))]
    if len(accs) == 1:
        num = accs[0]
        inits = [n for n in ast.walk(scope) if isinstance(n, (ast.Assign, ast.AnnAssign)) and n.value is not None and not any(n is x for x in ast.walk(lp))
                 and isinstance(n.targets[0] if isinstance(n, ast.Assign) else n.target, ast.Name)
                 and (n.targets[0] if isinstance(n, ast.Assign) else n.target).id == num]
        init_ok = len(inits) == 1 and isinstance(inits[0].value, ast.Subscript) and _tab(inits[0].value.value) == names['least-significant'] and inits[0].lineno < lp.lineno
        other = [n for n in ast.walk(scope) if isinstance(n, ast.AugAssign) and isinstance(n.target, ast.Name) and n.target.id == num
                 and not any(n is x for x in ast.walk(lp))]
        if inline is None:
            rets = [r for r in ast.walk(cf) if isinstance(r, ast.Return)]
            out_ok = bool(rets) and all(isinstance(r.value, ast.Name) and r.value.id == num for r in rets)
            if not init_ok and len(inits) == 1 and isinstance(inits[0].value, ast.Constant) and inits[0].value.value == 0 and type(inits[0].value.value) is int \
                    and inits[0].lineno <= lp.lineno and len(rets) == 1 and isinstance(rets[0].value, ast.BinOp) and isinstance(rets[0].value.op, ast.Add):
                # the other spelling: the high digits are summed from 0 and the low digit is added where the number is handed back
                # (`return <ls>[last] + <sum> [* 20]`; the factor belongs to rule weights)
                def strip(e):
                    while isinstance(e, ast.BinOp) and isinstance(e.op, ast.Mult):
                        e = e.left if isinstance(e.right, ast.Constant) else e.right if isinstance(e.left, ast.Constant) else None
                    return e
                sides = [rets[0].value.left, rets[0].value.right]
                hi = [x for x in sides if isinstance(strip(x), ast.Name) and strip(x).id == num]
                lo = [x for x in sides if x not in hi]
                if len(hi) == 1 and len(lo) == 1:
                    low = lo[0]
                    if isinstance(low, ast.Name):
                        ldefs = [n for n in ast.walk(scope) if isinstance(n, (ast.Assign, ast.AnnAssign)) and n.value is not None
                                 and isinstance(n.targets[0] if isinstance(n, ast.Assign) else n.target, ast.Name)
                                 and (n.targets[0] if isinstance(n, ast.Assign) else n.target).id == low.id]
                        low = ldefs[0].value if len(ldefs) == 1 else None
                    init_ok = out_ok = isinstance(low, ast.Subscript) and _tab(low.value) == names['least-significant'] and low is ls_uses[0] if len(ls_uses) == 1 else False
        else:
            outs = [c for c in ast.walk(scope) if isinstance(c, ast.Call) and isinstance(c.func, ast.Attribute) and c.func.attr == 'append'
                    and any(isinstance(x, ast.Name) and x.id == num for a in c.args for x in ast.walk(a))]
            out_ok = len(outs) == 1 and isinstance(outs[0].args[0], ast.Name)
        ctx.ob('digit-order', 'number-is-low-digit-plus-high-digits', init_ok and out_ok and not other,
               f'the decoded number must be exactly `{names["least-significant"]}[<last letter>]` plus the weighted high digits: `{num}` is '
               f'initialised as `{ast.unparse(inits[0].value) if inits else "?"}`' + (', adjusted outside the loop' if other else '')
               + ('' if out_ok else ', and is not what the decoder hands back unchanged'), where)
    ok = d[0] == 'rev' and d[1] and exp_dir == 'asc'
    ctx.ob('digit-order', 'high-digits-weighted-right-to-left', ok,
           f'the U..Y digits are traversed {"left-to-right" if d[0] == "fwd" else "right-to-left"} while the exponent counts up from 0: '
           f'the digit next to the last letter must get weight 20*5^0 (e.g. UVA = 141 would decode as 221)', where,
           facts={'traversal': d, 'exponent': exp_dir})


def _indexed_direction(cf, lp, word, ms_name):
    """the high digits read by index: `for i in range(len(word) - 1): .. <ms>[word[IDX]] ..` with IDX linear in i.
    IDX = -2 - i (or len(word) - 2 - i) walks from the letter next to the last one to the first: ('rev', True);
    IDX = i walks the word without its last letter left to right: ('fwd', True); anything else is not judged here (None)."""
    from .c16 import Lin, lin_index
    i = lp.target.id
    it = lp.iter
    if it.keywords or len(it.args) not in (1, 2):
        return None
    try:
        lo = Lin(0) if len(it.args) == 1 else lin_index(it.args[0], {})
        hi = lin_index(it.args[-1], {})
    except ValueError:
        return None
    L = f'#{word}'
    covers = lo == Lin(0) and hi == Lin(-1, {L: 1})
    env = {st.targets[0].id: st.value for st in lp.body if isinstance(st, ast.Assign) and len(st.targets) == 1 and isinstance(st.targets[0], ast.Name)}
    uses = [n for n in ast.walk(lp) if isinstance(n, ast.Subscript) and _tab(n.value) == ms_name]
    if len(uses) != 1:
        return None
    key = uses[0].slice
    if isinstance(key, ast.Name) and key.id in env:
        key = env[key.id]
    if not (isinstance(key, ast.Subscript) and isinstance(key.value, ast.Name) and key.value.id == word):
        return None
    try:
        idx = lin_index(key.slice, {})
    except ValueError:
        return None
    d = None
    if idx in (Lin(-2, {i: -1}), Lin(-2, {i: -1, L: 1})):
        d = ('rev', True)
    elif idx == Lin(0, {i: 1}):
        d = ('fwd', True)
    elif idx in (Lin(-1, {i: -1}), Lin(-1, {i: -1, L: 1})):
        d = ('rev', False)
    if d is None:
        return None
    return d + ((None if covers else f'range({lo}, {hi})'),)


def _sorted_by_rank(fn, e):
    """`sorted(X, key=lambda v: (<rank of v>, ..))` where the rank is the position of v in the database-ordered list, looked up in a
    local table `R = {x: i for i, x in enumerate(self.<ordered list>)}`: database order (True) when the lookup is `R.get(v, D)` or
    `R[v] if v in R else D`; NOT database order (False) when it is `R.get(v) or D` - position 0, the first-declared variable, is falsy
    and is ranked with the undeclared ones.  None for any other key."""
    if not (isinstance(e, ast.Call) and isinstance(e.func, ast.Name) and e.func.id == 'sorted' and len(e.args) == 1):
        return None
    key = next((k.value for k in e.keywords if k.arg == 'key'), None)
    if not (isinstance(key, ast.Lambda) and len(key.args.args) == 1):
        return None
    v = key.args.args[0].arg
    first = key.body.elts[0] if isinstance(key.body, ast.Tuple) and key.body.elts else key.body

    def rank_table(name):
        defs = [n for n in ast.walk(fn) if isinstance(n, ast.Assign) and len(n.targets) == 1 and isinstance(n.targets[0], ast.Name) and n.targets[0].id == name]
        if len(defs) != 1 or not isinstance(defs[0].value, ast.DictComp) or len(defs[0].value.generators) != 1:
            return False
        dc = defs[0].value
        g = dc.generators[0]
        return (not g.ifs and isinstance(g.iter, ast.Call) and isinstance(g.iter.func, ast.Name) and g.iter.func.id == 'enumerate' and len(g.iter.args) == 1
                and ast.unparse(g.iter.args[0]) == f'self.{ORDERED_ATTR}' and isinstance(g.target, ast.Tuple) and len(g.target.elts) == 2
                and all(isinstance(t, ast.Name) for t in g.target.elts) and isinstance(dc.key, ast.Name) and dc.key.id == g.target.elts[1].id
                and isinstance(dc.value, ast.Name) and dc.value.id == g.target.elts[0].id)

    def get_of(c, nargs):
        return isinstance(c, ast.Call) and isinstance(c.func, ast.Attribute) and c.func.attr == 'get' and isinstance(c.func.value, ast.Name) \
            and rank_table(c.func.value.id) and len(c.args) == nargs and isinstance(c.args[0], ast.Name) and c.args[0].id == v and not c.keywords
    if get_of(first, 2):
        return True, ''
    if isinstance(first, ast.IfExp) and isinstance(first.body, ast.Subscript) and isinstance(first.body.value, ast.Name) and rank_table(first.body.value.id) \
            and ast.unparse(first.body.slice) == v and ast.unparse(first.test) == f'{v} in {first.body.value.id}':
        return True, ''
    if isinstance(first, ast.BoolOp) and isinstance(first.op, ast.Or) and get_of(first.values[0], 1):
        return False, (f'the hypotheses are ordered by `{ast.unparse(first)}`: position 0 - the first-declared `$f` variable - is falsy and gets the '
                       f'default rank, so that variable is numbered after all the others')
    return None


def database_ordered(fn: ast.FunctionDef, it):
    """(True, why) | (False, why) | (None, why-undecided)"""
    ranked = _sorted_by_rank(fn, it)
    if ranked is not None:
        return ranked
    if isinstance(it, ast.Name):
        ds = [n.value for n in ast.walk(fn) if isinstance(n, (ast.Assign, ast.AnnAssign)) and n.value is not None
              and isinstance(n.targets[0] if isinstance(n, ast.Assign) else n.target, ast.Name)
              and (n.targets[0] if isinstance(n, ast.Assign) else n.target).id == it.id]
        if len(ds) == 1 and _sorted_by_rank(fn, ds[0]) is not None:
            return _sorted_by_rank(fn, ds[0])
    def leading_ordered(e):
        if isinstance(e, ast.ListComp) and e.generators and ast.unparse(e.generators[0].iter) == f'self.{ORDERED_ATTR}':
            return True
        if isinstance(e, ast.Call) and isinstance(e.func, ast.Name) and e.func.id in ('list', 'tuple') and e.args:
            return leading_ordered(e.args[0])
        if isinstance(e, ast.GeneratorExp) and e.generators and ast.unparse(e.generators[0].iter) == f'self.{ORDERED_ATTR}':
            return True
        if isinstance(e, ast.Call) and isinstance(e.func, ast.Attribute) and e.func.attr in IN_ORDER_HELPERS:
            return True
        if isinstance(e, ast.Attribute) and ast.unparse(e) == f'self.{ORDERED_ATTR}':
            return True
        if isinstance(e, ast.BinOp) and isinstance(e.op, ast.Add):
            return leading_ordered(e.left)
        return False

    if leading_ordered(it):
        return True, ''
    if isinstance(it, ast.Attribute) and isinstance(it.value, ast.Name) and it.value.id == 'self':
        # another collection of the converter (the `$v` declarations, the notation table ..): its order is the order in which ITS
        # entries were made, not the order of the `$f` statements
        return False, (f'the hypotheses are numbered in the order of `self.{it.attr}`; the Metamath specification numbers mandatory '
                       f'hypotheses in the order of their `$f` statements (self.{ORDERED_ATTR})')
    if isinstance(it, (ast.ListComp, ast.GeneratorExp)) and len(it.generators) == 1:
        return database_ordered(fn, it.generators[0].iter)
    if isinstance(it, ast.BinOp) and isinstance(it.op, ast.Add):
        return database_ordered(fn, it.left)          # a concatenation starts with its left operand
    if isinstance(it, ast.Call) and isinstance(it.func, ast.Name) and it.func.id == 'sorted':
        return False, ('the hypotheses are numbered in sorted (alphabetical) order; the Metamath specification numbers mandatory '
                       'hypotheses in database order')
    if isinstance(it, ast.Name):
        defs = []
        for node in ast.walk(fn):
            if isinstance(node, ast.Assign) and isinstance(node.targets[0], ast.Name) and node.targets[0].id == it.id:
                defs.append(node.value)
            elif isinstance(node, ast.AnnAssign) and isinstance(node.target, ast.Name) and node.target.id == it.id and node.value is not None:
                defs.append(node.value)
        if len(defs) >= 1 and leading_ordered(defs[0]):
            return True, ''
        if len(defs) == 1 and isinstance(defs[0], ast.Call) and isinstance(defs[0].func, ast.Name) and defs[0].func.id == 'sorted':
            return False, 'the hypotheses are numbered in sorted (alphabetical) order instead of database order'
        if len(defs) == 1 and isinstance(defs[0], ast.List) and not defs[0].elts:
            # a list filled by `<name>.append(<loop variable>)`: its order is the order of the loop's sequence
            fills = [lp for lp in ast.walk(fn) if isinstance(lp, ast.For) and isinstance(lp.target, ast.Name) and any(
                isinstance(c, ast.Call) and isinstance(c.func, ast.Attribute) and c.func.attr == 'append' and isinstance(c.func.value, ast.Name)
                and c.func.value.id == it.id and len(c.args) == 1 and isinstance(c.args[0], ast.Name) and c.args[0].id == lp.target.id
                for c in ast.walk(lp))]
            others = [c for c in ast.walk(fn) if isinstance(c, ast.Call) and isinstance(c.func, ast.Attribute) and isinstance(c.func.value, ast.Name)
                      and c.func.value.id == it.id and c.func.attr in ('append', 'extend', 'insert', 'sort', 'reverse', 'remove', 'pop')]
            if len(fills) == 1 and len(others) == 1:
                return database_ordered(fn, fills[0].iter)
        if defs and not isinstance(defs[0], ast.Name):
            sub = database_ordered(fn, defs[0])          # the first definition leads the sequence (later `+=` parts follow it)
            if sub[0] is not None:
                return sub
        return None, f'`{it.id}` is bound to {[ast.unparse(d)[:50] for d in defs]}'
    return None, 'unrecognised source expression'


def step_tokens(ctx, py: PyRepo, fn):
    """a compressed step is `Z` or a number written as ANY number of high digits (U-Y) followed by one final digit (A-T).  When the
    proof string is cut into steps by a regular expression, the expression is read (re's own parser) and the high-digit part must be
    an unbounded repetition of exactly the high-digit letters, the final part exactly the low-digit letters; the loop form
    (accumulate letters until a final digit) has no such bound by construction."""
    fn = _sums_as_loops(fn)
    try:
        import re._parser as sre_parse          # Python >= 3.11
    except ImportError:                          # pragma: no cover
        import sre_parse
    n = 0
    for call in [c for c in ast.walk(fn) if isinstance(c, ast.Call) and isinstance(c.func, ast.Attribute) and isinstance(c.func.value, ast.Name)
                 and c.func.value.id == 're' and c.func.attr in ('findall', 'finditer', 'split', 'match', 'fullmatch', 'compile')]:
        if not (call.args and isinstance(call.args[0], ast.Constant) and isinstance(call.args[0].value, str)):
            continue
        pat = call.args[0].value
        if not re.search(r'[A-Y]', pat):
            continue
        n += 1
        try:
            tree = sre_parse.parse(pat)
        except Exception as ex:  # noqa: BLE001
            ctx.ob('step-tokens', f're@{call.lineno - fn.lineno}', False, f'the step expression {pat!r} does not parse: {ex}',
                   py.where('metamath.converter.converter', call))
            continue

        def letters(item):
            op, av = item
            if str(op) == 'IN':
                out = set()
                for o, a in av:
                    if str(o) == 'RANGE':
                        out |= {chr(x) for x in range(a[0], a[1] + 1)}
                    elif str(o) == 'LITERAL':
                        out.add(chr(a))
                    else:
                        return None
                return out
            if str(op) == 'LITERAL':
                return {chr(av)}
            return None

        def number_alt(seq):
            """-> problem text or None for one alternative that spells a number"""
            items = list(seq)
            if len(items) == 1 and letters(items[0]) == {'Z'}:
                return None
            if not items:
                return 'empty alternative'
            low = letters(items[-1])
            if low != set('ABCDEFGHIJKLMNOPQRST'):
                return f'the final digit class is {sorted(low) if low else items[-1]}, not A-T'
            highs = items[:-1]
            if not highs:
                return 'no high-digit part: numbers above 20 cannot be read'
            if len(highs) != 1 or str(highs[0][0]) not in ('MAX_REPEAT', 'MIN_REPEAT'):
                return 'the high-digit part is not one repetition'
            lo, hi, sub = highs[0][1]
            cls = letters(list(sub)[0]) if len(list(sub)) == 1 else None
            if cls != set('UVWXY'):
                return f'the high-digit class is {sorted(cls) if cls else "?"}, not U-Y'
            if lo != 0 or str(hi) != 'MAXREPEAT':
                return (f'the high digits are repeated {{{lo},{hi}}} times: a number with more high digits is cut (findall skips what it '
                        f'cannot match), so every step number above {20 * sum(5 ** i * 5 for i in range(int(hi))) + 20 if str(hi).isdigit() else "the bound"} decodes to a smaller one')
            return None

        top = list(tree)
        alts = [top]
        if len(top) == 1 and str(top[0][0]) == 'BRANCH':
            alts = [list(a) for a in top[0][1][1]]
        probs = [p_ for p_ in (number_alt(a) for a in alts) if p_]
        ctx.ob('step-tokens', f're@{call.lineno - fn.lineno}', not probs,
               f'steps are cut out of the proof with {pat!r}: ' + '; '.join(probs), py.where('metamath.converter.converter', call))
    # the loop form: letters are collected into a buffer until a closing (A..T) letter; the buffer must be emptied on exactly
    # the iterations that close a number - otherwise the next number carries the previous one's high digits (or loses its own).
    # The collecting code is a region with a letter variable (a loop over the letters, or a method fed one letter at a time) and
    # a buffer (a local, or an attribute of the object) extended by that letter; the closing test is `letter in <the A..T table>`
    # (directly, or through an attribute the constructor binds to the table at every instantiation).
    from ..core import astpaths as AP
    tables = find_tables(py, fn)
    ls_names = [nm for nm, v in tables.items() if len(v[0]) >= 10 or any(k == 'A' for k, _x in v[0])]
    n_loops = 0
    mi = py.modules['metamath.converter.converter']

    def is_ls(x: str, ci) -> bool:
        if len(ls_names) != 1:
            return False
        if x == ls_names[0]:
            return True
        m_ = re.fullmatch(r'self\.(\w+)', x)
        if not m_ or ci is None or '__init__' not in ci.methods:
            return False
        init = ci.methods['__init__']
        params = [a.arg for a in init.args.args][1:]
        src = [ast.unparse(n.value) for n in ast.walk(init) if isinstance(n, (ast.Assign, ast.AnnAssign)) and n.value is not None
               and ast.unparse(n.targets[0] if isinstance(n, ast.Assign) else n.target) == x]
        if len(src) != 1 or src[0] not in params:
            return False
        k = params.index(src[0])
        made = [c for c in ast.walk(mi.tree) if isinstance(c, ast.Call) and isinstance(c.func, ast.Name) and c.func.id == ci.name]
        return bool(made) and all(len(c.args) > k and isinstance(c.args[k], ast.Name) and c.args[k].id == ls_names[0] for c in made)

    regions = [(lp.target.id, lp.body, lp, None) for lp in ast.walk(fn) if isinstance(lp, ast.For) and isinstance(lp.target, ast.Name)]
    # a loop with one letter of look-ahead (`for letter, following in pairwise(text + ' ')`, `zip(text, text[1:] + ' ')`): the first
    # component is the letter the iteration is about - what it does for that letter is judged exactly like in the plain loop
    for lp in ast.walk(fn):
        if isinstance(lp, ast.For) and isinstance(lp.target, ast.Tuple) and len(lp.target.elts) == 2 and all(isinstance(t, ast.Name) for t in lp.target.elts) \
                and isinstance(lp.iter, ast.Call) and isinstance(lp.iter.func, ast.Name) and lp.iter.func.id in ('pairwise', 'zip'):
            regions.append((lp.target.elts[0].id, lp.body, lp, None))
    for c in mi.classes.values():
        for g in c.methods.values():
            if g is not fn and len(g.args.args) == 2:
                regions.append((g.args.args[1].arg, g.body, g, c))
    for letter, body, node, ci in regions:
        bufs = {ast.unparse(st.target) for st in ast.walk(node) if isinstance(st, ast.AugAssign) and isinstance(st.op, ast.Add)
                and isinstance(st.target, (ast.Name, ast.Attribute)) and isinstance(st.value, ast.Name) and st.value.id == letter}
        if len(bufs) != 1:
            continue
        buf = next(iter(bufs))
        all_paths = AP.paths(body)
        tests = {c_ for sp in all_paths for c_, _b in sp.conds if c_.startswith(f'{letter} in ') and is_ls(c_[len(letter) + 4:], ci)}
        if len(tests) != 1:
            continue
        closing = next(iter(tests))
        n_loops += 1
        bad = []
        for sp in all_paths:
            if sp.end == 'raise':
                continue
            h = sp.holds(closing)
            resets = [a for a in sp.actions if isinstance(a, (ast.Assign, ast.AnnAssign)) and a.value is not None
                      and ast.unparse(a.targets[0] if isinstance(a, ast.Assign) else a.target) == buf]
            collects = [a for a in sp.actions if isinstance(a, ast.AugAssign) and ast.unparse(a.target) == buf]
            emptied = bool(resets) and isinstance(resets[-1].value, ast.Constant) and resets[-1].value.value == '' \
                and not any(c_.lineno > resets[-1].lineno for c_ in collects)
            if h is True and not emptied:
                bad.append('the buffer is not emptied after a closing letter')
            if h is False and resets:
                bad.append('the buffer is emptied on a letter that does not close a number')
        # every token is recorded: a closing letter appends exactly one number decoded from the buffer, `Z` appends exactly one
        # marker constant while the buffer is empty, nothing else appends
        zc = next((c_ for sp in all_paths for c_, _b in sp.conds if c_ == f"{letter} == 'Z'"), None)

        def appends(sp):
            return [c for a in sp.actions for c in ast.walk(a) if isinstance(c, ast.Call) and isinstance(c.func, ast.Attribute)
                    and c.func.attr == 'append' and len(c.args) == 1]
        bad2 = []
        markers = set()
        for sp in all_paths:
            if sp.end == 'raise':
                continue
            aps = appends(sp)
            if zc is not None and sp.holds(zc) is True:
                if len(aps) != 1 or not isinstance(aps[0].args[0], ast.Constant):
                    bad2.append('a `Z` does not record exactly one marker')
                else:
                    markers.add(aps[0].args[0].value)
                    if not isinstance(aps[0].args[0].value, int) or aps[0].args[0].value >= 1:
                        bad2.append(f'the `Z` marker {aps[0].args[0].value!r} is itself a step number (they start at 1)')
                if not any(isinstance(a, ast.Assert) and ast.unparse(a.test) in (f"{buf} == ''", f'not {buf}', f'len({buf}) == 0') for a in sp.actions):
                    bad2.append('a `Z` inside a number (non-empty buffer) is not rejected')
            elif sp.holds(closing) is True:
                # what is recorded is computed from the letters collected (the buffer and the closing letter), directly or through
                # locals of this iteration
                taint = {buf, letter}
                for _round in range(4):
                    for a in sp.actions:
                        for x in ast.walk(a):
                            if isinstance(x, (ast.Assign, ast.AnnAssign, ast.AugAssign)) and x.value is not None:
                                t_ = x.targets[0] if isinstance(x, ast.Assign) else x.target
                                if any(ast.unparse(y) in taint for y in ast.walk(x.value) if isinstance(y, (ast.Name, ast.Attribute))):
                                    taint.add(ast.unparse(t_))
                            elif isinstance(x, ast.For) and any(ast.unparse(y) in taint for y in ast.walk(x.iter) if isinstance(y, (ast.Name, ast.Attribute))):
                                taint |= {y.id for y in ast.walk(x.target) if isinstance(y, ast.Name)}
                nums = [c for c in aps if any(ast.unparse(x) in taint for x in ast.walk(c.args[0]) if isinstance(x, (ast.Name, ast.Attribute)))]
                if len(aps) != 1 or len(nums) != 1:
                    bad2.append('a closing letter does not record exactly one number decoded from the buffer')
            elif aps:
                bad2.append('a letter that closes nothing records a step')
        if zc is None:
            bad2.append("no test `<letter> == 'Z'` found: the save marker is not told apart from the digits")
        ctx.ob('step-tokens', f'every-token-recorded@{getattr(node, "name", "loop")}', not bad2,
               'the steps of a compressed proof: ' + '; '.join(sorted(set(bad2))) + ' - the replay would run out of step with the proof',
               py.where('metamath.converter.converter', node), facts={'Z marker': sorted(markers)})
        ctx.analysed['Z marker'] = sorted(markers)
        ctx.ob('step-tokens', f'buffer-reset@{getattr(node, "name", "loop")}', not bad,
               f'`{buf}` collects the letters of one number: ' + '; '.join(sorted(set(bad)))
               + ' - the next number would be decoded with the wrong high digits', py.where('metamath.converter.converter', node))
    ctx.require(n + n_loops >= 1, 'anchor vanished: neither a regular expression over the proof letters nor a loop / method collecting '
                                  'letters up to a closing A..T letter was found - how the proof string is cut into steps is not known')
    ctx.ob('step-tokens', 'scan', True, f'{n} regular expressions over proof letters examined, {n_loops} letter-collecting loops', '')


def identity_by_hash(ctx, py: PyRepo, modules=('metamath.ast', 'metamath.converter.converter'), what='term'):
    """which hypotheses are mandatory is decided from the variables of the statement (Term.get_metavariables); terms are told
    apart structurally.  `hash(term)` as an identity (visited sets, memo keys) merges distinct terms - Application.__hash__ is an XOR
    of its parts, so e.g. `( f x x )` hashes alike for every x - and the variables of a merged term are lost."""
    n = 0
    for mname in modules:
        mi = py.modules.get(mname)
        if mi is None:
            continue
        for c in list(mi.classes.values()):
            for fname, f in c.methods.items():
                if fname == '__hash__':
                    continue
                for node in ast.walk(f):
                    if isinstance(node, ast.Call) and isinstance(node.func, ast.Name) and node.func.id in ('hash', 'id'):
                        n += 1
                        ctx.ob('identity-by-hash', f'{c.name}.{fname}', False,
                               f'{c.name}.{fname} uses `{ast.unparse(node)[:50]}` as the identity of a {what}: two different {what}s can have the '
                               f'same hash, and what is skipped as "already seen" (its variables, its conversion, its text) is lost', py.where(mname, node))
    ctx.ob('identity-by-hash', 'scan', True, f'{n} uses outside __hash__', '')


def label_tokens(ctx, py: PyRepo, fn):
    """labels are registered under consecutive numbers; an empty token registered as a label shifts every number after it.
    `text.split(sep)` with an explicit separator yields [''] for empty text (and '' between doubled separators) - unlike
    `text.split()` - so a label list read that way must filter empty tokens (the empty list `( )` is a legal label list)."""
    fn = _sums_as_loops(fn)
    n = 0
    for loop in [x for x in ast.walk(fn) if isinstance(x, ast.For)]:
        it = loop.iter
        while isinstance(it, ast.Call) and isinstance(it.func, ast.Name) and it.func.id in ('list', 'tuple', 'enumerate', 'iter') and it.args:
            it = it.args[0]
        if not (isinstance(it, ast.Call) and isinstance(it.func, ast.Attribute) and it.func.attr in ('split', 'rsplit')):
            continue
        explicit_sep = bool(it.args) and not (isinstance(it.args[0], ast.Constant) and it.args[0].value is None)
        tgt = loop.target.elts[-1] if isinstance(loop.target, ast.Tuple) else loop.target
        if not isinstance(tgt, ast.Name):
            continue
        stores = [s for s in ast.walk(loop) if isinstance(s, ast.Assign) and isinstance(s.targets[0], ast.Subscript)
                  and isinstance(s.value, ast.Name) and s.value.id == tgt.id]
        if not stores:
            continue
        n += 1
        guarded = any(isinstance(g, ast.If) and re.search(rf'\b(not )?{tgt.id}\b', ast.unparse(g.test)) for g in ast.walk(loop))
        ctx.ob('label-tokens', f'split@{loop.lineno - fn.lineno}', (not explicit_sep) or guarded,
               f'labels are registered from `{ast.unparse(it)[:60]}`: with an explicit separator an empty label list yields the token \'\' '
               f'which is registered as a label, so the first marked step gets the wrong number', py.where('metamath.converter.converter', loop))
    # the character-scanning form: a text buffer extended letter by letter and handed on (stored under a number, yielded, appended)
    # at a divider.  The property quantifies over all whitespace layouts, so the divider is ANY whitespace: on every path that hands
    # the buffer on, `<letter>.isspace()` holds - a comparison with the space character alone merges labels separated by a newline
    from ..core import astpaths as AP
    m = 0
    for lp in [x for x in ast.walk(fn) if isinstance(x, ast.For) and isinstance(x.target, (ast.Name, ast.Tuple))]:
        tnames = [t.id for t in ([lp.target] if isinstance(lp.target, ast.Name) else lp.target.elts) if isinstance(t, ast.Name)]
        bufs = {st.target.id: st.value.id for st in ast.walk(lp) if isinstance(st, ast.AugAssign) and isinstance(st.op, ast.Add)
                and isinstance(st.target, ast.Name) and isinstance(st.value, ast.Name) and st.value.id in tnames}
        if len(bufs) != 1:
            continue
        buf, letter = next(iter(bufs.items()))

        def hands_on(a):
            for x in ast.walk(a):
                if isinstance(x, ast.Assign) and isinstance(x.targets[0], ast.Subscript) and isinstance(x.value, ast.Name) and x.value.id == buf:
                    return True
                if isinstance(x, (ast.Yield,)) and isinstance(x.value, ast.Name) and x.value.id == buf:
                    return True
                if isinstance(x, ast.Call) and isinstance(x.func, ast.Attribute) and x.func.attr == 'append' and len(x.args) == 1 \
                        and isinstance(x.args[0], ast.Name) and x.args[0].id == buf:
                    return True
            return False
        paths_ = AP.paths(lp.body)
        flush = [sp for sp in paths_ if any(hands_on(a) for a in sp.actions)]
        # only loops whose divider is a test on the letter itself (label lists); a buffer closed by a table lookup is another rule
        if not flush or not any(c.startswith(f'{letter}.') or c.startswith(f'{letter} ==') or c.startswith(f'{letter} in') for sp in flush for c, _b in sp.conds):
            continue
        if any(c.startswith(f'{letter} in ') and not c.startswith(f'{letter} in (') and not c.startswith(f"{letter} in '") for sp in flush for c, _b in sp.conds):
            continue
        m += 1
        bad = [sp for sp in flush if sp.holds(f'{letter}.isspace()') is not True]
        ctx.ob('label-tokens', f'divider-is-any-whitespace@{lp.lineno - fn.lineno}', not bad,
               f'the listed labels are cut where ' + ' / '.join(sorted({c for sp in bad for c, b in sp.conds if b and c.startswith(letter)})[:2])
               + f' holds, not at any whitespace (`{letter}.isspace()`): a label list laid out with newlines or tabs is read as one label and '
               f'every later number denotes the wrong label', py.where('metamath.converter.converter', lp))
    ctx.ob('label-tokens', 'scan', True, f'{n} label loops over split() examined, {m} character-scanning loops', '')


def scan_offsets(ctx, py: PyRepo, fn):
    """The label list is found by scanning the proof text with `for k, ch in enumerate(text[<lower>:])` loops that `break` at a
    character test; the position such a loop stops at is <lower> + k.  The chain must be: up to `(`; from just after it to the first
    non-blank; from THAT position to `)`; and what is handed back - where the step letters start - is the position just after the
    `)`.  Positions are compared as linear forms over the loop counters; instantiated only when the function has this shape."""
    fn = _sums_as_loops(fn)
    from .c16 import Lin, lin_index
    m = 0
    for sc in [g for g in ast.walk(fn) if isinstance(g, ast.FunctionDef) and g is not fn]:
        scans = []
        for lp in [x for x in sc.body if isinstance(x, ast.For)]:
            it = lp.iter
            if not (isinstance(it, ast.Call) and isinstance(it.func, ast.Name) and it.func.id == 'enumerate' and len(it.args) == 1
                    and isinstance(lp.target, ast.Tuple) and len(lp.target.elts) == 2 and all(isinstance(t, ast.Name) for t in lp.target.elts)):
                continue
            src = it.args[0]
            lower = Lin(0)
            base = src
            if isinstance(src, ast.Subscript) and isinstance(src.slice, ast.Slice) and src.slice.upper is None and src.slice.step is None:
                base = src.value
                try:
                    lower = lin_index(src.slice.lower, {}) if src.slice.lower is not None else Lin(0)
                except ValueError:
                    continue
            if not isinstance(base, ast.Name):
                continue
            k, ch = lp.target.elts[0].id, lp.target.elts[1].id
            # the test under which the loop breaks
            stops = []
            for sp in __import__('sa.core.astpaths', fromlist=['paths']).paths(lp.body):
                if sp.end == 'break':
                    stops.append([(c, b) for c, b in sp.conds if c.startswith(ch)])
            scans.append((lp, base.id, lower, k, ch, stops))
        rets = [r for r in ast.walk(sc) if isinstance(r, ast.Return) and r.value is not None]
        if len(scans) != 3 or len(rets) != 1 or len({b for _l, b, *_r in scans}) != 1:
            continue
        rv = rets[0].value
        if isinstance(rv, ast.Tuple):
            # the offset handed back together with something else (`return labels, offset`): the component that is a position
            counters = {k_ for _l, _b, _lo, k_, _c, _s in scans}
            pos = [e for e in rv.elts if {x.id for x in ast.walk(e) if isinstance(x, ast.Name)} & counters]
            if len(pos) != 1:
                continue
            rv = pos[0]
        try:
            ret = lin_index(rv, {})
        except ValueError:
            continue
        m += 1
        (l1, _b, lo1, k1, c1, s1), (l2, _b2, lo2, k2, c2, s2), (l3, _b3, lo3, k3, c3, s3) = scans
        P1 = lo1 + Lin(0, {k1: 1})
        P2 = lo2 + Lin(0, {k2: 1})
        P3 = lo3 + Lin(0, {k3: 1})
        probs = []
        if s1 != [[(f"{c1} == '('", True)]]:
            probs.append('the first scan does not stop exactly at `(`')
        if lo2 != P1 + Lin(1):
            probs.append(f'the second scan starts at {lo2}, not just after the `(` ({P1 + Lin(1)})')
        if s2 != [[(f'{c2}.isspace()', False)]]:
            probs.append('the second scan does not stop exactly at the first non-blank character')
        if lo3 != P2:
            probs.append(f'the label scan starts at {lo3}, not at the first label character ({P2})')
        if not any((f"{c3} == ')'", True) in st_ for st_ in s3):
            probs.append('the label scan does not stop at `)`')
        if ret != P3 + Lin(1):
            probs.append(f'the offset handed back is {ret}; the step letters start just after the `)` ({P3 + Lin(1)})')
        ctx.ob('label-tokens', f'scan-offsets@{sc.name}', not probs,
               f'{sc.name} locates the label list by position: ' + '; '.join(probs) + ' - a label is cut, or the first step letters are '
               'lost / a `)` is read as a step', py.where(MODULE, sc))
    return m


def steps_fresh_per_proof(ctx, py: PyRepo, fn, ci):
    """the decoded step numbers of one proof are a list made for that proof: `Proof(<labels>, <steps>)` built by _import_proof must
    not be handed a list that lives on the converter or on a helper object kept by it - every earlier Proof would show the steps of
    the proof decoded last"""
    from .c16 import returned_exprs
    mi = py.modules[MODULE]

    def attr_class(owner, attr):
        """class of `self.<attr>` of `owner`, from the annotation or the constructor call in __init__"""
        init = owner.methods.get('__init__')
        if init is None:
            return None
        for n in ast.walk(init):
            if isinstance(n, (ast.Assign, ast.AnnAssign)) and ast.unparse(n.targets[0] if isinstance(n, ast.Assign) else n.target) == f'self.{attr}' \
                    and isinstance(n.value, ast.Call) and isinstance(n.value.func, ast.Name):
                return py.find_class(n.value.func.id, MODULE)
        return None

    def fresh(e, scope, owner, depth=0):
        """True | False | None (cannot tell)"""
        if depth > 6:
            return None
        if isinstance(e, (ast.List, ast.ListComp)):
            return True
        if isinstance(e, ast.Call) and isinstance(e.func, ast.Name) and e.func.id in ('list', 'sorted'):
            return True
        if isinstance(e, ast.Call) and isinstance(e.func, ast.Attribute) and e.func.attr == 'copy' and not e.args:
            return True
        if isinstance(e, ast.Subscript) and isinstance(e.slice, ast.Slice):
            return True
        if isinstance(e, ast.Attribute) and isinstance(e.value, ast.Name) and e.value.id != 'self':
            # attribute of a local object: fresh when the object is created in this call and its constructor makes the list
            inner = {id(x) for g in ast.walk(scope) if isinstance(g, ast.FunctionDef) and g is not scope for x in ast.walk(g)}
            made = [n.value for n in ast.walk(scope) if id(n) not in inner and isinstance(n, (ast.Assign, ast.AnnAssign)) and n.value is not None
                    and ast.unparse(n.targets[0] if isinstance(n, ast.Assign) else n.target) == e.value.id]
            if len(made) == 1 and isinstance(made[0], ast.Call) and isinstance(made[0].func, ast.Name):
                cls_ = py.find_class(made[0].func.id, MODULE)
                init = cls_.methods.get('__init__') if cls_ is not None else None
                if init is not None:
                    sets = [n.value for n in ast.walk(init) if isinstance(n, (ast.Assign, ast.AnnAssign)) and n.value is not None
                            and ast.unparse(n.targets[0] if isinstance(n, ast.Assign) else n.target) == f'self.{e.attr}']
                    if sets:
                        vals = [fresh(v, init, cls_, depth + 1) for v in sets]
                        return False if False in vals else (None if None in vals else True)
            return None
        if isinstance(e, ast.Attribute):
            return False                          # state of an object that outlives the call
        if isinstance(e, ast.Name):
            inner = {id(x) for g in ast.walk(scope) if isinstance(g, ast.FunctionDef) and g is not scope for x in ast.walk(g)}
            defs = [n for n in ast.walk(scope) if id(n) not in inner and isinstance(n, (ast.Assign, ast.AnnAssign)) and n.value is not None
                    and isinstance(n.targets[0] if isinstance(n, ast.Assign) else n.target, ast.Name)
                    and (n.targets[0] if isinstance(n, ast.Assign) else n.target).id == e.id]
            if not defs:
                return None
            vals = [fresh(d.value, scope, owner, depth + 1) for d in defs]
            return False if False in vals else (None if None in vals else True)
        if isinstance(e, ast.Call):
            callee = own2 = None
            if isinstance(e.func, ast.Name):
                callee = next((g for g in ast.walk(fn) if isinstance(g, ast.FunctionDef) and g.name == e.func.id), None) or mi.functions.get(e.func.id)
                own2 = owner
            elif isinstance(e.func, ast.Attribute) and ast.unparse(e.func.value) == 'self' and owner is not None:
                callee, own2 = owner.methods.get(e.func.attr), owner
            elif isinstance(e.func, ast.Attribute) and isinstance(e.func.value, ast.Attribute) and ast.unparse(e.func.value.value) == 'self' and owner is not None:
                own2 = attr_class(owner, e.func.value.attr)
                callee = own2.methods.get(e.func.attr) if own2 is not None else None
            if callee is None:
                return None
            rets = returned_exprs(callee)
            if not rets:
                return None
            vals = [fresh(v, callee, own2, depth + 1) for _st, v in rets]
            return False if False in vals else (None if None in vals else True)
        return None

    sites = [c for c in ast.walk(fn) if isinstance(c, ast.Call) and isinstance(c.func, ast.Name) and c.func.id == 'Proof' and len(c.args) == 2]
    ctx.require(len(sites) >= 1, '_import_proof: the construction `Proof(<labels>, <steps>)` was not found')
    for k, c in enumerate(sites):
        scope = next((g for g in ast.walk(fn) if isinstance(g, ast.FunctionDef) and g is not fn and any(c is x for x in ast.walk(g))), fn)
        v = fresh(c.args[1], scope, ci)
        ctx.require(v is not None, f'_import_proof: cannot tell where the list of steps `{ast.unparse(c.args[1])[:60]}` comes from')
        ctx.ob('step-tokens', 'steps-fresh-per-proof' + ('' if k == 0 else f'#{k + 1}'), v,
               f'`{ast.unparse(c.args[1])[:60]}` is a list that outlives this proof (state of the converter or of an object it keeps): '
               f'every Proof built earlier shares it and shows the steps of the proof decoded last', py.where(MODULE, c))


_VIEW = {}


def _sums_as_loops(fn):
    """_import_proof as the rules read it (a copy; a function none of this applies to is handed back as it is): every
    `sum(<generator>)` of its nested functions written as the loop it abbreviates; a scan by position
    (`for p in range(lo, len(S)): .. S[p] ..`) written as the scan over the characters (`for k, ch in enumerate(S[lo:])`), and a local
    that only names the current character replaced by it."""
    import copy
    from ..core import pynormal as N
    if id(fn) in _VIEW:
        return _VIEW[id(fn)][1]
    g = copy.deepcopy(fn)
    k = 0
    for sc in reversed([x for x in ast.walk(g) if isinstance(x, ast.FunctionDef)]):          # innermost first
        k += N.sum_generator_to_loop(sc)
        j = N.index_scan_to_enumerate(sc)
        if j:
            N.propagate_block_constants(sc)
        k += j
    out = g if k else fn
    _VIEW[id(fn)] = (fn, out)
    _VIEW[id(out)] = (out, out)
    return out


def _joined(fn):
    """fn with the local helpers that return a value and are called once written out at their call (`x = h(..)`,
    `a, b = h(..)`), single-use temporaries folded, displays unpacked and stable aliases substituted: the scan that collects the
    labels and the loop that numbers them are then in one scope whether or not the project keeps them in one function"""
    import copy
    from ..core import pynormal as N
    defs = {}
    for g in ast.walk(fn):
        if isinstance(g, ast.FunctionDef) and g is not fn:
            defs.setdefault(g.name, []).append(g)
    once = {}
    for name, gs in defs.items():
        calls = [c for c in ast.walk(fn) if isinstance(c, ast.Call) and isinstance(c.func, ast.Name) and c.func.id == name]
        refs = [x for x in ast.walk(fn) if isinstance(x, ast.Name) and x.id == name]
        if len(gs) == 1 and len(calls) == 1 and len(refs) == 1 and any(isinstance(r, ast.Return) and r.value is not None for r in ast.walk(gs[0])) \
                and any(isinstance(x, ast.For) for x in ast.walk(gs[0])):
            once[name] = gs[0]
    if not once:
        return fn
    g = N.expand_assigned_calls(fn, lambda nm: once.get(nm), rounds=3)
    gone = {nm for nm in once if not any(isinstance(c, ast.Call) and isinstance(c.func, ast.Name) and c.func.id == nm for c in ast.walk(g))}
    if not gone:
        return fn
    for holder in ast.walk(g):
        if isinstance(getattr(holder, 'body', None), list):
            holder.body[:] = [x for x in holder.body if not (isinstance(x, ast.FunctionDef) and x.name in gone)] or [ast.Pass()]
    for sc in [x for x in ast.walk(g) if isinstance(x, ast.FunctionDef)]:
        for _ in range(3):
            k = N.unpack_display_assign(sc)
            N.fold_temporaries(ast.Module(body=[sc], type_ignores=[]))
            k += N.unpack_display_assign(sc) + N.propagate_block_constants(sc)
            if not k:
                break
    return ast.fix_missing_locations(g)


def _collected_then_numbered(ctx, py, sc, inner) -> int:
    """the two-phase spelling: a scan collects the listed labels in a list (`L.append(<label collected so far>)`), a later loop over
    that list registers them.  The labels get consecutive numbers after the mandatory hypotheses iff the scan appends every label
    once, in order, and the registering loop gives the i-th element the number len(T) + 1 + i."""
    from ..core import astpaths as AP
    n = 0
    own = [x for x in ast.walk(sc) if id(x) not in inner]
    for lp in [x for x in own if isinstance(x, ast.For)]:
        apps = [c for c in ast.walk(lp) if isinstance(c, ast.Call) and isinstance(c.func, ast.Attribute) and c.func.attr in ('append', 'insert', 'appendleft')
                and isinstance(c.func.value, ast.Name) and c.args and isinstance(c.args[-1], ast.Name)]
        if len(apps) != 1:
            continue
        L, B = apps[0].func.value.id, apps[0].args[-1].id
        if not any(isinstance(a, ast.AugAssign) and isinstance(a.target, ast.Name) and a.target.id == B and isinstance(a.op, ast.Add) for a in ast.walk(lp)):
            continue
        # the list is created empty before the scan, and apart from the append it is only iterated by the registering loop
        inits = [a for a in own if isinstance(a, (ast.Assign, ast.AnnAssign)) and a.value is not None
                 and isinstance(a.targets[0] if isinstance(a, ast.Assign) else a.target, ast.Name)
                 and (a.targets[0] if isinstance(a, ast.Assign) else a.target).id == L]
        uses = [x for x in own if isinstance(x, ast.Name) and x.id == L and isinstance(x.ctx, ast.Load) and x is not apps[0].func.value]
        def plain(e):
            # list(L) / tuple(L) / iter(L) / L[:] run over L in its order
            while True:
                if isinstance(e, ast.Call) and isinstance(e.func, ast.Name) and e.func.id in ('list', 'tuple', 'iter') and len(e.args) == 1 and not e.keywords:
                    e = e.args[0]
                elif isinstance(e, ast.Subscript) and isinstance(e.slice, ast.Slice) and e.slice.lower is None and e.slice.upper is None and e.slice.step is None:
                    e = e.value
                else:
                    return e
        regs = [f for f in own if isinstance(f, ast.For) and f is not lp and any(isinstance(x, ast.Name) and x.id == L for x in ast.walk(f.iter))]
        if not regs and len(uses) == 1:
            # the collected list is passed on under another name first (`M = sorted(L)`): the loop over M is judged on that expression
            via = [a for a in own if isinstance(a, ast.Assign) and len(a.targets) == 1 and isinstance(a.targets[0], ast.Name)
                   and any(uses[0] is x for x in ast.walk(a.value))]
            if len(via) == 1:
                M = via[0].targets[0].id
                m_regs = [f for f in own if isinstance(f, ast.For) and f is not lp and any(isinstance(x, ast.Name) and x.id == M for x in ast.walk(f.iter))]
                m_uses = [x for x in own if isinstance(x, ast.Name) and x.id == M and isinstance(x.ctx, ast.Load)]
                if len(m_regs) == 1 and len(m_uses) == 1 and len([x for x in own if isinstance(x, ast.Name) and x.id == M and isinstance(x.ctx, ast.Store)]) == 1:
                    import copy

                    class _M(ast.NodeTransformer):
                        def visit_Name(self, x):
                            return copy.deepcopy(via[0].value) if x.id == M and isinstance(x.ctx, ast.Load) else x
                    m_regs[0].iter = _M().visit(m_regs[0].iter)
                    regs = m_regs
        for f in regs:
            f.iter = plain(f.iter)
            if isinstance(f.iter, ast.Call) and isinstance(f.iter.func, ast.Name) and f.iter.func.id == 'enumerate' and f.iter.args:
                f.iter.args[0] = plain(f.iter.args[0])
        if len(inits) != 1 or not (isinstance(inits[0].value, ast.List) and not inits[0].value.elts) or len(regs) != 1 or len(uses) != 1:
            continue
        reg = regs[0]
        body = [b for b in reg.body if not isinstance(b, ast.Pass)]
        stores = [b for b in body if isinstance(b, ast.Assign) and len(b.targets) == 1 and isinstance(b.targets[0], ast.Subscript)
                  and isinstance(b.targets[0].value, ast.Name)]
        if len(stores) != 1:
            continue
        n += 1
        where = py.where('metamath.converter.converter', reg)
        T = stores[0].targets[0].value.id
        key = stores[0].targets[0].slice
        start = f'len({T}) + 1'

        def is_start(e):
            return isinstance(e, ast.BinOp) and isinstance(e.op, ast.Add) and sorted([ast.unparse(e.left), ast.unparse(e.right)]) == sorted([f'len({T})', '1'])
        elem = idx = None
        in_order = (isinstance(reg.iter, ast.Name) and reg.iter.id == L) or (
            isinstance(reg.iter, ast.Call) and isinstance(reg.iter.func, ast.Name) and reg.iter.func.id == 'enumerate' and reg.iter.args
            and isinstance(reg.iter.args[0], ast.Name) and reg.iter.args[0].id == L)
        if isinstance(reg.iter, ast.Name) and isinstance(reg.target, ast.Name):
            elem = reg.target.id
        elif isinstance(reg.iter, ast.Call) and isinstance(reg.target, ast.Tuple) and len(reg.target.elts) == 2 \
                and all(isinstance(t, ast.Name) for t in reg.target.elts):
            idx, elem = reg.target.elts[0].id, reg.target.elts[1].id
        ok_start = ok_step = False
        found = ast.unparse(key)
        if is_start(key) and len(body) == 1:
            ok_start = ok_step = True                                  # T grows by one per iteration: len(T) + 1 is the next number
        elif idx is not None and isinstance(key, ast.Name) and key.id == idx and len(body) == 1:
            st_arg = reg.iter.args[1] if len(reg.iter.args) == 2 else next((k.value for k in reg.iter.keywords if k.arg == 'start'), None)
            ok_start, ok_step = st_arg is not None and is_start(st_arg), True
            found = f'enumerate(.., {ast.unparse(st_arg) if st_arg is not None else 0})'
        elif isinstance(key, ast.Name) and len(body) == 2 and isinstance(body[1], ast.AugAssign) and body[0] is stores[0]:
            K = key.id
            kin = [a for a in own if isinstance(a, (ast.Assign, ast.AnnAssign)) and a.value is not None
                   and isinstance(a.targets[0] if isinstance(a, ast.Assign) else a.target, ast.Name)
                   and (a.targets[0] if isinstance(a, ast.Assign) else a.target).id == K]
            ok_start = len(kin) == 1 and is_start(kin[0].value) and kin[0].lineno < reg.lineno \
                and not any(isinstance(x, ast.Subscript) and isinstance(x.ctx, ast.Store) and isinstance(x.value, ast.Name) and x.value.id == T
                            and kin[0].lineno < x.lineno < reg.lineno for x in own)
            ok_step = isinstance(body[1].target, ast.Name) and body[1].target.id == K and isinstance(body[1].op, ast.Add) and ast.unparse(body[1].value) == '1'
            found = ast.unparse(kin[0].value) if len(kin) == 1 else '?'
        if not in_order and isinstance(reg.target, ast.Name):
            elem = reg.target.id
        ok_val = isinstance(stores[0].value, ast.Name) and stores[0].value.id == elem
        ok_after = reg.lineno > lp.lineno or any(reg is x for x in sc.body[next((i for i, b in enumerate(sc.body) if any(lp is y for y in ast.walk(b))), 0) + 1:])
        ctx.ob('hypothesis-order', 'label-numbering/starts-after-the-hypotheses', ok_start,
               f'the listed labels are numbered from `{found}`; they must continue after the mandatory hypotheses already in `{T}` '
               f'({start}), or every label number is off', where)
        bad = []
        if not ok_step:
            bad.append('the number is not advanced by exactly one per listed label')
        if not ok_val:
            bad.append(f'`{ast.unparse(stores[0].value)}` is registered, not the listed label')
        if not ok_after:
            bad.append('the labels are registered before they are collected')
        if not in_order:
            bad.append(f'the labels are registered by a loop over `{ast.unparse(reg.iter)}`, not over the collected list `{L}` in the order listed')
        if apps[0].func.attr != 'append' or len(apps[0].args) != 1:
            bad.append(f'a label is collected with `{ast.unparse(apps[0])}`, not appended in the order listed')
        for sp in AP.paths(lp.body):
            if sp.end == 'raise':
                continue
            ap_at = [i for i, a in enumerate(sp.actions) if any(apps[0] is x for x in ast.walk(a))] if not isinstance(sp.actions, str) else []
            resets = [i for i, a in enumerate(sp.actions) if isinstance(a, ast.Assign) and ast.unparse(a.targets[0]) == B
                      and isinstance(a.value, ast.Constant) and a.value.value == '']
            if len(ap_at) > 1:
                bad.append('a label is collected twice')
            if ap_at and sp.end != 'break' and not (resets and resets[-1] > ap_at[0]):
                bad.append(f'`{B}` is not emptied after a label is collected')
            if not ap_at and sp.end not in ('break', 'return') and not any(isinstance(a, ast.AugAssign) and isinstance(a.target, ast.Name)
                                                                             and a.target.id == B for a in sp.actions) \
                    and not any(c_.endswith('.isspace()') and b_ for c_, b_ in sp.conds):
                bad.append(f'a character of a label is not added to `{B}`')
        ctx.ob('hypothesis-order', 'label-numbering/consecutive', not bad,
               'the listed labels must get consecutive numbers: ' + '; '.join(sorted(set(bad))), where)
    return n


def label_numbering(ctx, py: PyRepo, fn):
    """the labels listed in parentheses are numbered consecutively after the mandatory hypotheses: the loop that registers them
    (`T[k] = <label collected so far>`) starts at k = len(T) + 1, and every iteration that registers a label advances k by one and
    starts a new label; an iteration that registers nothing leaves k alone"""
    fn = _sums_as_loops(fn)
    from ..core import astpaths as AP
    n = 0
    fn = _joined(fn)
    scopes = [g for g in ast.walk(fn) if isinstance(g, ast.FunctionDef)]
    for sc in scopes:
        inner = {id(x) for g in ast.walk(sc) if isinstance(g, ast.FunctionDef) and g is not sc for x in ast.walk(g)}
        n += _collected_then_numbered(ctx, py, sc, inner)
        for lp in [x for x in ast.walk(sc) if isinstance(x, ast.For) and id(x) not in inner]:
            stores = [st for st in ast.walk(lp) if isinstance(st, ast.Assign) and len(st.targets) == 1 and isinstance(st.targets[0], ast.Subscript)
                      and isinstance(st.targets[0].value, ast.Name) and isinstance(st.targets[0].slice, ast.Name) and isinstance(st.value, ast.Name)]
            if len(stores) != 1:
                continue
            T, K, B = stores[0].targets[0].value.id, stores[0].targets[0].slice.id, stores[0].value.id
            # B is a text buffer extended letter by letter in this loop
            if not any(isinstance(a, ast.AugAssign) and isinstance(a.target, ast.Name) and a.target.id == B and isinstance(a.op, ast.Add) for a in ast.walk(lp)):
                continue
            n += 1
            where = py.where('metamath.converter.converter', lp)
            inits = [a for a in ast.walk(sc) if id(a) not in inner and isinstance(a, (ast.Assign, ast.AnnAssign)) and a.value is not None
                     and isinstance(a.targets[0] if isinstance(a, ast.Assign) else a.target, ast.Name)
                     and (a.targets[0] if isinstance(a, ast.Assign) else a.target).id == K and a.lineno < lp.lineno]
            init = max(inits, key=lambda a: a.lineno).value if inits else None
            ok_init = isinstance(init, ast.BinOp) and isinstance(init.op, ast.Add) and \
                sorted([ast.unparse(init.left), ast.unparse(init.right)]) == sorted([f'len({T})', '1'])
            ctx.ob('hypothesis-order', 'label-numbering/starts-after-the-hypotheses', ok_init,
                   f'the listed labels are numbered from `{ast.unparse(init) if init is not None else "?"}`; they must continue after the '
                   f'mandatory hypotheses already in `{T}` (len({T}) + 1), or every label number is off', where)
            bad = []
            for sp in AP.paths(lp.body):
                if sp.end == 'raise':
                    continue
                st_at = [i for i, a in enumerate(sp.actions) if a is stores[0]]
                incs = [i for i, a in enumerate(sp.actions) if isinstance(a, ast.AugAssign) and isinstance(a.target, ast.Name) and a.target.id == K]
                other = [a for a in sp.actions if isinstance(a, (ast.Assign, ast.AnnAssign)) and a is not stores[0]
                         and ast.unparse(a.targets[0] if isinstance(a, ast.Assign) else a.target) == K]
                resets = [i for i, a in enumerate(sp.actions) if isinstance(a, ast.Assign) and ast.unparse(a.targets[0]) == B
                          and isinstance(a.value, ast.Constant) and a.value.value == '']
                if other:
                    bad.append(f'`{K}` is re-bound inside the loop')
                elif st_at:
                    one = len(incs) == 1 and incs[0] > st_at[0] and isinstance(sp.actions[incs[0]].op, ast.Add) \
                        and ast.unparse(sp.actions[incs[0]].value) == '1'
                    if not one:
                        bad.append(f'`{K}` is not advanced by exactly one after a label is registered')
                    if sp.end != 'break' and not (resets and resets[-1] > st_at[0]):
                        bad.append(f'`{B}` is not emptied after a label is registered')
                elif incs:
                    bad.append(f'`{K}` is advanced on an iteration that registers no label')
                if not st_at and sp.end not in ('break', 'return') and not any(isinstance(a, ast.AugAssign) and isinstance(a.target, ast.Name)
                                                                                 and a.target.id == B for a in sp.actions) \
                        and not any(c_.endswith('.isspace()') and b_ for c_, b_ in sp.conds):
                    bad.append(f'a character of a label is not added to `{B}`')
            ctx.ob('hypothesis-order', 'label-numbering/consecutive', not bad,
                   'the listed labels must get consecutive numbers: ' + '; '.join(sorted(set(bad))), where)
    return n


def run(ctx):
    py = PyRepo.get()
    ci = py.cls('MetamathConverter')
    fn = ci.methods.get('_import_proof')
    ctx.require(fn is not None, 'anchor vanished: MetamathConverter._import_proof')
    fn = _sums_as_loops(fn)
    names, decoder = digit_tables(ctx, py, fn)
    digit_order(ctx, py, fn, names, decoder)
    numbering(ctx, py, fn, ci)
    # the ordered source really is an insertion-ordered list appended while the database is read in order
    init = ci.methods.get('__init__')
    ann_ok = any(isinstance(n, ast.AnnAssign) and ast.unparse(n.target) == f'self.{ORDERED_ATTR}' and ast.unparse(n.annotation).startswith('list')
                 for n in ast.walk(init))
    ctx.ob('hypothesis-order', 'ordered-source-is-a-list', ann_ok,
           f'self.{ORDERED_ATTR} must be a list (insertion = database order)', py.where('metamath.converter.converter', init))
    label_tokens(ctx, py, fn)
    n_ln = label_numbering(ctx, py, fn)
    ctx.require(n_ln >= 1 or any(isinstance(x, ast.Call) and isinstance(x.func, ast.Attribute) and x.func.attr == 'split' for x in ast.walk(fn)),
                'anchor vanished: the loop that registers the listed labels under consecutive numbers (or a split() of the label list)')
    steps_fresh_per_proof(ctx, py, fn, ci)
    scan_offsets(ctx, py, fn)
    step_tokens(ctx, py, fn)
    identity_by_hash(ctx, py)
    # where the numbers past the label list are resolved: the k-th Z opens the k-th slot, number n reloads slot n - len(labels) - 1
    from .c16 import memory_map_standalone
    memory_map_standalone(ctx, py)
    ctx.floor('digit-table', 2)
    ctx.floor('hypothesis-order', 3)
    ctx.floor('digit-order', 2)
    ctx.explanation = (
        'Two structural clauses of the compressed-proof decoder: the two letter tables are exactly A..T -> 1..20 and U..Y -> 1..5 without '
        'gaps or duplicates and are combined with the weights 20 * 5^i; the mandatory hypotheses are numbered 1, 2, ... by a loop whose '
        'source is derived from the insertion-ordered list of floating hypotheses (database order), never from a set (hash-seed '
        'dependent) nor merely sorted. The base-5/base-20 arithmetic on all numbers, Z handling and whitespace layouts are numeric and '
        'input dependent and are not decided.')
    ctx.assumptions = ['_floating_patterns is appended in database order while the statements are imported in order']
