"""C15 - Metamath compressed proofs: the digit tables are the specified bijections; mandatory hypotheses are numbered
from a database-ordered source (two structural clauses)."""
from __future__ import annotations

import ast

from ..core.ordertaint import OrderAnalysis
from ..core.pyfacts import PyRepo
from ..core.report import AnalysisError

LEVEL = 'other'
ORDERED_ATTR = '_floating_patterns'       # list of `$f #Pattern x` variables, appended in database order
IN_ORDER_HELPERS = {'get_metavars_in_order'}


def digit_tables(ctx, py: PyRepo, fn: ast.FunctionDef):
    want = {'lsdigit': [(chr(ord('A') + i), i + 1) for i in range(20)],       # A..T -> 1..20 (Metamath book, appendix B)
            'msdigit': [(chr(ord('U') + i), i + 1) for i in range(5)]}        # U..Y -> 1..5
    found = {}
    for node in ast.walk(fn):
        if isinstance(node, ast.Assign) and isinstance(node.targets[0], ast.Name) and isinstance(node.value, ast.Dict):
            try:
                found[node.targets[0].id] = ([(ast.literal_eval(k), ast.literal_eval(v)) for k, v in zip(node.value.keys, node.value.values)], node)
            except (ValueError, TypeError):
                pass
    # identify the two tables by content shape, not by name: letter -> small int
    tables = {n: v for n, v in found.items() if v[0] and all(isinstance(k, str) and len(k) == 1 and isinstance(x, int) for k, x in v[0])}
    ctx.require(len(tables) >= 2, f'_import_proof: expected two letter->digit tables, found {sorted(tables)}')
    ls = [(n, v) for n, v in tables.items() if len(v[0]) >= 10 or any(k == 'A' for k, _x in v[0])]
    ms = [(n, v) for n, v in tables.items() if (n, v) not in ls]
    for label, cands, spec in (('least-significant', ls, want['lsdigit']), ('most-significant', ms, want['msdigit'])):
        ctx.require(len(cands) == 1, f'_import_proof: cannot identify the {label} digit table')
        name, (pairs, node) = cands[0]
        keys = [k for k, _v in pairs]
        ok = sorted(pairs) == sorted(spec) and len(set(keys)) == len(keys)
        diff = sorted(set(spec) ^ set(pairs))
        ctx.ob('digit-table', label, ok,
               f'the {label} digit table `{name}` differs from the specification at {diff[:6]}'
               + (' (duplicate keys)' if len(set(keys)) != len(keys) else ''), py.where('metamath.converter.converter', node),
               facts={'entries': len(pairs)})
    # the decoder uses them with the specified weights: n = ls + sum ms_i * 5^i * 20
    conv = [n for n in ast.walk(fn) if isinstance(n, ast.FunctionDef) and n.name == 'convert_to_number']
    if conv:
        src = ast.unparse(conv[0])
        ok = ('pow(5, exp) * 20' in src or '20 * pow(5, exp)' in src or '5 ** exp * 20' in src or '20 * 5 ** exp' in src)
        ctx.ob('digit-table', 'weights', ok, 'convert_to_number does not weight the high digits by 20 * 5^i', py.where('metamath.converter.converter', conv[0]))


def numbering(ctx, py: PyRepo, fn: ast.FunctionDef, ci):
    oa = OrderAnalysis(py)
    env = oa.local_env(fn)
    where0 = py.where('metamath.converter.converter', fn)
    loops = []
    for node in ast.walk(fn):
        if isinstance(node, ast.For):
            for st in ast.walk(node):
                if isinstance(st, ast.Assign) and isinstance(st.targets[0], ast.Subscript) and isinstance(st.targets[0].value, ast.Name) \
                        and isinstance(st.value, ast.JoinedStr) and 'is-pattern' in ast.unparse(st.value):
                    loops.append((node, st))
    ctx.require(len(loops) >= 1, '_import_proof: cannot find the loop that numbers the mandatory hypotheses')
    for loop, st in loops:
        where = py.where('metamath.converter.converter', loop)
        el = oa.set_elem(loop.iter, env, ci)
        if el is not None:
            ctx.ob('hypothesis-order', 'numbering-loop', False,
                   f'the mandatory hypotheses are numbered by iterating `{ast.unparse(loop.iter)}`, a set of {el}: with two or more '
                   f'variables the numbering depends on the hash seed instead of the database order', where)
        else:
            ok, why = database_ordered(fn, loop.iter)
            if ok is None:
                raise AnalysisError(f'_import_proof: cannot decide whether `{ast.unparse(loop.iter)}` is in database order ({why})')
            ctx.ob('hypothesis-order', 'numbering-loop', ok, why, where, facts={'source': ast.unparse(loop.iter)})
        # the index is a counter that starts at 1 and is incremented once per hypothesis
        idx = st.targets[0].slice
        ok_idx = isinstance(idx, ast.Name)
        if ok_idx:
            inits = [a for a in ast.walk(fn) if isinstance(a, ast.Assign) and isinstance(a.targets[0], ast.Name) and a.targets[0].id == idx.id]
            incs = [a for a in ast.walk(loop) if isinstance(a, ast.AugAssign) and isinstance(a.target, ast.Name) and a.target.id == idx.id]
            ok_idx = len(inits) == 1 and isinstance(inits[0].value, ast.Constant) and inits[0].value.value == 1 and len(incs) == 1 \
                and isinstance(incs[0].op, ast.Add) and isinstance(incs[0].value, ast.Constant) and incs[0].value.value == 1
        ctx.ob('hypothesis-order', 'numbering-from-1', ok_idx, 'hypothesis numbers must be 1, 2, 3, ... in loop order', where)


def database_ordered(fn: ast.FunctionDef, it):
    """(True, why) | (False, why) | (None, why-undecided)"""
    def leading_ordered(e):
        if isinstance(e, ast.ListComp) and e.generators and ast.unparse(e.generators[0].iter) == f'self.{ORDERED_ATTR}':
            return True
        if isinstance(e, ast.Call) and isinstance(e.func, ast.Name) and e.func.id in ('list', 'tuple') and e.args:
            return leading_ordered(e.args[0])
        if isinstance(e, ast.GeneratorExp) and e.generators and ast.unparse(e.generators[0].iter) == f'self.{ORDERED_ATTR}':
            return True
        if isinstance(e, ast.Call) and isinstance(e.func, ast.Attribute) and e.func.attr in IN_ORDER_HELPERS:
            return True
        if isinstance(e, ast.Attribute) and ast.unparse(e) == f'self.{ORDERED_ATTR}':
            return True
        if isinstance(e, ast.BinOp) and isinstance(e.op, ast.Add):
            return leading_ordered(e.left)
        return False

    if leading_ordered(it):
        return True, ''
    if isinstance(it, ast.Call) and isinstance(it.func, ast.Name) and it.func.id == 'sorted':
        return False, ('the hypotheses are numbered in sorted (alphabetical) order; the Metamath specification numbers mandatory '
                       'hypotheses in database order')
    if isinstance(it, ast.Name):
        defs = []
        for node in ast.walk(fn):
            if isinstance(node, ast.Assign) and isinstance(node.targets[0], ast.Name) and node.targets[0].id == it.id:
                defs.append(node.value)
        if len(defs) >= 1 and leading_ordered(defs[0]):
            return True, ''
        if len(defs) == 1 and isinstance(defs[0], ast.Call) and isinstance(defs[0].func, ast.Name) and defs[0].func.id == 'sorted':
            return False, 'the hypotheses are numbered in sorted (alphabetical) order instead of database order'
        return None, f'`{it.id}` is bound to {[ast.unparse(d)[:50] for d in defs]}'
    return None, 'unrecognised source expression'


def run(ctx):
    py = PyRepo.get()
    ci = py.cls('MetamathConverter')
    fn = ci.methods.get('_import_proof')
    ctx.require(fn is not None, 'anchor vanished: MetamathConverter._import_proof')
    digit_tables(ctx, py, fn)
    numbering(ctx, py, fn, ci)
    # the ordered source really is an insertion-ordered list appended while the database is read in order
    init = ci.methods.get('__init__')
    ann_ok = any(isinstance(n, ast.AnnAssign) and ast.unparse(n.target) == f'self.{ORDERED_ATTR}' and ast.unparse(n.annotation).startswith('list')
                 for n in ast.walk(init))
    ctx.ob('hypothesis-order', 'ordered-source-is-a-list', ann_ok,
           f'self.{ORDERED_ATTR} must be a list (insertion = database order)', py.where('metamath.converter.converter', init))
    ctx.floor('digit-table', 2)
    ctx.floor('hypothesis-order', 3)
    ctx.explanation = (
        'Two structural clauses of the compressed-proof decoder: the two letter tables are exactly A..T -> 1..20 and U..Y -> 1..5 without '
        'gaps or duplicates and are combined with the weights 20 * 5^i; the mandatory hypotheses are numbered 1, 2, ... by a loop whose '
        'source is derived from the insertion-ordered list of floating hypotheses (database order), never from a set (hash-seed '
        'dependent) nor merely sorted. The base-5/base-20 arithmetic on all numbers, Z handling and whitespace layouts are numeric and '
        'input dependent and are not decided.')
    ctx.assumptions = ['_floating_patterns is appended in database order while the statements are imported in order']
