"""C16 - Metamath proofs translate to checkable proofs of the same statement.

Decided here: ONE structural clause, a necessary condition of "the emitted proof is accepted" and of "the published claim is the
image of the target": the replay loop of translate.exec_proof keeps the tracked stack in step with the Metamath stack discipline
(applying a label pops its mandatory hypotheses and pushes one entry), reads every operand from the slot where Metamath pushed it,
maps reuse numbers to the saved entries, and publishes what main() declared.  NOT decided: that the converter's images of terms,
axioms and notations are right, nor acceptance of any particular database (run-time data)."""
from __future__ import annotations

import ast
import re

from ..core import astpaths, pymachine as PM
from ..core.pyfacts import PyRepo
from ..core.report import AnalysisError
from ..core.wiring import Wiring
from ..spec import metamath_theory as MT
from ..spec.axioms import AXIOMS

LEVEL = 'other'
TR = 'metamath.translate'


class Lin:
    """integer linear form over symbolic lengths"""

    def __init__(self, c=0, t=None):
        self.c = c
        self.t = {k: v for k, v in (t or {}).items() if v != 0}

    def __add__(self, o):
        t = dict(self.t)
        for k, v in o.t.items():
            t[k] = t.get(k, 0) + v
        return Lin(self.c + o.c, t)

    def scale(self, k: int):
        return Lin(self.c * k, {a: v * k for a, v in self.t.items()})

    def times_len(self, atom: str):
        if self.t:
            raise ValueError('non-constant effect inside a loop')
        return Lin(0, {atom: self.c})

    def __eq__(self, o):
        return isinstance(o, Lin) and self.c == o.c and self.t == o.t

    def __repr__(self):
        parts = [str(self.c)] if self.c or not self.t else []
        for a, v in sorted(self.t.items()):
            parts.append(('+' if v > 0 else '-') + (str(abs(v)) + '*' if abs(v) != 1 else '') + f'len({a})')
        return ' '.join(parts)


def method_effects(py: PyRepo, w: Wiring):
    """net effect of every tracked interpreter call on the tracked stack: (constant, coefficient of len(second argument))"""
    out = {}
    for meth in PM.INTERP_METHODS:
        st = PM.level_facts(py, w.stateful, meth)
        if st is None:
            continue
        effs = set()
        for rec in st.paths:
            k = rec['k'] if isinstance(rec['k'], int) else 0
            effs.add((len(rec['pushes']) - k, -1 if rec['n'] is not None else 0))
        # the empty-map shortcut of instantiate is the n = 0 instance of the general path
        sym = min(s for _c, s in effs)
        consts = {c for c, _s in effs}
        if len(consts) == 1:
            out[meth] = (consts.pop(), sym)
    return out


def _own(node):
    """nodes of a statement, not descending into nested defs / lambdas"""
    stack = [node]
    while stack:
        n = stack.pop()
        yield n
        for c in ast.iter_child_nodes(n):
            if not isinstance(c, (ast.FunctionDef, ast.Lambda)):
                stack.append(c)


class Effects:
    def __init__(self, ctx, py, fn, eff, receivers, local_defs, thunk_eff):
        self.ctx, self.py, self.fn, self.eff = ctx, py, fn, eff
        self.receivers, self.local_defs, self.thunk_eff = receivers, local_defs, thunk_eff
        self._def_cache = {}
        self.delta = delta_builder(fn, local_defs, receivers)

    def length_of(self, e, lenmap) -> Lin:
        if isinstance(e, ast.Dict):
            return Lin(len(e.keys))
        if isinstance(e, (ast.Tuple, ast.List)) and not any(isinstance(x, ast.Starred) for x in e.elts):
            return Lin(len(e.elts))
        if isinstance(e, ast.Call) and isinstance(e.func, ast.Name) and e.func.id == 'range' and len(e.args) == 1 \
                and isinstance(e.args[0], ast.Constant) and isinstance(e.args[0].value, int):
            return Lin(e.args[0].value)
        if isinstance(e, ast.Call) and isinstance(e.func, ast.Name) and e.func.id in ('reversed', 'list', 'tuple', 'sorted') and len(e.args) == 1:
            return self.length_of(e.args[0], lenmap)
        if isinstance(e, ast.Call) and isinstance(e.func, ast.Name) and e.func.id == self.delta and len(e.args) == 1:
            return Lin(0, {ast.unparse(e.args[0]): 1})
        if isinstance(e, ast.Call) and isinstance(e.func, ast.Attribute) and e.func.attr in ('values', 'keys', 'items') and not e.args:
            return self.length_of(e.func.value, lenmap)
        if isinstance(e, ast.Subscript) and isinstance(e.slice, ast.Slice) and e.slice.lower is None and e.slice.upper is None:
            return self.length_of(e.value, lenmap)          # x[:] / x[::-1]: as long as x
        if isinstance(e, ast.Name) and e.id in lenmap:
            return lenmap[e.id]
        if isinstance(e, (ast.Attribute, ast.Name)):
            return Lin(0, {ast.unparse(e): 1})
        raise ValueError(f'length of `{ast.unparse(e)}` is not known')

    def call(self, node: ast.Call, lenmap) -> Lin:
        f = node.func
        if isinstance(f, ast.Attribute) and ast.unparse(f.value) in self.receivers:
            if f.attr == 'pattern':
                return Lin(1)                       # rule pattern-arms
            if f.attr in self.eff:
                c, s = self.eff[f.attr]
                out = Lin(c)
                if s:
                    out = out + self.length_of(node.args[1], lenmap).scale(s)
                return out
            return Lin(0)
        if isinstance(f, ast.Name) and f.id in self.local_defs and f.id != self.delta:
            return self.local_def(f.id)
        if isinstance(f, ast.Call) and isinstance(f.func, ast.Attribute) and f.func.attr in self.thunk_eff \
                and len(node.args) == 1 and ast.unparse(node.args[0]) in self.receivers:
            return Lin(self.thunk_eff[f.func.attr])
        return Lin(0)

    def local_def(self, name) -> Lin:
        if name not in self._def_cache:
            effs = {repr(e): e for e in (self.block(p.actions, {}) for p in astpaths.paths(self.local_defs[name].body)
                                         if True)}
            if len(effs) != 1:
                raise ValueError(f'local function {name} has path-dependent stack effect')
            self._def_cache[name] = next(iter(effs.values()))
        return self._def_cache[name]

    def block(self, actions, lenmap) -> Lin:
        total = Lin(0)
        for st in actions:
            total = total + self.stmt(st, lenmap)
        return total

    def stmt(self, st, lenmap) -> Lin:
        if isinstance(st, (ast.FunctionDef, ast.Return, ast.Raise)) and not isinstance(st, ast.Return):
            return Lin(0)
        if isinstance(st, ast.While):
            raise ValueError('while loop in the replay')
        if isinstance(st, ast.For):
            effs = {}
            appended = []
            for p in astpaths.paths(st.body):
                if p.end not in ('fall', 'continue'):
                    continue
                e = self.block(p.actions, dict(lenmap))
                effs[repr(e)] = e
                appended.append({ast.unparse(c.func.value) for a in p.actions for c in _own(a)
                                 if isinstance(c, ast.Call) and isinstance(c.func, ast.Attribute) and c.func.attr == 'append'
                                 and isinstance(c.func.value, ast.Name)})
            if len(effs) != 1:
                raise ValueError(f'loop at line {st.lineno} has a path-dependent stack effect')
            n = self.length_of(st.iter, lenmap)
            if not n.t:
                return next(iter(effs.values())).scale(n.c)
            if len(n.t) != 1 or n.c != 0:
                raise ValueError(f'loop at line {st.lineno}: iteration count `{ast.unparse(st.iter)}` is not a single length')
            atom = next(iter(n.t))
            for nm in set.intersection(*appended) if appended else ():
                lenmap[nm] = Lin(0, {atom: 1})
            return next(iter(effs.values())).times_len(atom)
        if isinstance(st, (ast.Assign, ast.AnnAssign)) and isinstance(st.value, (ast.List, ast.Tuple)) and not st.value.elts:
            for t in (st.targets if isinstance(st, ast.Assign) else [st.target]):
                if isinstance(t, ast.Name):
                    lenmap[t.id] = Lin(0)
        if isinstance(st, (ast.Assign, ast.AnnAssign)) and isinstance(st.value, ast.Dict) and st.value.keys \
                and all(isinstance(k, ast.Constant) for k in st.value.keys) and len({repr(k.value) for k in st.value.keys}) == len(st.value.keys):
            for t in (st.targets if isinstance(st, ast.Assign) else [st.target]):
                if isinstance(t, ast.Name):
                    lenmap[t.id] = Lin(len(st.value.keys))             # a dict display with distinct constant keys
        if isinstance(st, ast.Assign) and any(isinstance(t, ast.Subscript) and isinstance(t.value, ast.Name) and t.value.id in lenmap for t in st.targets):
            for t in st.targets:
                if isinstance(t, ast.Subscript) and isinstance(t.value, ast.Name):
                    lenmap.pop(t.value.id, None)                        # stored into: the length is not the display's any more
        if isinstance(st, ast.Assign) and len(st.targets) == 1 and isinstance(st.targets[0], ast.Name) and isinstance(st.value, ast.Call) \
                and isinstance(st.value.func, ast.Name) and st.value.func.id == self.delta and self.delta is not None:
            lenmap[st.targets[0].id] = self.length_of(st.value, lenmap)
        total = Lin(0)
        for n in _own(st):
            if isinstance(n, ast.Call):
                total = total + self.call(n, lenmap)
        return total


def lin_index(e, env) -> Lin:
    """linear form of an index expression over names (resolved through `env` of simple assignments)"""
    if isinstance(e, ast.Constant) and isinstance(e.value, int):
        return Lin(e.value)
    if isinstance(e, ast.Name):
        if e.id in env:
            return lin_index(env[e.id], env)
        return Lin(0, {e.id: 1})
    if isinstance(e, ast.UnaryOp) and isinstance(e.op, ast.USub):
        return lin_index(e.operand, env).scale(-1)
    if isinstance(e, ast.BinOp) and isinstance(e.op, (ast.Add, ast.Sub)):
        r = lin_index(e.right, env)
        return lin_index(e.left, env) + (r if isinstance(e.op, ast.Add) else r.scale(-1))
    if isinstance(e, ast.Call) and isinstance(e.func, ast.Name) and e.func.id == 'len' and len(e.args) == 1:
        return Lin(0, {f'#{ast.unparse(e.args[0])}': 1})
    raise ValueError(f'index `{ast.unparse(e)}` is not linear')


def unify_mm(term, schema, out):
    """mm prefix term against a spec schema: binds mm variables to metavariable ids"""
    if schema[1] == 'MetaVar':
        if term[0] != 'var':
            return False
        i = schema[2][1]
        if out.setdefault(term[1], i) != i:
            return False
        return True
    if schema[1] == 'Implies':
        return term[0] == 'imp' and len(term) == 3 and unify_mm(term[1], schema[2], out) and unify_mm(term[2], schema[3], out)
    return False


_REPLAY = {}


def replay_function(py):
    """exec_proof as the rules read it: a copy in which a comprehension bound to a name whose element calls a local helper is the
    loop it abbreviates (`xs = [h() for _ in ys]` -> `xs = []; for _ in ys: xs.append(h())`), and calls of local helpers that
    RETURN a value are replaced by the helper's body computing that value (pynormal.expand_assigned_calls; procedures were
    already expanded at load time).  Both are equivalences; the copy keeps the source positions."""
    key = id(py)
    if key in _REPLAY:
        return _REPLAY[key]
    import copy
    from ..core.pynormal import expand_assigned_calls
    fn = copy.deepcopy(py.function(TR, 'exec_proof'))
    helpers = {g.name: g for g in fn.body if isinstance(g, ast.FunctionDef)
               and any(isinstance(r, ast.Return) and r.value is not None for r in ast.walk(g))
               and not any(isinstance(r, ast.Return) for lp_ in ast.walk(g) if isinstance(lp_, (ast.For, ast.While)) for r in ast.walk(lp_))}
    # the builder of the instantiation map is read by role (delta_builder), not written out
    for c_ in ast.walk(fn):
        if isinstance(c_, ast.Call) and isinstance(c_.func, ast.Attribute) and c_.func.attr in ('instantiate', 'instantiate_pattern') and len(c_.args) == 2 \
                and isinstance(c_.args[1], ast.Call) and isinstance(c_.args[1].func, ast.Name):
            helpers.pop(c_.args[1].func.id, None)
    for nm_, g_ in list(helpers.items()):
        # (also when its result is bound to a local first: a helper that fills a map store by store in a loop and returns it)
        rets_ = [r.value.id for r in ast.walk(g_) if isinstance(r, ast.Return) and isinstance(r.value, ast.Name)]
        if any(isinstance(t_, ast.Subscript) and isinstance(t_.value, ast.Name) and t_.value.id in rets_ and isinstance(t_.ctx, ast.Store)
               for lp_ in ast.walk(g_) if isinstance(lp_, (ast.For, ast.While)) for t_ in ast.walk(lp_)):
            helpers.pop(nm_)
    if helpers:
        changed = False
        for holder in ast.walk(fn):
            for fld in ('body', 'orelse', 'finalbody'):
                blk = getattr(holder, fld, None)
                if not (isinstance(blk, list) and blk and isinstance(blk[0], ast.stmt)):
                    continue
                i = 0
                while i < len(blk):
                    st = blk[i]
                    i += 1
                    t = st.targets[0] if isinstance(st, ast.Assign) and len(st.targets) == 1 else (st.target if isinstance(st, ast.AnnAssign) else None)
                    v = getattr(st, 'value', None)
                    if isinstance(t, ast.Name) and isinstance(v, ast.ListComp) \
                            and any(isinstance(c, ast.Call) and isinstance(c.func, ast.Name) and c.func.id in helpers for c in ast.walk(v.elt)):
                        lp = comp_as_loop(fn.body, t.id, v)
                        if lp is not None:
                            init = ast.copy_location(ast.Assign(targets=[ast.Name(id=t.id, ctx=ast.Store())], value=ast.List(elts=[], ctx=ast.Load())), st)
                            blk[i - 1:i] = [ast.fix_missing_locations(init), lp]
                            i += 1
                            changed = True
        fn2 = expand_assigned_calls(fn, lambda name: helpers.get(name))
        if ast.unparse(fn2) != ast.unparse(fn) or changed:
            fn = fn2
            fn.body = [x for x in fn.body if not (isinstance(x, ast.FunctionDef) and x.name in helpers
                                                  and not any(isinstance(n, ast.Name) and n.id == x.name for y in fn.body if y is not x for n in ast.walk(y)))]
    from ..core import pynormal as N
    for _ in range(3):
        g = copy.deepcopy(fn)
        k = N.unpack_display_assign(g) + N.propagate_block_constants(g) + N.unroll_constant_ranges(g) + N.dict_stores_to_display(g)
        if not k:
            break
        fn = g
    _REPLAY[key] = fn
    return fn


def _has_metavars(sp):
    """the names x for which the path has established that `x.metavars` is not empty, in any spelling of the test:
    `len(x.metavars) > 0`, `x.metavars` (truth value), `len(x.metavars) == 0` / `not x.metavars` refuted"""
    out = []
    for c, b in sp.conds:
        for rx, want in ((r'len\((\w+)\.metavars\) > 0', True), (r'(\w+)\.metavars', True), (r'len\((\w+)\.metavars\) != 0', True),
                         (r'len\((\w+)\.metavars\) >= 1', True), (r'len\((\w+)\.metavars\) == 0', False), (r'not (\w+)\.metavars', False)):
            m = re.fullmatch(rx, c)
            if m and b is want:
                out.append(m.group(1))
    return out


def accessors(fn, INTERP):
    """(receivers, stack accessors): the interpreter parameter and local zero-argument lambdas returning it; local zero-argument
    lambdas returning `<x>.stack`, bound directly or through a local parameterless function every return of which is such a lambda"""
    receivers = {INTERP}
    stack_fns = set()
    makers = {}
    for g in fn.body:
        if isinstance(g, ast.FunctionDef) and not g.args.args:
            rets = [r for r in ast.walk(g) if isinstance(r, ast.Return)]
            if rets and all(isinstance(r.value, ast.Lambda) and not r.value.args.args and ast.unparse(r.value.body).endswith('.stack') for r in rets):
                makers[g.name] = g
    for n in _own(fn):
        if isinstance(n, ast.Assign) and isinstance(n.value, ast.Lambda) and not n.value.args.args and isinstance(n.targets[0], ast.Name):
            body = ast.unparse(n.value.body)
            if body == INTERP:
                receivers.add(n.targets[0].id + '()')
            elif body.endswith('.stack'):
                stack_fns.add(n.targets[0].id + '()')
        elif isinstance(n, ast.Assign) and isinstance(n.value, ast.Call) and isinstance(n.value.func, ast.Name) and n.value.func.id in makers \
                and not n.value.args and isinstance(n.targets[0], ast.Name):
            stack_fns.add(n.targets[0].id + '()')
    return receivers, stack_fns


def delta_builder(fn, local_defs, receivers):
    """the local procedure that builds the instantiation map handed to instantiate / instantiate_pattern (identified by that use,
    directly as the argument or through a local bound to its call), or None"""
    names = set()
    binds = {n.targets[0].id: n.value for n in _own(fn) if isinstance(n, ast.Assign) and len(n.targets) == 1 and isinstance(n.targets[0], ast.Name)}
    for c in _own(fn):
        if isinstance(c, ast.Call) and isinstance(c.func, ast.Attribute) and c.func.attr in ('instantiate', 'instantiate_pattern') \
                and ast.unparse(c.func.value) in receivers and len(c.args) == 2:
            a = c.args[1]
            if isinstance(a, ast.Name) and a.id in binds:
                a = binds[a.id]
            if isinstance(a, ast.Call) and isinstance(a.func, ast.Name) and a.func.id in local_defs and len(a.args) == 1:
                names.add(a.func.id)
    return next(iter(names)) if len(names) == 1 else None


def run(ctx):
    py = PyRepo.get()
    w = Wiring(py)
    theory = MT.load()
    fn = replay_function(py)
    where = py.where(TR, fn)
    params = [a.arg for a in fn.args.args]
    ctx.require(len(params) == 4, 'exec_proof: signature changed (converter, target, proof module, interpreter)')
    CONV, TARGET, PEXP, INTERP = params
    eff = method_effects(py, w)
    ctx.require(all(m in eff for m in ('app', 'implies', 'metavar', 'instantiate', 'instantiate_pattern', 'prop1', 'prop2', 'modus_ponens',
                                       'save', 'load', 'pop', 'publish_proof')), 'tracker effects of the interpreter calls not derivable')
    receivers, stack_fns = accessors(fn, INTERP)
    local_defs = {}
    for n in fn.body:
        if isinstance(n, ast.FunctionDef):
            local_defs[n.name] = n
    ctx.require(bool(stack_fns), 'exec_proof: no accessor of the tracked stack found')
    STACK = sorted(stack_fns)[0]
    # the thunk returned by ProofExp.load_axiom, applied to an interpreter, performs exactly its inner function
    la = py.method('ProofExp', 'load_axiom', 'proof')
    inner = [n for n in la.body if isinstance(n, ast.FunctionDef)]
    ctx.require(len(inner) == 1 and len(inner[0].args.args) == 1, 'ProofExp.load_axiom: inner thunk body not found')
    ie = Effects(ctx, py, inner[0], eff, {inner[0].args.args[0].arg}, {}, {})
    thunk = {repr(e): e for e in (ie.block(p.actions, {}) for p in astpaths.paths(inner[0].body))}
    ctx.require(len(thunk) == 1 and not next(iter(thunk.values())).t, 'ProofExp.load_axiom: thunk effect not constant')
    E = Effects(ctx, py, fn, eff, receivers, local_defs, {'load_axiom': next(iter(thunk.values())).c})

    pattern_arms(ctx, py, eff)

    # ---- the replay loop
    loops = [n for n in fn.body if isinstance(n, ast.For) and ast.unparse(n.iter).endswith('.applied_lemmas')]
    ctx.require(len(loops) == 1 and isinstance(loops[0].target, ast.Name), 'exec_proof: replay loop over `.applied_lemmas` not found')
    loop = loops[0]
    LV = loop.target.id
    PROOF = ast.unparse(loop.iter)[:-len('.applied_lemmas')]
    lab = [n for st in loop.body for n in _own(st) if isinstance(n, ast.Assign) and ast.unparse(n.value) == f'{PROOF}.labels[{LV}]']
    ctx.require(len(lab) == 1 and isinstance(lab[0].targets[0], ast.Name), 'exec_proof: the label of the applied step is not looked up in `.labels`')
    LABEL = lab[0].targets[0].id
    MVO = f'{CONV}.get_metavars_in_order({LABEL})'

    def hyps(label):
        return len(theory[label]['floats']) + len(theory[label]['essentials'])

    n_paths = 0
    kinds_seen = set()
    unclaimed = []
    for sp in astpaths.paths(loop.body):
        if sp.end == 'raise':
            continue
        true = [c for c, b in sp.conds if b]
        false = [c for c, b in sp.conds if not b]
        eqs = [m.group(1) for c in true for m in [re.fullmatch(rf"{LABEL} == '([\w.-]+)'", c)] if m]
        if len(eqs) > 1:
            continue                                     # a label equals one string
        kind, expected, why = None, None, ''
        if f'{LV} in {PROOF}.labels' in false:
            if f'{LV} == 0' in true:
                kind, expected, why = 'Z (save mark)', Lin(0), 'a Z mark leaves the Metamath stack unchanged'
            elif f'{LV} == 0' in false:
                kind, expected, why = 'reuse of a saved step', Lin(1), 'a reuse number pushes the saved entry'
        elif f'{LABEL} in {CONV}.pattern_constructors' in true:
            if eqs:
                if eqs[0] not in theory:
                    ctx.require(False, f'exec_proof special-cases `{eqs[0]}`, which the prelude reader does not know')
                kind, expected = f'constructor {eqs[0]}', Lin(1 - hyps(eqs[0]))
                why = f'{eqs[0]} has {hyps(eqs[0])} mandatory hypotheses in the prelude'
            else:
                mv = _has_metavars(sp)
                kind = 'constructor axiom' + (' with metavariables' if mv else ' without metavariables')
                expected = Lin(1, {MVO: -1}) if mv else Lin(1)
                why = 'one floating hypothesis per metavariable of the constructor (in database order) is popped, the pattern is pushed'
        elif f'{LABEL} in {CONV}._fp_label_to_pattern' in true and any(c.startswith('isinstance(') and c.endswith(', MetaVar)') for c in true):
            kind, expected, why = 'floating hypothesis', Lin(1), 'a floating hypothesis pushes its variable'
        elif f'{LABEL} in {CONV}.exported_axioms' in true:
            ants = [m.group(1) for c, b in sp.conds for m in [re.fullmatch(r'isinstance\((\w+), AxiomWithAntecedents\)', c)] if m and b]
            mv = _has_metavars(sp)
            t = {}
            if ants:
                t[f'{ants[0]}.antecedents'] = -1
            if mv:
                t[MVO] = -1
            kind = 'axiom' + (' with antecedents' if ants else '') + (' with metavariables' if mv else '')
            expected = Lin(1, t)
            why = 'an axiom pops its floating hypotheses and its essential hypotheses and pushes its conclusion'
        elif f'{LABEL} in {CONV}.proof_rules' in true:
            if eqs:
                if eqs[0] not in theory:
                    ctx.require(False, f'exec_proof special-cases `{eqs[0]}`, which the prelude reader does not know')
                kind, expected = f'proof rule {eqs[0]}', Lin(1 - hyps(eqs[0]))
                why = f'{eqs[0]} has {len(theory[eqs[0]]["floats"])} floating and {len(theory[eqs[0]]["essentials"])} essential hypotheses in the prelude'
            else:
                if 'skipped-rule' not in kinds_seen:
                    ctx.advisory('exec_proof: a label in converter.proof_rules other than prop-1 / prop-2 / mp is skipped silently (no call, '
                                 'no error); such rules are outside the fragment C16 quantifies over')
                kinds_seen.add('skipped-rule')
                continue
        if kind is None and f'{LV} in {PROOF}.labels' not in false and not any(
                isinstance(n, ast.Call) and isinstance(n.func, ast.Attribute) and ast.unparse(n.func.value) in receivers
                for a in sp.actions for n in _own(a)):
            # a label no branch claimed, passed over without a call and without an error: rule dispatch-ends-raising below
            unclaimed.append(sp)
            continue
        if kind is None:
            ctx.require(False, f'exec_proof: a path of the replay loop could not be classified (conditions: {true[:4]} / not {false[:4]})')
        try:
            got = E.block(sp.actions, {})
        except ValueError as ex:
            ctx.require(False, f'exec_proof, {kind}: {ex}')
        n_paths += 1
        tag = kind + ('' if kind not in kinds_seen else f'#{n_paths}')
        kinds_seen.add(kind)
        ctx.ob('stack-discipline', tag, got == expected,
               f'replaying a {kind} changes the tracked stack by {got}, Metamath\'s stack changes by {expected} ({why}): every later '
               f'operand is read from the wrong slot', py.where(TR, sp.actions[0] if sp.actions else loop),
               facts={'net effect': repr(got), 'metamath': repr(expected)})
    ctx.analysed['replay-loop paths'] = n_paths
    tail = [n for n in fn.body if n.lineno > loop.end_lineno]
    # a label that is in none of the converter's tables must raise: on every path of the loop body on which the step is a label and all
    # `LABEL in <table>` tests fail (whatever the shape of the chain)
    unknown = [sp for sp in astpaths.paths(loop.body)
               if sp.holds(f'{LV} in {PROOF}.labels') is not False
               and [c for c, b in sp.conds if c.startswith(f'{LABEL} in ')] and all(not b for c, b in sp.conds if c.startswith(f'{LABEL} in '))]
    ctx.ob('dispatch-ends-raising', 'exec_proof', bool(unknown) and all(sp.end == 'raise' for sp in unknown) and not unclaimed,
           'the label dispatch of exec_proof must end in a raising branch (an unrecognised label would otherwise be skipped)', where)

    operand_positions(ctx, py, fn, local_defs, theory, STACK, receivers, LABEL, loop)
    antecedent_discharge(ctx, py, fn, loop, LABEL, CONV, STACK, receivers, local_defs)
    implication_shape(ctx, py)
    tracker_slots(ctx, py, fn, w, STACK, receivers, loop)
    memory_map(ctx, py, loop, LV, PROOF, STACK, receivers)
    publication(ctx, py, fn, tail, CONV, TARGET, STACK, receivers)
    # the letters of a compressed proof number the target's mandatory hypotheses in database order (shared with C15): the replay
    # resolves `A`, `B`, .. through that table, so a wrong order derives the target with its metavariables permuted
    from . import c15
    conv = py.cls('MetamathConverter')
    ip = conv.methods.get('_import_proof')
    ctx.require(ip is not None, 'anchor vanished: MetamathConverter._import_proof')
    ip = c15._sums_as_loops(ip)                      # the view C15 reads (sums as loops, scans by position as scans over characters)
    c15.numbering(ctx, py, ip, conv)
    c15.label_tokens(ctx, py, ip)
    c15.label_numbering(ctx, py, ip)
    c15.steps_fresh_per_proof(ctx, py, ip, conv)
    # the converter records a `Z` as a marker constant among the step numbers; the replay recognises the save mark by comparing with
    # a constant: the two must be the same number (and no step number: the numbers start at 1)
    c15.step_tokens(ctx, py, ip)
    mk = ctx.analysed.get('Z marker') or []
    zconst = sorted({int(m.group(1)) for sp in astpaths.paths(loop.body) for c_, _b in sp.conds
                     for m in [re.fullmatch(rf'{LV} == (-?\d+)', c_)] if m})
    ctx.ob('memory-map', 'Z-marker-agrees', len(mk) == 1 and zconst == mk and mk[0] < 1,
           f'the converter records a `Z` as {mk}, exec_proof recognises the save mark as {zconst}: they must be the same constant, below '
           f'the first step number 1', py.where(TR, loop))
    floats_from_statement(ctx, py)
    application_fold_order(ctx, py)
    # the step numbers of a compressed proof are decoded by the converter (shared with C15): a wrong digit weight or traversal order
    # replays a different label
    c15.digit_order(ctx, py, ip, *c15.digit_tables(ctx, py, ip))
    ctx.floor('stack-discipline', 14)
    ctx.floor('operand-position', 8)
    ctx.explanation = (
        'The replay loop of exec_proof is enumerated by paths (one per kind of applied label). Its net effect on the tracked stack is '
        'summed from the per-call effects of StatefulInterpreter (derived from its source, as in C04), loops contributing their body '
        'effect times a symbolic length, and compared as a linear form with the Metamath discipline: applying a label pops its '
        'mandatory hypotheses (for the fixed prelude labels their number is read from the benchmark databases; for axioms and '
        'constructors it is len(get_metavars_in_order) + len(antecedents)) and pushes one entry. Operands are read at the slot where '
        'Metamath pushed them (index -(n+1)+i for the i-th floating hypothesis; prop-1/prop-2 keys by unifying the prelude statement '
        'with the axiom schema; modus ponens with the implication first, as in the prelude). Reuse numbers index the saved entries '
        'as number - len(labels) - 1. The axiom expression loaded in the loop is the expression main() declares, the final stack top is '
        'asserted equal to the target lemma before it is published. Interpreter.pattern pushes exactly one entry on every arm. '
        'Translation correctness as such (images of terms, notations, acceptance of a given database) is not decided.')
    ctx.assumptions = ['for non-prelude labels the mandatory floating hypotheses are the metavariables get_metavars_in_order returns '
                       '(database order, C15) and the essential hypotheses are the antecedents',
                       'prelude statements as defined in generation/mm-benchmarks/*.mm (all databases agree up to variable names)',
                       'python ast; tracker effects as decided under C04']


def antecedent_discharge(ctx, py, fn, loop, LABEL, CONV, STACK, receivers, local_defs):
    """An axiom with essential hypotheses eh1 .. ehn is loaded as the implication eh1 -> (eh2 -> (.. -> concl))
    (convert_to_implication folds from the right with the FIRST antecedent outermost).  Metamath pushed proofs of eh1 .. ehn in that
    order, so the replay takes them off the top (ehn first), keeps each - saved under a name and remembered in a list - and after
    loading / instantiating the axiom discharges them by modus ponens starting with eh1, i.e. in the REVERSE of the order in which
    they were set aside.  Each remembered entry is the very proof that was on top of the stack, under the name it was saved by."""
    where = py.where(TR, loop)
    seen = set()
    n = 0

    def is_mp(c):
        if isinstance(c, ast.Call) and isinstance(c.func, ast.Attribute) and c.func.attr == 'modus_ponens' and ast.unparse(c.func.value) in receivers:
            return True
        if isinstance(c, ast.Call) and isinstance(c.func, ast.Name) and c.func.id in local_defs:
            return any(isinstance(x, ast.Call) and isinstance(x.func, ast.Attribute) and x.func.attr == 'modus_ponens'
                       and ast.unparse(x.func.value) in receivers for x in ast.walk(local_defs[c.func.id]))
        return False

    def rcall(st, attr):
        return [c for c in _own(st) if isinstance(c, ast.Call) and isinstance(c.func, ast.Attribute) and c.func.attr == attr
                and ast.unparse(c.func.value) in receivers]

    for sp in astpaths.paths(loop.body):
        if sp.end == 'raise' or sp.holds(f'{LABEL} in {CONV}.exported_axioms') is not True:
            continue
        ants = [m.group(1) for c, b in sp.conds for m in [re.fullmatch(r'isinstance\((\w+), AxiomWithAntecedents\)', c)] if m and b]
        if not ants:
            continue
        fors = [a for a in sp.actions if isinstance(a, ast.For)]
        key = tuple(id(f) for f in fors)
        if key in seen:
            continue
        seen.add(key)
        n += 1
        A = [f for f in fors if any(rcall(st, 'pop') for st in f.body)]
        D = [f for f in fors if any(is_mp(c) for st in f.body for c in _own(st))]
        probs = []
        if len(A) != 1 or len(D) != 1 or A[0] is D[0]:
            probs.append(f'expected one loop setting the antecedents aside and one loop discharging them, found {len(A)} and {len(D)}')
        else:
            a, d = A[0], D[0]
            top = f'{STACK}[-1]'
            if ast.unparse(a.iter) != f'{ants[0]}.antecedents':
                probs.append(f'the antecedents are set aside by a loop over `{ast.unparse(a.iter)}`, not over `{ants[0]}.antecedents`')
            appends = [c for st in a.body for c in _own(st) if isinstance(c, ast.Call) and isinstance(c.func, ast.Attribute) and c.func.attr == 'append'
                       and isinstance(c.func.value, ast.Name) and len(c.args) == 1]
            pops, saves = [c for st in a.body for c in rcall(st, 'pop')], [c for st in a.body for c in rcall(st, 'save')]
            if len(appends) != 1 or len(pops) != 1 or len(saves) != 1:
                probs.append('each iteration must remember, save and pop exactly one antecedent')
            else:
                def res(e):
                    return ast.unparse(inline_locals(a.body, e))
                ent = inline_locals(a.body, appends[0].args[0])
                parts = [ast.unparse(x) for x in ent.elts] if isinstance(ent, ast.Tuple) else None
                if parts != [f'str({top})', top]:
                    probs.append(f'what is remembered is `{ast.unparse(ent)}`, not (str({top}), {top})')
                if [res(x) for x in saves[0].args] != [f'str({top})', top]:
                    probs.append(f'the antecedent is saved as `{", ".join(res(x) for x in saves[0].args)}`, not under its own text')
                if [res(x) for x in pops[0].args] != [top]:
                    probs.append(f'`{res(pops[0].args[0]) if pops[0].args else ""}` is popped, not the top of the stack')
                def at(body, c):
                    return next(i for i, st in enumerate(body) if any(c is x for x in _own(st)))

                def reads_before(call):
                    # the statements that read the stack for this call - the call's own statement if it mentions the stack, and the
                    # bindings of the locals it uses (transitively) - all precede the pop
                    ip = at(a.body, pops[0])
                    todo, seen_, idx = [at(a.body, call)], set(), []
                    while todo:
                        i = todo.pop()
                        if i in seen_:
                            continue
                        seen_.add(i)
                        st = a.body[i]
                        if STACK in ast.unparse(st):
                            idx.append(i)
                        for nm in {x.id for x in ast.walk(st) if isinstance(x, ast.Name) and isinstance(x.ctx, ast.Load)}:
                            for j2 in range(i - 1, -1, -1):
                                b = a.body[j2]
                                if isinstance(b, (ast.Assign, ast.AnnAssign)) and any(isinstance(t, ast.Name) and t.id == nm for tt in (b.targets if isinstance(b, ast.Assign) else [b.target]) for t in ast.walk(tt)):
                                    todo.append(j2)
                                    break
                    return all(i <= ip if i == at(a.body, call) else i < ip for i in idx)
                # the Save instruction stores the top of the checker's stack, so the save itself precedes the pop; what is remembered
                # only has to be READ before the pop
                if not (reads_before(appends[0]) and at(a.body, saves[0]) <= at(a.body, pops[0]) and reads_before(saves[0])):
                    probs.append('the antecedent is popped before it is remembered and saved')
                L = appends[0].func.value.id
                it = ast.unparse(d.iter)
                if it not in (f'reversed({L})', f'{L}[::-1]'):
                    probs.append(f'the antecedents are discharged by a loop over `{it}`; they were set aside last-first, and the loaded '
                                 f'implication has the FIRST antecedent outermost, so they must be taken in the order reversed({L})')
                loads = [c for st in d.body for c in rcall(st, 'load')]
                mps = [c for st in d.body for c in _own(st) if is_mp(c)]
                if len(loads) != 1 or len(mps) != 1 or at(d.body, loads[0]) > at(d.body, mps[0]):
                    probs.append('each discharge must load one remembered antecedent and then apply modus ponens once')
                else:
                    tg = d.target
                    want = [ast.unparse(x) for x in tg.elts] if isinstance(tg, ast.Tuple) and len(tg.elts) == 2 else \
                        ([f'{tg.id}[0]', f'{tg.id}[1]'] if isinstance(tg, ast.Name) else None)
                    got = [ast.unparse(inline_locals(d.body, x)) for x in loads[0].args]
                    if want is None or got != want:
                        probs.append(f'load({", ".join(got)}) does not reload the remembered (name, proof) pair')
                if not (sp.actions.index(a) < sp.actions.index(d)):
                    probs.append('the discharge loop precedes the loop that sets the antecedents aside')
        ctx.ob('operand-position', 'antecedent-discharge' + ('' if n == 1 else f'#{n}'), not probs,
               'essential hypotheses of an axiom: ' + '; '.join(probs) + ' - the derived statement keeps undischarged (or wrongly ordered) '
               'antecedents and is not the Metamath conclusion', where)
    ctx.require(n >= 1, 'exec_proof: the branch replaying an axiom with essential hypotheses was not found')


def implication_shape(ctx, py):
    """the axiom loaded for a rule with essential hypotheses a1 .. an and conclusion c is a1 -> (a2 -> (.. -> (an -> c))): the
    discharge loop (rule antecedent-discharge) relies on the FIRST antecedent being outermost.  Decided on the values
    convert_to_implication returns: with antecedents = (a, *rest) it returns Implies(a, c) when rest is empty and
    Implies(a, convert_to_implication(rest, c)) otherwise."""
    from ..core.pyeval import PyEval as _PE
    fn = py.modules[TR].functions.get('convert_to_implication')
    ctx.require(fn is not None and len(fn.args.args) == 2, 'anchor vanished: convert_to_implication(antecedents, conclusion)')
    loops_ = [x for x in fn.body if isinstance(x, ast.For)]
    if loops_:
        # the iterative spelling: a right fold - start from Implies(<last antecedent>, conclusion) and wrap the earlier antecedents
        # around it from the last-but-one to the first
        An, Cn = fn.args.args[0].arg, fn.args.args[1].arg
        lp = loops_[0]
        why = []
        unpack = [st for st in fn.body if isinstance(st, ast.Assign) and isinstance(st.targets[0], ast.Tuple) and ast.unparse(st.value) == An
                  and len(st.targets[0].elts) == 2 and isinstance(st.targets[0].elts[0], ast.Starred) and isinstance(st.targets[0].elts[1], ast.Name)]
        if len(unpack) != 1 or len(loops_) != 1:
            why.append('the antecedents are not split as (*earlier, last)')
        else:
            outer, last = unpack[0].targets[0].elts[0].value.id, unpack[0].targets[0].elts[1].id
            steps = [st for st in lp.body if isinstance(st, (ast.Assign, ast.AnnAssign))]
            accs = [(st.targets[0] if isinstance(st, ast.Assign) else st.target) for st in steps]
            if len(lp.body) != 1 or len(steps) != 1 or not isinstance(accs[0], ast.Name) or not isinstance(lp.target, ast.Name):
                why.append('the loop does not rebind one accumulator once per antecedent')
            else:
                acc = accs[0].id
                if ast.unparse(lp.iter) not in (f'reversed({outer})', f'{outer}[::-1]'):
                    why.append(f'the earlier antecedents are wrapped in the order `{ast.unparse(lp.iter)}`, not from the last-but-one to the first')
                if ast.unparse(steps[0].value) != f'Implies({lp.target.id}, {acc})':
                    why.append(f'each step builds `{ast.unparse(steps[0].value)}`, not Implies(<antecedent>, <what was built so far>)')
                inits = [st for st in fn.body if isinstance(st, (ast.Assign, ast.AnnAssign)) and st.value is not None and st is not unpack[0]
                         and ast.unparse(st.targets[0] if isinstance(st, ast.Assign) else st.target) == acc]
                if len(inits) != 1 or ast.unparse(inits[0].value) != f'Implies({last}, {Cn})':
                    why.append(f'the fold does not start from Implies(<last antecedent>, {Cn})')
                rets_ = [r for r in ast.walk(fn) if isinstance(r, ast.Return)]
                if not rets_ or any(r.value is None or ast.unparse(r.value) != acc for r in rets_):
                    why.append('what is returned is not the folded implication')
        ctx.ob('operand-position', 'implication-first-antecedent-outermost', not why,
               'convert_to_implication must build a1 -> (a2 -> (.. -> conclusion)): ' + '; '.join(why) + ' - the replay discharges the '
               'hypotheses by modus ponens starting with the first one', py.where(TR, fn))
        return
    A, C = (('param', a.arg) for a in fn.args.args)
    HEAD, REST = ('item', A, 0), ('rest', A, 1, 0)
    probs = []
    rets = [p for p in _PE().paths(fn) if p.end[0] == 'return']
    for p in rets:
        v = p.end[1]
        more = next((b for c, b in p.conds if c == REST or c == ('cmp', '>', ('call', ('name', 'len'), (REST,), ()), ('const', 0))), None)
        inner_rec = ('call', ('name', fn.name), (('call', ('name', 'tuple'), (REST,), ()), C), ())
        inner_rec2 = ('call', ('name', fn.name), (REST, C), ())
        want = [('call', ('name', 'Implies'), (HEAD, C), ())] if more is False else \
            [('call', ('name', 'Implies'), (HEAD, inner_rec), ()), ('call', ('name', 'Implies'), (HEAD, inner_rec2), ())] if more is True else []
        if v not in want:
            from ..core.pyeval import show as _s
            probs.append(f'with {"more" if more else "no more"} antecedents it returns `{_s(v)[:70]}`')
    ctx.ob('operand-position', 'implication-first-antecedent-outermost', len(rets) == 2 and not probs,
           'convert_to_implication must build a1 -> (a2 -> (.. -> conclusion)): ' + '; '.join(probs) + ' - the replay discharges the '
           'hypotheses by modus ponens starting with the first one', py.where(TR, fn))


def tracker_slots(ctx, py, fn, w, STACK, receivers, loop):
    """every term handed to a tracked interpreter call in the replay is the stack entry the tracker will compare it with: for each
    parameter that StatefulInterpreter.<m> asserts equal to `self.stack[-k]`, the argument (locals resolved) is `<stack>[-k]`.
    And an entry that is loaded back was saved under that name earlier in the same step (or comes from the Z memory)."""
    n = 0
    bodies = []
    for sp in astpaths.paths(loop.body):
        if sp.end != 'raise':
            bodies.append(sp.actions)
    tail = [st for st in fn.body if getattr(st, 'lineno', 0) > loop.lineno and st is not loop and not isinstance(st, ast.FunctionDef)]
    bodies.append(tail)
    seen = set()

    def walk(stmts, env, saved):
        nonlocal n
        for st in stmts:
            if isinstance(st, ast.For):
                inner = {k: v for k, v in env.items() if k not in {x.id for x in ast.walk(st.target) if isinstance(x, ast.Name)}}
                walk(st.body, inner, saved)
                continue
            if isinstance(st, (ast.If, ast.While, ast.With, ast.Try)):
                continue                      # (paths are already split at ifs; anything else is not a replay step)
            for c in _own(st):
                if not (isinstance(c, ast.Call) and isinstance(c.func, ast.Attribute) and ast.unparse(c.func.value) in receivers):
                    continue
                meth = c.func.attr
                args = [ast.unparse(env[a.id]) if isinstance(a, ast.Name) and a.id in env else ast.unparse(a) for a in c.args]
                if meth == 'save' and len(args) == 2:
                    saved.append(tuple(args))
                st_mf = PM.level_facts(py, w.stateful, meth)
                if st_mf is None or id(c) in seen:
                    continue
                seen.add(id(c))
                binds = {}
                for rec in st_mf.paths:
                    for x_, y_ in rec['binds']:
                        for x, y in ((x_, y_), (y_, x_)):
                            if x[0] == 'slot' and y[0] == 'param':
                                binds[y[1]] = x[1]
                params = [a.arg for a in st_mf.node.args.args[1:]]
                probs = []
                for q, a_txt, a_node in zip(params, args, c.args):
                    if q not in binds:
                        continue
                    src = env.get(a_node.id) if isinstance(a_node, ast.Name) else a_node
                    # the value a tracked call returned is what that call pushed: it is the top as long as nothing was pushed since
                    pushed_by_call = isinstance(src, ast.Call) and isinstance(src.func, ast.Attribute) and ast.unparse(src.func.value) in receivers \
                        and binds[q] == 1 and env.get(('last-push',)) is src
                    if a_txt != f'{STACK}[-{binds[q]}]' and not pushed_by_call:
                        probs.append(f'`{q}` is `{a_txt[:40]}`, the tracker compares it with {STACK}[-{binds[q]}]')
                if meth == 'load' and len(args) == 2 and 'mm_memory' not in args[1] and tuple(args) not in saved \
                        and all(isinstance(a_, ast.Name) and a_.id in env for a_ in c.args):
                    probs.append(f'load({", ".join(a[:30] for a in args)}) reloads an entry that was not saved under that name earlier in the step')
                if any(q in binds for q in params) or meth == 'load':
                    n += 1
                    ctx.ob('operand-position', f'tracker-slots/{meth}@{c.lineno - fn.lineno}', not probs,
                           f'exec_proof, {meth}: ' + '; '.join(probs) + ' - the tracker rejects the step (or, for an interpreter without a '
                           'stack, another term is used)', py.where(TR, c))
            # bindings made by this statement
            if isinstance(st, ast.Assign) and len(st.targets) == 1:
                t = st.targets[0]
                if isinstance(t, ast.Name):
                    env[t.id] = st.value
                    if isinstance(st.value, ast.Call) and isinstance(st.value.func, ast.Attribute) and ast.unparse(st.value.func.value) in receivers:
                        env[('last-push',)] = st.value
                elif isinstance(t, ast.Tuple) and isinstance(st.value, ast.Tuple) and len(t.elts) == len(st.value.elts):
                    for tt, vv in zip(t.elts, st.value.elts):
                        if isinstance(tt, ast.Name):
                            env[tt.id] = vv
                else:
                    for x in ast.walk(t):
                        if isinstance(x, ast.Name):
                            env.pop(x.id, None)
            elif isinstance(st, ast.AnnAssign) and isinstance(st.target, ast.Name) and st.value is not None:
                env[st.target.id] = st.value
            elif isinstance(st, ast.Expr) and isinstance(st.value, ast.Call) and isinstance(st.value.func, ast.Attribute) \
                    and ast.unparse(st.value.func.value) in receivers and st.value.func.attr not in ('save', 'pop'):
                env.pop(('last-push',), None)

    for body in bodies:
        walk(body, {}, [])
    ctx.require(n >= 8, 'exec_proof: the tracked calls whose operands are stack slots were not recognised')


def application_fold_order(ctx, py):
    """`( \\f a b c )` for a constructor without a declared notation is the curried application ((f a) b) c: the converter folds
    `resolve_as_app` over the converted arguments, and the i-th fold step must take the i-th argument.  Decided on the shape of the
    fold in `_to_pattern`: the sequence is built from `subterms` in order, and every value handed to the fold is taken from its
    FRONT (head unpacking, pop(0), popleft(), plain iteration); a pop() from the end, reversed(..) or sorted(..) permutes the
    arguments of every application of arity three or more."""
    conv = py.cls('MetamathConverter')
    fn = conv.methods.get('_to_pattern')
    ctx.require(fn is not None, 'anchor vanished: MetamathConverter._to_pattern')
    where = py.where(conv.module, fn)
    folds = [c for c in ast.walk(fn) if isinstance(c, ast.Call) and isinstance(c.func, ast.Name) and c.func.id == 'resolve_as_app' and len(c.args) == 2]
    # the definition of resolve_as_app itself is not a fold step
    ctx.require(bool(folds), '_to_pattern: the fold over the arguments of an undeclared constructor (resolve_as_app) was not found')
    parents = {}
    for p_ in ast.walk(fn):
        for ch in ast.iter_child_nodes(p_):
            parents[ch] = p_

    def seq_built_in_order(e, depth=0):
        """True / False / None: the sequence expression enumerates the converted `subterms` first to last"""
        if depth > 4:
            return None
        if isinstance(e, ast.Call) and isinstance(e.func, ast.Name) and e.func.id in ('list', 'tuple', 'deque', 'iter') and len(e.args) == 1:
            return seq_built_in_order(e.args[0], depth + 1)
        if isinstance(e, ast.Call) and isinstance(e.func, ast.Name) and e.func.id in ('reversed', 'sorted'):
            return False
        if isinstance(e, (ast.ListComp, ast.GeneratorExp)) and len(e.generators) == 1 and not e.generators[0].ifs:
            it = e.generators[0].iter
            if isinstance(it, ast.Name):
                return True if it.id == 'subterms' else seq_built_in_order_name(it.id, depth + 1)
            return seq_built_in_order(it, depth + 1)
        if isinstance(e, ast.Call) and isinstance(e.func, ast.Name) and e.func.id == 'map' and len(e.args) == 2:
            return seq_built_in_order(e.args[1], depth + 1)
        if isinstance(e, ast.Name):
            return True if e.id == 'subterms' else seq_built_in_order_name(e.id, depth + 1)
        if isinstance(e, ast.Subscript) and isinstance(e.slice, ast.Slice):
            st = e.slice.step
            if st is not None and not (isinstance(st, ast.Constant) and st.value == 1):
                return False
            return seq_built_in_order(e.value, depth + 1)
        return None

    def seq_built_in_order_name(name, depth):
        defs = [n for n in ast.walk(fn) if isinstance(n, (ast.Assign, ast.AnnAssign)) and n.value is not None
                and isinstance(n.targets[0] if isinstance(n, ast.Assign) else n.target, ast.Name)
                and (n.targets[0] if isinstance(n, ast.Assign) else n.target).id == name]
        plain = [d for d in defs if not (isinstance(d, ast.Assign) and isinstance(d.targets[0], ast.Tuple))]
        if not plain:
            return None
        res = [seq_built_in_order(d.value, depth) for d in plain]
        return False if any(r is False for r in res) else (True if all(r is True for r in res) else None)

    def taken_from_front(e, call):
        """(True / False / None, sequence name): the fold operand `e` is the next element from the front of a sequence"""
        if isinstance(e, ast.Call) and isinstance(e.func, ast.Attribute) and isinstance(e.func.value, ast.Name):
            w = e.func.value.id
            if e.func.attr == 'popleft' and not e.args:
                return True, w
            if e.func.attr == 'pop':
                if len(e.args) == 1 and isinstance(e.args[0], ast.Constant) and e.args[0].value == 0:
                    return True, w
                return False, w
        if isinstance(e, ast.Call) and isinstance(e.func, ast.Name) and e.func.id == 'next' and len(e.args) == 1 and isinstance(e.args[0], ast.Name):
            return True, e.args[0].id
        if isinstance(e, ast.Name):
            # head unpacking `x, *w = w`; loop variable of `for x in w`; a local bound to one of the forms above
            cur = call
            while cur in parents:
                cur = parents[cur]
                if isinstance(cur, ast.For) and any(isinstance(n, ast.Name) and n.id == e.id for n in ast.walk(cur.target)):
                    it = cur.iter
                    if isinstance(it, ast.Call) and isinstance(it.func, ast.Name) and it.func.id in ('reversed', 'sorted'):
                        return False, ast.unparse(it)
                    if isinstance(it, ast.Call) and isinstance(it.func, ast.Name) and it.func.id == 'enumerate' and it.args:
                        it = it.args[0]
                    if isinstance(it, ast.Name):
                        return True, it.id
                    return seq_built_in_order(it), ast.unparse(it)
            for n in ast.walk(fn):
                if isinstance(n, ast.Assign) and len(n.targets) == 1:
                    t = n.targets[0]
                    if isinstance(t, ast.Tuple) and len(t.elts) == 2 and isinstance(n.value, ast.Name):
                        a, b = t.elts
                        if isinstance(a, ast.Name) and a.id == e.id and isinstance(b, ast.Starred) and isinstance(b.value, ast.Name):
                            return True, n.value.id                       # x, *rest = w
                        if isinstance(b, ast.Name) and b.id == e.id and isinstance(a, ast.Starred):
                            return False, n.value.id                      # *rest, x = w
                    if isinstance(t, ast.Name) and t.id == e.id:
                        return taken_from_front(n.value, call)
                    if isinstance(t, ast.Name) and t.id == e.id and isinstance(n.value, ast.Subscript):
                        return None, ''
        return None, ''

    n = 0
    for call in folds:
        # skip the definition's own body (resolve_as_app is a nested def, its inner calls are not folds over the arguments)
        ok_front, seq = taken_from_front(call.args[1], call)
        if ok_front is None:
            raise AnalysisError(f'_to_pattern: cannot tell from which end of the argument sequence the fold operand `{ast.unparse(call.args[1])}` is taken')
        built = seq_built_in_order_name(seq, 0) if seq.isidentifier() else seq_built_in_order(ast.parse(seq, mode='eval').body)
        if ok_front and built is None:
            raise AnalysisError(f'_to_pattern: cannot tell whether `{seq}` lists the converted arguments in order')
        n += 1
        ctx.ob('term-image', 'curried-in-argument-order' + ('' if n == 1 else f'#{n}'), bool(ok_front) and built is True,
               f'the application of an undeclared constructor is curried over its arguments with `{ast.unparse(call.args[1])}` '
               + ('taken from the END of the argument sequence' if not ok_front else f'out of `{seq}`, which does not list the arguments first to last')
               + ': ( f a b c ) must become ((f a) b) c - with three or more arguments the image of every such term is permuted',
               py.where(conv.module, call))


def floats_from_statement(ctx, py):
    """assumption made explicit: for a non-prelude label the replay pops len(get_metavars_in_order(label)) floating hypotheses, i.e.
    `axiom.metavars`.  Metamath pushes one floating hypothesis per VARIABLE OF THE STATEMENT (and its hypotheses), whether or not the
    converted pattern still mentions it (a notation may ignore a parameter).  So wherever the converter builds an Axiom / Lemma, its
    `metavars` must be derived from the statement's variables, never from the metavariables of the converted pattern."""
    conv = py.cls('MetamathConverter')
    n = 0
    CTORS_ = ('Axiom', 'AxiomWithAntecedents', 'Lemma', 'LemmaWithAntecedents')

    def flows(fn):
        """local name -> expressions that flow into it: assigned values and what is added by update / add / |="""
        env: dict = {}
        for st in ast.walk(fn):
            if isinstance(st, (ast.Assign, ast.AnnAssign)):
                t = st.targets[0] if isinstance(st, ast.Assign) else st.target
                if isinstance(t, ast.Name) and st.value is not None:
                    env.setdefault(t.id, []).append(st.value)
            elif isinstance(st, ast.AugAssign) and isinstance(st.target, ast.Name):
                env.setdefault(st.target.id, []).append(st.value)
            elif isinstance(st, ast.Call) and isinstance(st.func, ast.Attribute) and isinstance(st.func.value, ast.Name) \
                    and st.func.attr in ('update', 'add', 'extend', 'append') and st.args:
                env.setdefault(st.func.value.id, []).append(st.args[0])
        return env

    def closure(e, env, scopes=None, alias=None):
        """expressions that flow into e; a call of a converter helper contributes what the helper returns (its locals are added to
        env, its scope to `scopes`, and `alias` records which caller name each helper parameter stands for)"""
        seen, todo, out = set(), [e], []
        while todo:
            x0 = todo.pop()
            out.append(x0)
            for x in ast.walk(x0):
                if isinstance(x, ast.Name) and x.id in env and x.id not in seen:
                    seen.add(x.id)
                    todo.extend(env[x.id])
                g = None
                if isinstance(x, ast.Call) and isinstance(x.func, ast.Attribute) and isinstance(x.func.value, ast.Name) and x.func.value.id == 'self' \
                        and x.func.attr in conv.methods:
                    g, is_method = conv.methods[x.func.attr], 'staticmethod' not in [ast.unparse(d) for d in conv.methods[x.func.attr].decorator_list]
                elif isinstance(x, ast.Call) and isinstance(x.func, ast.Name) and x.func.id in py.modules[conv.module].functions:
                    g, is_method = py.modules[conv.module].functions[x.func.id], False
                if g is not None and ('helper', g.name) not in seen and scopes is not None:
                    seen.add(('helper', g.name))
                    scopes.append(g)
                    for k, v in flows(g).items():
                        env.setdefault(k, []).extend(v)
                    params = [a.arg for a in g.args.args][1 if is_method else 0:]
                    for pn, a in zip(params, x.args):
                        if isinstance(a, ast.Name) and alias is not None:
                            alias.setdefault(a.id, set()).add(pn)
                    todo.extend(v for _st, v in returned_exprs(g))
        return out

    def ctor_args(fn, call):
        """positional arguments of a constructor call; `C(*self.helper(..))` is read through the tuple the helper returns"""
        if len(call.args) == 1 and isinstance(call.args[0], ast.Starred) and isinstance(call.args[0].value, ast.Call):
            h = call.args[0].value
            if isinstance(h.func, ast.Attribute) and isinstance(h.func.value, ast.Name) and h.func.value.id == 'self' and h.func.attr in conv.methods:
                g = conv.methods[h.func.attr]
                rets = [v for _st, v in returned_exprs(g)]
                if len(rets) == 1 and isinstance(rets[0], ast.Tuple):
                    return g, list(rets[0].elts)
            return fn, None
        return fn, list(call.args)

    for mname, fn in conv.methods.items():
        for call in ast.walk(fn):
            if not (isinstance(call, ast.Call) and isinstance(call.func, ast.Name) and call.func.id in CTORS_):
                continue
            scope, args = ctor_args(fn, call)
            ctx.require(args is not None, f'{mname}: the arguments of {call.func.id}(..) cannot be read')
            if len(args) < 5:
                continue
            n += 1
            env = flows(scope)
            bad = None
            for e in closure(args[4], env):
                for x in ast.walk(e):
                    if isinstance(x, ast.Call) and isinstance(x.func, ast.Attribute) and x.func.attr == 'metavars' and not x.args:
                        bad = x
            ctx.ob('floats-from-statement', f'{mname}:{call.func.id}@{call.lineno - fn.lineno}', bad is None,
                   f'{mname} builds a {call.func.id} whose `metavars` depend on `{ast.unparse(bad)[:60] if bad else ""}`, the metavariables of the '
                   f'CONVERTED pattern: a variable the pattern drops (an ignored notation parameter) still has a floating hypothesis on the '
                   f'Metamath stack, which the replay then never pops', py.where(conv.module, call))
            if call.func.id.endswith('WithAntecedents') and len(args) >= 6:
                # Metamath pushes the floating hypotheses of the variables of the conclusion AND of every essential hypothesis: the
                # metavars of the rule are the union of its own and of each antecedent's
                base = args[0].value.id if isinstance(args[0], ast.Attribute) and isinstance(args[0].value, ast.Name) else None
                coll = None
                for x in ast.walk(args[5]):
                    if isinstance(x, ast.comprehension) and isinstance(x.iter, ast.Name):
                        coll = x.iter.id
                reads = set()
                scopes, alias = [scope], {}
                for e in closure(args[4], dict(env), scopes, alias):
                    for x in ast.walk(e):
                        if isinstance(x, ast.Attribute) and x.attr == 'metavars' and isinstance(x.value, ast.Name):
                            reads.add(x.value.id)
                colls = {coll} | alias.get(coll, set())
                bases = {base} | alias.get(base, set())
                iter_vars = {t.id for sc_ in scopes for nd in ast.walk(sc_) if isinstance(nd, (ast.For, ast.comprehension))
                             and isinstance(nd.iter, ast.Name) and nd.iter.id in colls for t in ast.walk(nd.target) if isinstance(t, ast.Name)}
                ok = base is not None and coll is not None and bool(reads & bases) and bool(reads & iter_vars)
                ctx.ob('floats-from-statement', f'{mname}:{call.func.id}/union@{call.lineno - fn.lineno}', ok,
                       f'{mname} builds a {call.func.id} whose `metavars` are derived from {sorted(reads) or "nothing"}: they must unite the '
                       f'metavariables of the rule itself (`{base}.metavars`) with those of every antecedent in `{coll}` - a variable of the '
                       f'conclusion that occurs in no hypothesis (a1i: from ph0 infer ph1 -> ph0) still has a floating hypothesis on the stack',
                       py.where(conv.module, call), facts={'reads': sorted(reads), 'antecedent variables': sorted(iter_vars)})
    ctx.floor('floats-from-statement', 5)


def pattern_arms(ctx, py, eff):
    """Interpreter.pattern(p) pushes exactly one entry: by induction on p, every arm nets +1 given that recursive calls do"""
    fn = py.method('Interpreter', 'pattern', 'interpreter')
    m = [n for n in fn.body if isinstance(n, ast.Match)]
    # the arms: the cases of a `match` on the pattern, or the paths of an isinstance chain grouped by the class that is tested
    arms: dict[str, tuple] = {}
    if len(m) == 1:
        for case in m[0].cases:
            arms[ast.unparse(case.pattern).split('(')[0]] = (astpaths.paths(case.body), case.body[0])
    else:
        P = fn.args.args[1].arg
        for sp in astpaths.paths(fn.body):
            cls = [c[len(f'isinstance({P}, '):-1] for c, b in sp.conds if b and c.startswith(f'isinstance({P}, ') and c.endswith(')')]
            if cls:
                prev = arms.get(cls[0], ([], sp.actions[0] if sp.actions else fn))
                arms[cls[0]] = (prev[0] + [sp], prev[1])
    ctx.require(len(arms) >= 2, 'Interpreter.pattern: neither a match statement nor an isinstance chain over the pattern found')
    n_arms = 0
    for name, (arm_paths, first_stmt) in arms.items():
        E = Effects(ctx, py, fn, eff, {'self'}, {}, {})
        effs = {}
        for sp in arm_paths:
            if sp.end == 'raise':
                continue
            try:
                e = E.block(sp.actions, {})
            except ValueError as ex:
                ctx.require(False, f'Interpreter.pattern, arm {name}: {ex}')
            effs[repr(e)] = e
        n_arms += 1
        # an Instantiate arm pushes one entry per plug and pops them again: len(subst.values()) == len(subst)
        ok = False
        for e in effs.values():
            t = {re.sub(r'\.values\(\)$', '', k): v for k, v in e.t.items()}
            merged = {}
            for k, v in t.items():
                merged[k] = merged.get(k, 0) + v
            ok = e.c == 1 and all(v == 0 for v in merged.values())
            if not ok:
                break
        ctx.ob('pattern-arms', name, ok and bool(effs),
               f'Interpreter.pattern: the {name} arm changes the stack by {sorted(effs)} (recursive calls counted as +1); every arm must '
               f'leave exactly the built pattern', py.where('interpreter', first_stmt))
    ctx.floor('pattern-arms', 10)


def label_branch(loop, LABEL: str, label: str):
    """bodies of the branches of the replay loop taken when the step label equals `label`: `if LABEL == 'x':` (either operand
    order, also as an elif) or `match LABEL: case 'x':`"""
    out = []
    for b in ast.walk(loop):
        if isinstance(b, ast.If) and isinstance(b.test, ast.Compare) and len(b.test.ops) == 1 and isinstance(b.test.ops[0], ast.Eq):
            l, r = b.test.left, b.test.comparators[0]
            for x, y in ((l, r), (r, l)):
                if ast.unparse(x) == LABEL and isinstance(y, ast.Constant) and y.value == label:
                    out.append((b, b.body))
        elif isinstance(b, ast.Match) and ast.unparse(b.subject) == LABEL:
            for case in b.cases:
                pats = case.pattern.patterns if isinstance(case.pattern, ast.MatchOr) else [case.pattern]
                if case.guard is None and any(isinstance(p_, ast.MatchValue) and isinstance(p_.value, ast.Constant) and p_.value.value == label
                                              for p_ in pats):
                    out.append((case, case.body))
    return out


def comp_as_loop(scope_body, name: str, comp: ast.ListComp):
    """the loop that `name = [E for t in IT if c]` abbreviates (appends to `name`); None for nested generators"""
    if len(comp.generators) != 1 or comp.generators[0].is_async:
        return None
    g = comp.generators[0]

    def appends(e):
        if isinstance(e, ast.IfExp):
            return [ast.If(test=e.test, body=appends(e.body), orelse=appends(e.orelse))]
        return [ast.Expr(value=ast.Call(func=ast.Attribute(value=ast.Name(id=name, ctx=ast.Load()), attr='append', ctx=ast.Load()),
                                        args=[e], keywords=[]))]
    body = appends(comp.elt)
    for c in reversed(g.ifs):
        body = [ast.If(test=c, body=body, orelse=[])]
    it = inline_locals(scope_body, g.iter)
    target = g.target
    if isinstance(it, (ast.GeneratorExp, ast.ListComp)) and len(it.generators) == 1 and not it.generators[0].ifs:
        body = [ast.Assign(targets=[target], value=it.elt)] + body
        target, it = it.generators[0].target, inline_locals(scope_body, it.generators[0].iter)
    lp = ast.For(target=target, iter=it, body=body, orelse=[])
    ast.copy_location(lp, comp)
    ast.fix_missing_locations(lp)
    return lp


def label_paths(loop, LABEL: str, label: str):
    """what the replay loop executes for a step whose label equals `label`: the action lists of the paths of the loop body on which
    `LABEL == label` holds (however the dispatch is written: if / elif, guard clauses, `in (..)` then a split, match), minus paths
    that assume two different labels"""
    out = []
    want = f"{LABEL} == '{label}'"
    for sp in astpaths.paths(loop.body):
        if sp.end == 'raise':
            continue
        eqs = [c for c, b in sp.conds if b and re.fullmatch(rf"{re.escape(LABEL)} == '[^']*'", c)]
        if want in eqs and len(set(eqs)) == 1:
            out.append(sp.actions)
    return out


def inline_locals(stmts, e, keep=()):
    """`e` with every local that is assigned exactly once in `stmts` (a plain `name = expr`) replaced by its definition"""
    defs: dict[str, list] = {}
    for s in stmts:
        for n in ast.walk(s):
            if isinstance(n, ast.Name) and isinstance(n.ctx, ast.Store):
                defs.setdefault(n.id, []).append(None)
        if isinstance(s, ast.Assign) and len(s.targets) == 1 and isinstance(s.targets[0], ast.Name):
            defs[s.targets[0].id][-1] = s.value
        elif isinstance(s, ast.Assign) and len(s.targets) == 1 and isinstance(s.targets[0], ast.Tuple) and isinstance(s.value, ast.Tuple) \
                and len(s.targets[0].elts) == len(s.value.elts) and all(isinstance(t, ast.Name) for t in s.targets[0].elts):
            for t, v in zip(s.targets[0].elts, s.value.elts):          # a, b = (x, y)
                defs[t.id][-1] = v
    # a local that is changed after it was bound (x.append(..), x[k] = .., x |= ..) does not denote its defining expression any more
    mutated = set()
    for s in stmts:
        for n in ast.walk(s):
            if isinstance(n, ast.Call) and isinstance(n.func, ast.Attribute) and isinstance(n.func.value, ast.Name) \
                    and n.func.attr in ('append', 'extend', 'insert', 'add', 'update', 'pop', 'remove', 'clear', 'sort', 'reverse', 'setdefault',
                                        'discard', 'popitem', 'appendleft', 'extendleft'):
                mutated.add(n.func.value.id)
            elif isinstance(n, (ast.Subscript, ast.Attribute)) and isinstance(n.ctx, (ast.Store, ast.Del)) and isinstance(n.value, ast.Name):
                mutated.add(n.value.id)
            elif isinstance(n, ast.AugAssign) and isinstance(n.target, ast.Name):
                mutated.add(n.target.id)
    # ... unless the definition only NAMES an existing object (`t = self.table`): the change then happens to that object either way
    def alias(v):
        return isinstance(v, (ast.Name, ast.Attribute, ast.Subscript))
    single = {k: v[0] for k, v in defs.items() if len(v) == 1 and v[0] is not None and k not in keep and (k not in mutated or alias(v[0]))}

    class T(ast.NodeTransformer):
        depth = 0

        def visit_Name(self, node):
            if isinstance(node.ctx, ast.Load) and node.id in single and self.depth < 6:
                self.depth += 1
                r = self.visit(ast.parse(ast.unparse(single[node.id]), mode='eval').body)
                self.depth -= 1
                return r
            return node
    return T().visit(ast.parse(ast.unparse(e), mode='eval').body)


def returned_exprs(fn):
    """[(Return node, returned expression)] of a function (nested defs excluded): `tmp = E; return tmp` yields E, and a name that
    is a single-assignment local of the function body is replaced by its definition"""
    out = []

    def block(stmts):
        for i, st in enumerate(stmts):
            if isinstance(st, ast.Return) and st.value is not None:
                v = st.value
                if isinstance(v, ast.Name) and i > 0 and isinstance(stmts[i - 1], ast.Assign) and len(stmts[i - 1].targets) == 1 \
                        and isinstance(stmts[i - 1].targets[0], ast.Name) and stmts[i - 1].targets[0].id == v.id:
                    v = stmts[i - 1].value
                # single-assignment locals of the function body that only name a part of the expression
                v = inline_locals(fn.body, v, {a.arg for a in fn.args.args})
                out.append((st, v))
            if isinstance(st, (ast.FunctionDef, ast.AsyncFunctionDef, ast.ClassDef)):
                continue
            for fld in ('body', 'orelse', 'finalbody'):
                sub = getattr(st, fld, None)
                if isinstance(sub, list) and sub and isinstance(sub[0], ast.stmt):
                    block(sub)
            if isinstance(st, ast.Try):
                for h in st.handlers:
                    block(h.body)
            if isinstance(st, ast.Match):
                for c in st.cases:
                    block(c.body)
    block(fn.body)
    return out


def operand_positions(ctx, py, fn, local_defs, theory, STACK, receivers, LABEL, loop):
    # (1) get_delta: the i-th floating hypothesis is read from slot -(n+1)+i, keyed by the metavariable it instantiates
    gd = local_defs.get(delta_builder(fn, local_defs, receivers))
    ctx.require(gd is not None and len(gd.args.args) == 1, 'exec_proof: the local procedure building the instantiation map (get_delta) not found')
    MV = gd.args.args[0].arg
    env = {}
    for n in gd.body:
        if isinstance(n, ast.Assign) and isinstance(n.targets[0], ast.Name):
            env[n.targets[0].id] = n.value
    loops = [n for n in gd.body if isinstance(n, ast.For)]
    ctx.require(len(loops) == 1, 'get_delta: expected one loop over the metavariable labels')
    lp = loops[0]
    where = py.where(TR, lp)
    counter, elem = None, None
    if isinstance(lp.iter, ast.Call) and ast.unparse(lp.iter.func) == 'enumerate' and ast.unparse(lp.iter.args[0]) == MV \
            and isinstance(lp.target, ast.Tuple):
        counter, elem = (ast.unparse(x) for x in lp.target.elts)
        counter_ok = True
    else:
        ctx.require(ast.unparse(lp.iter) == MV and isinstance(lp.target, ast.Name), f'get_delta: loop does not range over `{MV}`')
        elem = lp.target.id
        incs = [n for n in lp.body if isinstance(n, ast.AugAssign) and isinstance(n.op, ast.Add) and ast.unparse(n.value) == '1']
        counter = ast.unparse(incs[0].target) if len(incs) == 1 else None
        reads_ln = [n.lineno for s in lp.body for n in ast.walk(s) if isinstance(n, ast.Subscript) and ast.unparse(n.value) == STACK]
        counter_ok = counter is not None and isinstance(env.get(counter), ast.Constant) and env[counter].value == 0 \
            and all(incs[0].lineno > ln for ln in reads_ln)
        env = {k: v for k, v in env.items() if k != counter}
    reads = [n for s in lp.body for n in ast.walk(s) if isinstance(n, ast.Subscript) and ast.unparse(n.value) == STACK]
    ctx.require(len(reads) == 1, 'get_delta: expected one read of the tracked stack per metavariable')
    try:
        idx = lin_index(reads[0].slice, env)
    except ValueError as ex:
        ctx.require(False, f'get_delta: {ex}')
    want = Lin(-1, {f'#{MV}': -1, counter or '?': 1})
    ctx.ob('operand-position', 'get_delta/index', counter_ok and idx == want,
           f'get_delta reads the plug of the i-th metavariable from `{STACK}[{ast.unparse(reads[0].slice)}]` = slot {idx}; Metamath pushed the '
           f'floating hypotheses in order below the statement, so the i-th is at -(n+1)+i with i counted from 0 ({want})', where,
           facts={'index': repr(idx)})
    stores = [n for s in lp.body for n in ast.walk(s) if isinstance(n, ast.Assign) and isinstance(n.targets[0], ast.Subscript)]
    key_ok = False
    if len(stores) == 1:
        key = stores[0].targets[0].slice
        kenv = {n.targets[0].id: n.value for n in lp.body if isinstance(n, ast.Assign) and isinstance(n.targets[0], ast.Name)}

        class _Subst(ast.NodeTransformer):
            def visit_Name(self, node):
                if isinstance(node.ctx, ast.Load) and node.id in kenv and node.id != elem:
                    return self.visit(ast.parse(ast.unparse(kenv[node.id]), mode='eval').body)
                return node

        def resolved(e):
            return ast.unparse(_Subst().visit(ast.parse(ast.unparse(e), mode='eval').body))
        src = resolved(key)
        vtxt = resolved(stores[0].value)
        key_ok = re.fullmatch(rf'\w+\.resolve_metavar\({elem}\)\.name', src) is not None and vtxt == ast.unparse(reads[0])
    # one entry per label, unconditionally: len(delta) is the number of floating hypotheses Instantiate takes off the stack
    total = all(sum(1 for a in sp.actions for x in ast.walk(a) if x in stores) == 1 for sp in astpaths.paths(lp.body)
                if sp.end in ('fall', 'continue')) and len(stores) == 1
    ctx.ob('operand-position', 'get_delta/one-entry-per-label', total,
           'get_delta must add exactly one entry for EVERY metavariable label (also when the plug is the metavariable itself): Metamath '
           'pushed one floating hypothesis per variable and Instantiate pops len(delta) of them - a skipped entry leaves a pattern on '
           'the stack and every later operand is read one slot off', where)
    ctx.ob('operand-position', 'get_delta/key', key_ok,
           'get_delta must map the metavariable resolved from the i-th label to the pattern read for the i-th label', where)
    # (2) prop-1 / prop-2: keys from unifying the prelude statement with the axiom schema, values from the float slots
    for label, meth, schema in (('proof-rule-prop-1', 'prop1', AXIOMS['Prop1']), ('proof-rule-prop-2', 'prop2', AXIOMS['Prop2'])):
        th = theory[label]
        binding = {}
        ok_unify = unify_mm(MT.parse_term(th['statement'][1:]), schema, binding)
        ctx.require(ok_unify, f'the prelude statement of {label} is not an instance of the {meth} schema')
        n = len(th['floats'])
        bodies = label_paths(loop, LABEL, label)
        ctx.require(len(bodies) >= 1 and len({tuple(id(x) for x in b) for b in bodies}) == 1, f'exec_proof: branch for {label} not found')
        body = bodies[0]
        benv = {s.targets[0].id: s for s in body if isinstance(s, ast.Assign) and isinstance(s.targets[0], ast.Name)}
        push = [s for s in body for c in _own(s) if isinstance(c, ast.Call) and isinstance(c.func, ast.Attribute) and c.func.attr == meth
                and ast.unparse(c.func.value) in receivers]
        inst = [c for s in body for c in _own(s) if isinstance(c, ast.Call) and isinstance(c.func, ast.Attribute) and c.func.attr == 'instantiate'
                and ast.unparse(c.func.value) in receivers]
        plugs = inst[0].args[1] if len(inst) == 1 and len(inst[0].args) == 2 else None
        if isinstance(plugs, ast.Name) and plugs.id in benv and isinstance(benv[plugs.id].value, ast.Dict) \
                and sum(1 for s in body for x in ast.walk(s) if isinstance(x, ast.Name) and x.id == plugs.id) == 2:
            plugs = benv[plugs.id].value                               # a map display bound to a local and passed on, nothing else
        wrong = [c.func.attr for s in body for c in _own(s) if isinstance(c, ast.Call) and isinstance(c.func, ast.Attribute)
                 and c.func.attr in ('prop1', 'prop2', 'prop3') and c.func.attr != meth and ast.unparse(c.func.value) in receivers]
        if not push and wrong:
            ctx.ob('operand-position', f'{label}/axiom', False,
                   f'{label}: the replay pushes the {wrong[0]} axiom where Metamath applied {label} (the {meth} schema)', py.where(TR, body[0]))
            continue
        ctx.require(len(push) == 1 and len(inst) == 1 and isinstance(plugs, ast.Dict),
                    f'exec_proof, {label}: expected one {meth}() and one instantiate with a literal map')
        got = {}
        for k, v in zip(plugs.keys, plugs.values):
            src = benv.get(v.id) if isinstance(v, ast.Name) else None
            sl = src.value if src is not None else v
            if isinstance(sl, ast.Subscript) and ast.unparse(sl.value) == STACK and isinstance(k, ast.Constant):
                try:
                    pos = lin_index(sl.slice, {})
                except ValueError:
                    pos = None
                def at_(x):
                    return next((i for i, s_ in enumerate(body) if s_ is x or any(x is y for y in ast.walk(s_))), len(body))
                pushed = 1 if at_(push[0]) < at_(src if src is not None else inst[0]) else 0     # statement order, not line order
                got[k.value] = (pos.c if pos is not None and not pos.t else None, pushed)
        want = {}
        for j, v in enumerate(th['floats']):
            want[binding[v]] = j
        ok = set(got) == set(want) and all(got[k][0] == -(n + got[k][1]) + want[k] for k in want)
        ctx.ob('operand-position', f'{label}/keys', ok,
               f'{label}: metavariable k of the {meth} schema must be instantiated with the floating hypothesis Metamath pushed for it '
               f'(prelude: {" ".join(th["statement"])}; floats {th["floats"]} at slots {[-(n + 1) + j for j in range(n)]} below the '
               f'axiom); found {{{", ".join(f"{k}: slot {v[0]}" for k, v in sorted(got.items()))}}}', py.where(TR, inst[0]),
               facts={'expected': {k: -(n + 1) + j for k, j in want.items()}, 'found': {k: v[0] for k, v in got.items()}})
        first = ast.unparse(inst[0].args[0])
        pa = benv.get(first)
        ctx.ob('operand-position', f'{label}/axiom', pa is not None and pa is push[0],
               f'{label}: the proof instantiated must be the {meth} axiom just pushed', py.where(TR, inst[0]))
    # (3) modus ponens: the implication is the first essential hypothesis (deeper slot)
    th = theory['proof-rule-mp']
    imp_first = [i for i, e in enumerate(th['essentials']) if '\\imp' in e]
    ctx.require(len(th['essentials']) == 2 and len(imp_first) == 1, 'prelude: proof-rule-mp does not have the expected two essential hypotheses')
    # every place where the replay applies modus ponens (the proof-rule-mp branch and the discharge of essential hypotheses), whether
    # written in place or in a nested procedure (those are expanded at load time): the operands are read off the tracked stack
    mp_sites = []
    scopes_ = [fn] + [g for g in ast.walk(fn) if isinstance(g, ast.FunctionDef) and g is not fn]
    for holder in ast.walk(fn):
        for fld in ('body', 'orelse', 'finalbody'):
            blk = getattr(holder, fld, None)
            if not (isinstance(blk, list) and blk and isinstance(blk[0], ast.stmt)):
                continue
            for i, st_ in enumerate(blk):
                if isinstance(st_, (ast.If, ast.For, ast.While, ast.Try, ast.With, ast.Match, ast.FunctionDef)):
                    continue
                for c in _own(st_):
                    if isinstance(c, ast.Call) and isinstance(c.func, ast.Attribute) and c.func.attr == 'modus_ponens' \
                            and ast.unparse(c.func.value) in receivers:
                        mp_sites.append((blk, i, c))
    ctx.require(bool(mp_sites) and all(len(c.args) == 2 and not c.keywords for _b, _i, c in mp_sites),
                'exec_proof: no modus_ponens(left, right) call found in the replay')
    # which parameter of BasicInterpreter.modus_ponens is the implication: the one whose conclusion is destructured as Implies
    bmp = py.method('BasicInterpreter', 'modus_ponens')
    bparams = [a.arg for a in bmp.args.args][1:]
    from ..core.pyeval import PyEval
    from ..core.pyfacts import self_method_resolver
    imp_param = set()
    for pp in PyEval(resolver=self_method_resolver(py, py.cls('BasicInterpreter'), ('param', 'self'))).paths(bmp):
        for ev in pp.events:
            v = ev.value
            if ev.kind in ('call', 'ecall') and isinstance(v, tuple) and v and v[0] == 'call' and v[1] == ('attr', ('name', 'Implies'), 'extract') \
                    and len(v[2]) == 1 and v[2][0][0] == 'attr' and v[2][0][2] == 'conclusion' and v[2][0][1][0] == 'param':
                imp_param.add(v[2][0][1][1])
        for c, _b in pp.conds:
            # match-statement form: `case Implies(..)` on <param>.conclusion
            txt = repr(c)
            for p_ in bparams:
                if "'Implies'" in txt and f"('attr', ('param', '{p_}'), 'conclusion')" in txt and 'isinstance' in txt:
                    imp_param.add(p_)
    imp_param = sorted(imp_param)
    ctx.require(len(imp_param) == 1, 'BasicInterpreter.modus_ponens: cannot tell which argument is the implication')
    want = {}
    for i in range(2):
        want[bparams[i]] = -2 + (imp_first[0] if bparams[i] == imp_param[0] else 1 - imp_first[0])
    for k, (blk, i, call) in enumerate(mp_sites):
        slots = []
        for a in call.args:
            v = a
            if isinstance(a, ast.Name):
                prev = [s_ for s_ in blk[:i] if isinstance(s_, ast.Assign) and len(s_.targets) == 1 and isinstance(s_.targets[0], ast.Name)
                        and s_.targets[0].id == a.id]
                v = prev[-1].value if prev else None
                # nothing between the read and the call may change the stack
                if prev and any(isinstance(c, ast.Call) and isinstance(c.func, ast.Attribute) and ast.unparse(c.func.value) in receivers
                                for s_ in blk[blk.index(prev[-1]) + 1:i] for c in _own(s_)):
                    v = None
            pos = lin_index(v.slice, {}) if isinstance(v, ast.Subscript) and ast.unparse(v.value) == STACK else None
            slots.append(pos.c if pos is not None and not pos.t else None)
        got = dict(zip(bparams, slots))
        ctx.ob('operand-position', 'proof-rule-mp/premises' + ('' if k == 0 else f'#{k + 1}'), got == want,
               f'proof-rule-mp: the prelude pushes `{" ".join(th["essentials"][0])}` first and `{" ".join(th["essentials"][1])}` on top; '
               f'modus_ponens takes the implication as `{imp_param[0]}`; expected slots {want}, found {got}', py.where(TR, call))
    # (4) app / imp constructors: left operand deeper
    for label, meth in (('app-is-pattern', 'app'), ('imp-is-pattern', 'implies')):
        bodies = label_paths(loop, LABEL, label)
        ctx.require(len(bodies) >= 1 and len({tuple(id(x) for x in b) for b in bodies}) == 1, f'exec_proof: branch for {label} not found')
        body = bodies[0]
        benv = {s.targets[0].id: s.value for s in body if isinstance(s, ast.Assign) and isinstance(s.targets[0], ast.Name)}
        calls = [c for s in body for c in _own(s) if isinstance(c, ast.Call) and isinstance(c.func, ast.Attribute)
                 and c.func.attr in ('app', 'implies') and ast.unparse(c.func.value) in receivers]
        ok = False
        if len(calls) == 1 and len(calls[0].args) == 2 and calls[0].func.attr == meth:
            slots = []
            for a in calls[0].args:
                v = benv.get(a.id) if isinstance(a, ast.Name) else a
                try:
                    pos = lin_index(v.slice, {}) if isinstance(v, ast.Subscript) and ast.unparse(v.value) == STACK else None
                except ValueError:
                    pos = None
                slots.append(pos.c if pos is not None and not pos.t else None)
            # statement `( \app v0 v1 )`: first float is the left operand
            t = MT.parse_term(theory[label]['statement'][1:])
            order = [theory[label]['floats'].index(x[1]) for x in t[1:]]
            ok = slots == [-2 + order[0], -2 + order[1]]
        ctx.ob('operand-position', f'{label}/operands', ok,
               f'{label}: the step must build {meth}(left, right) from the two floating hypotheses in prelude order (left at slot -2, right '
               f'at -1)', py.where(TR, body[0] if body else loop))


def memory_map_standalone(ctx, py):
    """entry point for C15: the same rule without the rest of C16"""
    fn = replay_function(py)
    params = [a.arg for a in fn.args.args]
    INTERP = params[3]
    receivers, stack_fns = accessors(fn, INTERP)
    loops = [n for n in fn.body if isinstance(n, ast.For) and ast.unparse(n.iter).endswith('.applied_lemmas')]
    ctx.require(len(loops) == 1 and stack_fns, 'exec_proof: replay loop not found')
    loop = loops[0]
    memory_map(ctx, py, loop, loop.target.id, ast.unparse(loop.iter)[:-len('.applied_lemmas')], sorted(stack_fns)[0], receivers)


def memory_map(ctx, py, loop, LV, PROOF, STACK, receivers):
    """Z saves the current top and remembers it in order; number k > len(labels) reloads the (k - len(labels))-th saved entry"""
    fn = replay_function(py)
    env = {}
    for n in fn.body:
        if isinstance(n, ast.Assign) and isinstance(n.targets[0], ast.Name):
            env[n.targets[0].id] = n.value
    # the two branches are identified on the paths of the loop body, whatever the nesting / polarity of the tests:
    # number not among the labels and == 0 -> Z mark; not among the labels and != 0 -> reuse of a saved step
    sps = [sp for sp in astpaths.paths(loop.body) if sp.holds(f'{LV} in {PROOF}.labels') is False and sp.end != 'raise']
    zpaths = [sp for sp in sps if sp.holds(f'{LV} == 0') is True]
    rpaths = [sp for sp in sps if sp.holds(f'{LV} == 0') is False]
    ctx.require(bool(sps), 'exec_proof: save / reuse branch not found')
    ctx.require(bool(zpaths) and bool(rpaths), 'exec_proof: Z branch not found')
    zb = list(dict.fromkeys(a for sp in zpaths for a in sp.actions))
    rb = list(dict.fromkeys(a for sp in rpaths for a in sp.actions))
    where = py.where(TR, zb[0] if zb else loop)
    zenv = {s.targets[0].id: s.value for s in zb if isinstance(s, ast.Assign) and isinstance(s.targets[0], ast.Name)}

    def resolve(e):
        return ast.unparse(zenv[e.id]) if isinstance(e, ast.Name) and e.id in zenv else ast.unparse(e)

    appends = [c for s in zb for c in _own(s) if isinstance(c, ast.Call) and isinstance(c.func, ast.Attribute) and c.func.attr == 'append']
    saves = [c for s in zb for c in _own(s) if isinstance(c, ast.Call) and isinstance(c.func, ast.Attribute) and c.func.attr == 'save'
             and ast.unparse(c.func.value) in receivers]
    ok = len(appends) == 1 and len(saves) == 1 and resolve(appends[0].args[0]) == f'{STACK}[-1]' and resolve(saves[0].args[1]) == f'{STACK}[-1]'
    # ... on every path through the branch: the k-th Z opens the k-th slot whatever the marked expression is
    every = all(sum(1 for a in sp.actions for c in _own(a) if c in appends) == 1 and sum(1 for a in sp.actions for c in _own(a) if c in saves) == 1
                for sp in zpaths)
    ctx.ob('memory-map', 'Z-saves-top', ok and every,
           'every Z mark must save the entry on top of the stack and remember that same entry, once and unconditionally: the k-th Z opens '
           'the k-th slot, and later reuse numbers count Z marks, not distinct expressions', where)
    MEM = ast.unparse(appends[0].func.value) if appends else '?'
    loads = [c for s in rb for c in _own(s) if isinstance(c, ast.Call) and isinstance(c.func, ast.Attribute) and c.func.attr == 'load'
             and ast.unparse(c.func.value) in receivers]
    ok, detail = False, ''
    if len(loads) == 1:
        load_call = inline_locals(rb, loads[0])
        subs = [n for n in ast.walk(load_call) if isinstance(n, ast.Subscript) and ast.unparse(n.value) == MEM]
        try:
            idxs = [lin_index(s.slice, env) for s in subs]
        except ValueError as ex:
            idxs, detail = [], str(ex)
        want = Lin(-1, {LV: 1, f'#{PROOF}.labels': -1})
        ok = bool(idxs) and all(i == want for i in idxs) and len(load_call.args) == 2 and isinstance(load_call.args[1], ast.Subscript)
        detail = detail or f'found index {idxs[0] if idxs else "?"}, expected {want}'
    ctx.ob('memory-map', 'reuse-index', ok,
           f'numbers above len(labels) denote the saved steps in order: number k reloads saved entry k - len(labels) - 1 (0-based); {detail}',
           py.where(TR, rb[0] if rb else loop))
    ctx.floor('memory-map', 2)


def publication(ctx, py, fn, tail, CONV, TARGET, STACK, receivers):
    where = py.where(TR, tail[0] if tail else fn)
    env = {s.targets[0].id: s.value for s in tail if isinstance(s, ast.Assign) and isinstance(s.targets[0], ast.Name)}
    pubs = [(s, c) for s in tail for c in _own(s) if isinstance(c, ast.Call) and isinstance(c.func, ast.Attribute) and c.func.attr == 'publish_proof'
            and ast.unparse(c.func.value) in receivers]
    ok = False
    if len(pubs) == 1 and isinstance(pubs[0][1].args[0], ast.Name) and pubs[0][1].args[0].id in env:
        v = pubs[0][1].args[0].id
        top = ast.unparse(env[v]) == f'{STACK}[-1]'
        want = f'{v} == Proved({CONV}.get_lemma_by_name({TARGET}).pattern)'
        asserted = any(isinstance(s, ast.Assert) and ast.unparse(s.test) in (want, ' == '.join(reversed(want.split(' == ')))) and s.lineno < pubs[0][0].lineno
                       for s in tail)
        ok = top and asserted
    ctx.ob('publication', 'target-proved', ok,
           'exec_proof must publish the entry on top of the stack only after asserting that it proves the pattern of the target lemma', where)
    # main(): what is declared is what is loaded / compared
    mn = py.function(TR, 'main')

    def axiom_exprs(node, attr):
        """{antecedents?: expression} of the axiom patterns, with the axiom variable normalised"""
        out = {}
        for sp in astpaths.paths(node):
            for a in sp.actions:
                for c in _own(a):
                    if isinstance(c, ast.Call) and isinstance(c.func, ast.Attribute) and c.func.attr == attr and len(c.args) == 1:
                        iso = [(m.group(1), b) for cnd, b in sp.conds for m in [re.fullmatch(r'isinstance\((\w+), AxiomWithAntecedents\)', cnd)] if m]
                        # the choice written as a conditional expression (`append(A if isinstance(ax, AxiomWithAntecedents) else B)`)
                        if not iso and isinstance(c.args[0], ast.IfExp):
                            m_ = re.fullmatch(r'isinstance\((\w+), AxiomWithAntecedents\)', ast.unparse(c.args[0].test))
                            if m_:
                                for pol_, e_ in ((True, c.args[0].body), (False, c.args[0].orelse)):
                                    arg_ = inline_locals(sp.actions, e_, {m_.group(1)})
                                    out.setdefault(pol_, set()).add(re.sub(rf'\b{m_.group(1)}\b', '$AX', ast.unparse(arg_)))
                                continue
                        # the choice made by a shared module-level helper `H(axiom)`: its two returns, under its own class test
                        a0 = inline_locals(sp.actions, c.args[0], {iso[0][0]} if iso else set())
                        h = py.module(TR).functions.get(a0.func.id) if isinstance(a0, ast.Call) and isinstance(a0.func, ast.Name) and len(a0.args) == 1 \
                            and not a0.keywords else None
                        if h is not None and len(h.args.args) == 1:
                            hp = h.args.args[0].arg
                            for hsp in astpaths.paths(h.body):
                                pol_ = next((b for cnd, b in hsp.conds if cnd == f'isinstance({hp}, AxiomWithAntecedents)'), None)
                                rets_ = [x for x in hsp.actions if isinstance(x, ast.Return) and x.value is not None]
                                if pol_ is not None and len(rets_) == 1 and (not iso or iso[0][1] == pol_):
                                    rv_ = inline_locals(hsp.actions, rets_[0].value, {hp})
                                    out.setdefault(pol_, set()).add(re.sub(rf'\b{hp}\b', '$AX', ast.unparse(rv_)))
                            continue
                        if not iso:
                            continue
                        var, pol = iso[0]
                        arg = inline_locals(sp.actions, c.args[0], {var})          # a local that only names the expression
                        out.setdefault(pol, set()).add(re.sub(rf'\b{var}\b', '$AX', ast.unparse(arg)))
        return out
    decl_loops = [n for n in mn.body if isinstance(n, ast.For) and ast.unparse(n.iter).endswith('.exported_axioms')]
    if not decl_loops:
        # the comprehension spelling: `xs = [E for v in IT]` is `for v in IT: xs.append(E)`, a conditional element is an if / else of
        # appends, and an iterable that is itself a generator `(F(n) for n in S)` is `for n in S: v = F(n); ..`
        for st_ in mn.body:
            if isinstance(st_, ast.Assign) and len(st_.targets) == 1 and isinstance(st_.targets[0], ast.Name) and isinstance(st_.value, ast.ListComp):
                lp_ = comp_as_loop(mn.body, st_.targets[0].id, st_.value)
                if lp_ is not None and ast.unparse(lp_.iter).endswith('.exported_axioms'):
                    decl_loops.append(lp_)
    ctx.require(len(decl_loops) == 1, 'translate.main: loop declaring the exported axioms not found')
    declared = axiom_exprs(decl_loops[0].body, 'append')
    ax_branch = [b for b in ast.walk(fn) if isinstance(b, ast.If) and 'exported_axioms' in ast.unparse(b.test)]
    ctx.require(bool(ax_branch), 'exec_proof: axiom branch not found')
    loaded = axiom_exprs(ax_branch[-1].body, 'load_axiom')
    ctx.ob('publication', 'axioms-declared-as-loaded', bool(declared) and declared == loaded and set(declared) == {True, False},
           f'the pattern loaded for an axiom in the proof must be the pattern main() declares for it (with and without antecedents); '
           f'declared {sorted((k, sorted(v)) for k, v in declared.items())}, loaded {sorted((k, sorted(v)) for k, v in loaded.items())}',
           py.where(TR, decl_loops[0]))
    # what the proof module is constructed with: super().__init__(axioms=<the list the loop above fills>, claims=<the pattern of every
    # lemma of the converter, in the converter's order>) - read off the call, locals resolved, names free
    claims_ok = False
    init_calls = [c for c in ast.walk(mn) if isinstance(c, ast.Call) and isinstance(c.func, ast.Attribute) and c.func.attr == '__init__'
                  and isinstance(c.func.value, ast.Call) and isinstance(c.func.value.func, ast.Name) and c.func.value.func.id == 'super']
    pe_init = py.method('ProofExp', '__init__', 'proof')
    pe_params = [a.arg for a in pe_init.args.args[1:]] if pe_init is not None else []
    if len(init_calls) == 1:
        given = {k.arg: k.value for k in init_calls[0].keywords if k.arg}
        for pn, a in zip(pe_params, init_calls[0].args):
            given[pn] = a
        ax_e, cl_e = given.get('axioms'), given.get('claims')
        filled = None
        lp0 = decl_loops[0]
        for c in ast.walk(lp0):
            if isinstance(c, ast.Call) and isinstance(c.func, ast.Attribute) and c.func.attr == 'append' and isinstance(c.func.value, ast.Name):
                filled = c.func.value.id
        ax_ok = isinstance(ax_e, ast.Name) and filled is not None and ax_e.id == filled
        cl = cl_e
        for _hop in range(4):                      # a local that only names the comprehension (other locals, e.g. the converter, stay names)
            while isinstance(cl, ast.Call) and isinstance(cl.func, ast.Name) and cl.func.id in ('list', 'tuple') and len(cl.args) == 1:
                cl = cl.args[0]
            if isinstance(cl, ast.Name):
                defs_ = [n.value for n in ast.walk(mn) if isinstance(n, (ast.Assign, ast.AnnAssign)) and n.value is not None
                         and isinstance(n.targets[0] if isinstance(n, ast.Assign) else n.target, ast.Name)
                         and (n.targets[0] if isinstance(n, ast.Assign) else n.target).id == cl.id]
                cl = defs_[0] if len(defs_) == 1 else None
        while isinstance(cl, ast.Call) and isinstance(cl.func, ast.Name) and cl.func.id in ('list', 'tuple') and len(cl.args) == 1:
            cl = cl.args[0]
        cl_ok = False
        if isinstance(cl, (ast.ListComp, ast.GeneratorExp)) and len(cl.generators) == 1 and not cl.generators[0].ifs \
                and isinstance(cl.generators[0].target, ast.Name):
            g_ = cl.generators[0]
            v_ = g_.target.id
            it_ = g_.iter
            cl_ok = isinstance(it_, ast.Attribute) and it_.attr == 'lemmas' and isinstance(it_.value, ast.Name) \
                and ast.unparse(cl.elt) == f'{it_.value.id}.get_lemma_by_name({v_}).pattern'
        claims_ok = ax_ok and cl_ok
    ctx.ob('publication', 'claims-are-lemma-patterns', claims_ok,
           'main() must declare the patterns of the converter\'s lemmas as claims and the collected axioms as axioms', py.where(TR, mn))
    ctx.floor('publication', 3)
