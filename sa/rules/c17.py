"""C17 - Metamath databases survive printing, re-parsing and slicing: printer/parser agreement (necessary conditions)."""
from __future__ import annotations

import ast
import re

from ..core.ordertaint import OrderAnalysis, ann_set_elem
from ..core.pyfacts import PyRepo

LEVEL = 'other'
AST = 'metamath.ast'
PARSER = 'metamath.parser'
SLICER = 'metamath.metamath_extract_slice'


def constructed_classes(py: PyRepo):
    """node classes the parser's transformer can construct: {class name: transformer method}"""
    ci = py.cls('ASTTransformer', PARSER)
    out = {}
    for mname, fn in ci.methods.items():
        for node in ast.walk(fn):
            if isinstance(node, ast.Call) and isinstance(node.func, ast.Name):
                c = py.find_class(node.func.id, PARSER)
                if c is not None and c.module == AST:
                    out.setdefault(c.name, mname)
    return out


def proxy_name(py: PyRepo, cls: str):
    """the X in `visitor.proxy_visit_X(self)` of the class's (possibly inherited) visit method"""
    ci = py.cls(cls, AST)
    hit = py.find_method(ci, 'visit')
    if hit is None:
        return None
    _owner, fn = hit
    for node in ast.walk(fn):
        if isinstance(node, ast.Attribute) and node.attr.startswith('proxy_visit_'):
            return node.attr[len('proxy_visit_'):]
    return None


def grammar_rules(py: PyRepo):
    """alias -> list of quoted terminals of the alternative, from the `syntax` string of the parser module"""
    mi = py.module(PARSER)
    val = mi.assigns.get('syntax')
    if val is None or not isinstance(val, ast.Constant) or not isinstance(val.value, str):
        return None
    text = val.value
    out = {}
    for line in text.splitlines():
        m = re.search(r'->\s*(\w+)\s*$', line)
        if m:
            out[m.group(1)] = re.findall(r'"([^"]+)"', line)
    return out


def encoder_keywords(py: PyRepo, meth: str):
    """string constants starting with `$` (or containing one) that a postvisit method writes"""
    ci = py.cls('Encoder', AST)
    fn = ci.methods.get(meth)
    if fn is None:
        return None
    kws = []
    for node in ast.walk(fn):
        if isinstance(node, ast.Call) and ast.unparse(node.func) == 'self.write' and node.args and isinstance(node.args[0], ast.Constant) \
                and isinstance(node.args[0].value, str):
            kws += re.findall(r'\$[^\s]?', node.args[0].value)
    return kws


def run(ctx):
    py = PyRepo.get()
    enc = py.cls('Encoder', AST)
    built = constructed_classes(py)
    ctx.require(len(built) >= 9, f'parser transformer constructs only {sorted(built)}')
    # (a) every constructible node has an Encoder handler (the Visitor base silently returns a default otherwise)
    for cls, via in sorted(built.items()):
        px = proxy_name(py, cls)
        ok = px is not None and f'postvisit_{px}' in enc.methods
        ctx.ob('encoder-exhaustive', cls, ok,
               f'{cls} (built by ASTTransformer.{via}) dispatches to proxy_visit_{px} but Encoder has no postvisit_{px}: the node prints '
               f'as nothing', py.where(AST, py.cls(cls, AST).node), facts={'handler': f'postvisit_{px}'})
    # (b) get_statement_type gives every constructible StructuredStatement subclass a letter
    gst = enc.methods.get('get_statement_type')
    ctx.require(gst is not None, 'anchor vanished: Encoder.get_statement_type')
    chain = []
    node = next((n for n in gst.body if isinstance(n, ast.If)), None)
    while node is not None:
        t = node.test
        if isinstance(t, ast.Call) and ast.unparse(t.func) == 'isinstance':
            ret = next((s.value.value for s in node.body if isinstance(s, ast.Return) and isinstance(s.value, ast.Constant)), None)
            chain.append((ast.unparse(t.args[1]), ret))
        node = node.orelse[0] if len(node.orelse) == 1 and isinstance(node.orelse[0], ast.If) else None
    structured = py.cls('StructuredStatement', AST)
    letters = {}
    for cls in sorted(built):
        ci = py.cls(cls, AST)
        if not any(c.name == 'StructuredStatement' for c in py.mro(ci)):
            continue
        mro = [c.name for c in py.mro(ci)]
        letter = next((l for c, l in chain if c in mro), None)
        letters[cls] = letter
        ctx.ob('statement-letter', cls, letter is not None and letter != '?',
               f'{cls} gets the statement letter {letter!r} from get_statement_type (printed as `$?`)', py.where(AST, gst))
    # distinct classes, distinct letters
    ctx.ob('statement-letter', 'injective', len(set(letters.values())) == len(letters), f'two statement kinds share a letter: {letters}',
           py.where(AST, gst))
    # (c) keyword agreement between the Encoder and the grammar
    rules = grammar_rules(py)
    ctx.require(rules is not None and len(rules) >= 8, 'cannot read the Lark grammar of the parser')
    plain = {'constant_stmt': 'ConstantStatement', 'variable_stmt': 'VariableStatement', 'disjoint_stmt': 'DisjointStatement', 'block': 'Block'}
    tr = py.cls('ASTTransformer', PARSER)
    for alias, terms in sorted(rules.items()):
        fn = tr.methods.get(alias)
        if fn is None:
            ctx.ob('keyword-agreement', alias, False, f'grammar alternative `{alias}` has no transformer method', py.where(PARSER, tr.node))
            continue
        ret = ast.unparse(fn.returns) if fn.returns else None
        where = py.where(PARSER, fn)
        if ret in ('ConstantStatement', 'VariableStatement', 'DisjointStatement', 'Block'):
            px = proxy_name(py, ret)
            kws = encoder_keywords(py, f'postvisit_{px}') or []
            ok = sorted(set(kws)) == sorted(set(terms))
            ctx.ob('keyword-agreement', alias, ok,
                   f'the grammar reads {ret} between {terms} but the Encoder writes {sorted(set(kws))}', where,
                   facts={'grammar': terms, 'encoder': sorted(set(kws))})
        elif ret in letters:
            want = '$' + (letters[ret] or '?')
            kws = encoder_keywords(py, 'postvisit_structured_statement') or []
            gram_kw = [t for t in terms if t not in ('$.', '$=')]
            ok = gram_kw == [want] and '$.' in terms and ('$' in kws) and ('$.' in kws)
            if ret == 'ProvableStatement':
                ok = ok and '$=' in terms and '$=' in kws
            ctx.ob('keyword-agreement', alias, ok,
                   f'the grammar reads {ret} with {terms} but the Encoder writes `{want}` ... {[k for k in kws if k != "$"]}', where,
                   facts={'grammar': terms, 'encoder letter': want})
    # (d) the slicer keeps hypotheses in an insertion-ordered container; sets reach the output only through sorted
    fn = py.function(SLICER, 'slice_database')
    cut = [n for n in ast.walk(fn) if isinstance(n, ast.AnnAssign) and isinstance(n.target, ast.Name) and n.target.id == 'cut_antecedents']
    ok = bool(cut) and ast.unparse(cut[0].annotation).startswith('dict[')
    ctx.ob('slice-order', 'hypotheses-in-ordered-container', ok,
           'slice_database must keep the cut antecedents (floating hypotheses first) in a dict (insertion order = database order)',
           py.where(SLICER, fn))
    oa = OrderAnalysis(py)
    for s in oa.sites():
        if s.module != SLICER:
            continue
        if s.safe:
            ctx.ob('slice-order', f'{s.function}:{s.key}/{s.consumer}', True, s.why, py.where(SLICER, s.node))
        else:
            ctx.advisory(f'{s.function}: `{s.expr}` (set of {s.elem}) is iterated in an order-sensitive way ({s.consumer}); this affects only '
                         f'the order of emitted $d statements / a set union, not the content of the slice')
    # floating hypotheses are emitted in the order of that container
    sup = py.function(SLICER, 'supporting_database_for_provable')
    emits = [n for n in ast.walk(sup) if isinstance(n, ast.For) and 'cut_antecedents.items()' in ast.unparse(n.iter)]
    ctx.ob('slice-order', 'hypotheses-emitted-in-container-order', bool(emits),
           'supporting_database_for_provable must emit the kept statements by iterating cut_antecedents in order', py.where(SLICER, sup))
    # (e) dispatch chains over statement kinds end in a raising branch; constant-true asserts cannot fail
    for mname in (SLICER, AST, PARSER, 'metamath.utils.printer'):
        mi = py.modules.get(mname)
        if mi is None:
            continue
        for node in ast.walk(mi.tree):
            if isinstance(node, ast.Assert) and isinstance(node.test, ast.Constant) and node.test.value:
                ctx.ob('dispatch-ends-raising', f'{mname}:constant-assert@{_encl(mi.tree, node)}', False,
                       f'`{ast.unparse(node)[:70]}` asserts a constant that is always true: the branch that was meant to reject an '
                       f'unanticipated statement kind silently ignores it', py.where(mname, node))
    fn = py.function(SLICER, 'slice_database')
    chain_if = [n for n in ast.walk(fn) if isinstance(n, ast.If) and 'isinstance(statement' in ast.unparse(n.test)]
    ok = False
    if chain_if:
        node = chain_if[0]
        while len(node.orelse) == 1 and isinstance(node.orelse[0], ast.If):
            node = node.orelse[0]
        ok = bool(node.orelse) and isinstance(node.orelse[-1], ast.Raise) or (
            bool(node.orelse) and isinstance(node.orelse[-1], ast.Assert) and isinstance(node.orelse[-1].test, ast.Constant)
            and not node.orelse[-1].test.value)
    ctx.ob('dispatch-ends-raising', 'slice_database', ok,
           'the statement-kind dispatch of slice_database must end in a branch that raises for an unanticipated kind', py.where(SLICER, fn))
    ctx.floor('encoder-exhaustive', 9)
    ctx.floor('keyword-agreement', 8)
    ctx.floor('statement-letter', 5)
    ctx.explanation = (
        'Printer/parser agreement, extracted from both sides: every node class the parser\'s transformer can construct reaches an explicit '
        'Encoder handler (the Visitor base would silently print nothing); every constructible structured statement gets a distinct '
        'statement letter; the `$` keywords written by the Encoder equal the string terminals of the Lark grammar alternative of the same '
        'statement kind; the slicer keeps hypotheses in an insertion-ordered dict and emits them in that order; the statement-kind '
        'dispatch ends in a raising branch. Round-trip identity, self-containedness of slices and re-verification of proofs are not decided.')
    ctx.assumptions = ['python ast; the grammar is the `syntax` string constant of metamath/parser.py']


def _encl(tree, node) -> str:
    best = '<module>'
    for n in ast.walk(tree):
        if isinstance(n, ast.FunctionDef) and n.lineno <= node.lineno <= getattr(n, 'end_lineno', n.lineno):
            best = n.name
    return best
