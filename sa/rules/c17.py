"""C17 - Metamath databases survive printing, re-parsing and slicing: printer/parser agreement (necessary conditions)."""
from __future__ import annotations

import ast
import itertools
import re

from ..core.ordertaint import OrderAnalysis, ann_set_elem
from ..core.pyfacts import PyRepo

LEVEL = 'other'
AST = 'metamath.ast'
PARSER = 'metamath.parser'
SLICER = 'metamath.metamath_extract_slice'


def only_disjoint_statements(py: PyRepo, site) -> bool:
    """`$d` statements commute (each restricts its own variables; a database means the same in whichever order they stand), so
    an iteration over a set whose only order-carrying product is a run of `DisjointStatement(..)` nodes is order-free for this
    property: a comprehension / generator whose element is such a construction, or a loop whose every effect is appending (or
    yielding) one, and whose variable is not read afterwards"""
    ctor = 'DisjointStatement'
    if py.find_class(ctor, AST) is None:
        return False

    def is_ctor(e):
        return isinstance(e, ast.Call) and isinstance(e.func, ast.Name) and e.func.id == ctor

    node = site.node
    if isinstance(node, (ast.ListComp, ast.GeneratorExp)):
        return is_ctor(node.elt)
    if not isinstance(node, ast.For) or node.orelse:
        return False
    n_eff = 0

    def block(stmts) -> bool:
        nonlocal n_eff
        for st in stmts:
            if isinstance(st, ast.If):
                if not (block(st.body) and block(st.orelse)):
                    return False
            elif isinstance(st, (ast.Pass, ast.Continue)):
                continue
            elif isinstance(st, ast.Expr) and isinstance(st.value, ast.Call) and isinstance(st.value.func, ast.Attribute) \
                    and st.value.func.attr == 'append' and len(st.value.args) == 1 and is_ctor(st.value.args[0]):
                n_eff += 1
            elif isinstance(st, ast.Expr) and isinstance(st.value, ast.Yield) and st.value.value is not None and is_ctor(st.value.value):
                n_eff += 1
            else:
                return False
        return True

    if not block(node.body) or not n_eff:
        return False
    fn = py.function(SLICER, site.function)
    if fn is None:
        return False
    parents = {ch: p_ for p_ in ast.walk(fn) for ch in ast.iter_child_nodes(p_)}
    return not OrderAnalysis._loop_var_escapes(fn, node, parents)


def constructed_classes(py: PyRepo):
    """node classes the parser's transformer can construct: {class name: transformer method}"""
    ci = py.cls('ASTTransformer', PARSER)
    out = {}
    for mname, fn in ci.methods.items():
        for node in ast.walk(fn):
            if isinstance(node, ast.Call) and isinstance(node.func, ast.Name):
                c = py.find_class(node.func.id, PARSER)
                if c is not None and c.module == AST:
                    out.setdefault(c.name, mname)
    return out


def proxy_name(py: PyRepo, cls: str):
    """the X in `visitor.proxy_visit_X(self)` of the class's (possibly inherited) visit method"""
    ci = py.cls(cls, AST)
    hit = py.find_method(ci, 'visit')
    if hit is None:
        return None
    _owner, fn = hit
    for node in ast.walk(fn):
        if isinstance(node, ast.Attribute) and node.attr.startswith('proxy_visit_'):
            return node.attr[len('proxy_visit_'):]
    return None


def grammar_rules(py: PyRepo):
    """alias -> list of quoted terminals of the alternative, from the `syntax` string of the parser module"""
    mi = py.module(PARSER)
    val = mi.assigns.get('syntax')
    if val is None or not isinstance(val, ast.Constant) or not isinstance(val.value, str):
        return None
    text = val.value
    out = {}
    for line in text.splitlines():
        m = re.search(r'->\s*(\w+)\s*$', line)
        if m:
            out[m.group(1)] = re.findall(r'"([^"]+)"', line)
    return out


def encoder_keywords(py: PyRepo, meth: str):
    """string constants starting with `$` (or containing one) that a postvisit method writes, in source order; calls of other
    Encoder methods (extracted helpers) are followed with their constant string arguments bound to the helper's parameters"""
    ci = py.cls('Encoder', AST)
    fn = ci.methods.get(meth)
    if fn is None:
        return None
    kws: list = []

    def ordered_calls(node):
        for ch in ast.iter_child_nodes(node):
            if isinstance(ch, (ast.FunctionDef, ast.Lambda)):
                continue
            if isinstance(ch, ast.Call):
                # arguments first (evaluation order), then the call itself
                yield from ordered_calls(ch)
                yield ch
            else:
                yield from ordered_calls(ch)

    def collect(f, bindings, depth):
        for call in ordered_calls(f):
            fname = ast.unparse(call.func)
            if fname == 'self.write' and call.args:
                a = call.args[0]
                text = a.value if isinstance(a, ast.Constant) and isinstance(a.value, str) else (
                    bindings.get(a.id) if isinstance(a, ast.Name) else None)
                if isinstance(text, str):
                    kws.extend(re.findall(r'\$[^\s]?', text))
            elif fname.startswith('self.') and fname.count('.') == 1 and depth < 3:
                h = fname[5:]
                hit = py.find_method(ci, h)
                if hit is not None and h not in ('write', 'visit') and not h.startswith(('postvisit_', 'previsit_', 'proxy_')) \
                        and hit[0].module == AST:
                    hf = hit[1]
                    hp = [x.arg for x in hf.args.args[1:]]
                    b = {}
                    for pn, av in zip(hp, call.args):
                        if isinstance(av, ast.Constant) and isinstance(av.value, str):
                            b[pn] = av.value
                        elif isinstance(av, ast.Name) and av.id in bindings:
                            b[pn] = bindings[av.id]
                    for k in call.keywords:
                        if k.arg and isinstance(k.value, ast.Constant) and isinstance(k.value.value, str):
                            b[k.arg] = k.value.value
                    collect(hf, b, depth + 1)

    collect(fn, {}, 0)
    return kws


def run(ctx):
    py = PyRepo.get()
    enc = py.cls('Encoder', AST)
    built = constructed_classes(py)
    ctx.require(len(built) >= 9, f'parser transformer constructs only {sorted(built)}')
    # (a) every constructible node has an Encoder handler (the Visitor base silently returns a default otherwise)
    for cls, via in sorted(built.items()):
        px = proxy_name(py, cls)
        ok = px is not None and f'postvisit_{px}' in enc.methods
        ctx.ob('encoder-exhaustive', cls, ok,
               f'{cls} (built by ASTTransformer.{via}) dispatches to proxy_visit_{px} but Encoder has no postvisit_{px}: the node prints '
               f'as nothing', py.where(AST, py.cls(cls, AST).node), facts={'handler': f'postvisit_{px}'})
    # (b) get_statement_type gives every constructible StructuredStatement subclass a letter
    gst = enc.methods.get('get_statement_type')
    ctx.require(gst is not None, 'anchor vanished: Encoder.get_statement_type')
    # the dispatch as a list (class tested, letter returned) in test order: an if/elif chain of isinstance tests or a match
    # statement with class patterns - read off the returning paths (the class whose test is the True one on that path)
    from ..core.pyeval import PyEval, class_table_resolver, unroll_constant_loops
    chain = []
    # a table-driven dispatch (`for cls, letter in TABLE: if isinstance(stmt, cls): return letter`) is the chain of its rows
    gst_u = unroll_constant_loops(gst, consts=class_table_resolver(enc, py.modules[AST].tree))
    for pth in PyEval().paths(gst_u):
        # the polymorphic spelling: `return stmt.<attr>` under `isinstance(stmt, K)` - the letter of a class is the constant its
        # class body (or the nearest base's) binds to <attr>
        if pth.end[0] == 'return' and pth.end[1][0] == 'attr' and pth.end[1][1][0] in ('name', 'param', 'var', 'arg'):
            tested = [c[2][1] if c[0] == 'isinstance' else c[2][1][1] for c, b in pth.conds if b is True and
                      ((c[0] == 'isinstance' and c[2][0] == 'name') or (c[0] == 'call' and c[1] == ('name', 'isinstance') and len(c[2]) == 2 and c[2][1][0] == 'name'))]
            if len(tested) == 1:
                chain.append((tested[0], ('classattr', pth.end[1][2])))
            continue
        if pth.end[0] != 'return' or pth.end[1][0] != 'const':
            continue
        true_cls = []
        for c, b in pth.conds:
            if b is not True:
                continue
            if c[0] == 'isinstance' and c[2][0] == 'name':
                true_cls.append(c[2][1])
            elif c[0] == 'call' and c[1] == ('name', 'isinstance') and len(c[2]) == 2 and c[2][1][0] == 'name':
                true_cls.append(c[2][1][1])
        if len(true_cls) == 1:
            chain.append((true_cls[0], pth.end[1][1]))
    structured = py.cls('StructuredStatement', AST)
    letters = {}
    for cls in sorted(built):
        ci = py.cls(cls, AST)
        if not any(c.name == 'StructuredStatement' for c in py.mro(ci)):
            continue
        mro = [c.name for c in py.mro(ci)]
        letter = next((l for c, l in chain if c in mro), None)
        if isinstance(letter, tuple) and letter[0] == 'classattr':
            val = None
            for k in py.mro(ci):
                binds = [st for st in k.node.body if isinstance(st, (ast.Assign, ast.AnnAssign)) and st.value is not None
                         and any(isinstance(t, ast.Name) and t.id == letter[1] for t in (st.targets if isinstance(st, ast.Assign) else [st.target]))]
                if binds:
                    val = binds[-1].value.value if isinstance(binds[-1].value, ast.Constant) else None
                    break
            # an instance attribute of that name set by a method would shadow the class constant
            shadow = any(isinstance(x, ast.Attribute) and x.attr == letter[1] and isinstance(x.ctx, ast.Store) for k in py.mro(ci) for x in ast.walk(k.node))
            letter = None if shadow else val
        letters[cls] = letter
        ctx.ob('statement-letter', cls, letter is not None and letter != '?',
               f'{cls} gets the statement letter {letter!r} from get_statement_type (printed as `$?`)', py.where(AST, gst))
    # distinct classes, distinct letters
    ctx.ob('statement-letter', 'injective', len(set(letters.values())) == len(letters), f'two statement kinds share a letter: {letters}',
           py.where(AST, gst))
    # (c) keyword agreement between the Encoder and the grammar
    rules = grammar_rules(py)
    ctx.require(rules is not None and len(rules) >= 8, 'cannot read the Lark grammar of the parser')
    plain = {'constant_stmt': 'ConstantStatement', 'variable_stmt': 'VariableStatement', 'disjoint_stmt': 'DisjointStatement', 'block': 'Block'}
    tr = py.cls('ASTTransformer', PARSER)
    for alias, terms in sorted(rules.items()):
        fn = tr.methods.get(alias)
        if fn is None:
            ctx.ob('keyword-agreement', alias, False, f'grammar alternative `{alias}` has no transformer method', py.where(PARSER, tr.node))
            continue
        ret = ast.unparse(fn.returns) if fn.returns else None
        where = py.where(PARSER, fn)
        if ret in ('ConstantStatement', 'VariableStatement', 'DisjointStatement', 'Block'):
            px = proxy_name(py, ret)
            kws = encoder_keywords(py, f'postvisit_{px}') or []
            ok = sorted(set(kws)) == sorted(set(terms))
            ctx.ob('keyword-agreement', alias, ok,
                   f'the grammar reads {ret} between {terms} but the Encoder writes {sorted(set(kws))}', where,
                   facts={'grammar': terms, 'encoder': sorted(set(kws))})
        elif ret in letters:
            want = '$' + (letters[ret] or '?')
            kws = encoder_keywords(py, 'postvisit_structured_statement') or []
            gram_kw = [t for t in terms if t not in ('$.', '$=')]
            ok = gram_kw == [want] and '$.' in terms and ('$' in kws) and ('$.' in kws)
            if ret == 'ProvableStatement':
                ok = ok and '$=' in terms and '$=' in kws
            ctx.ob('keyword-agreement', alias, ok,
                   f'the grammar reads {ret} with {terms} but the Encoder writes `{want}` ... {[k for k in kws if k != "$"]}', where,
                   facts={'grammar': terms, 'encoder letter': want})
    # (d) the slicer keeps hypotheses in an insertion-ordered container; sets reach the output only through sorted
    fn = py.function(SLICER, 'slice_database')
    sup = py.function(SLICER, 'supporting_database_for_provable')
    # the container is identified by its role, not its name: the first argument of the call that builds a slice
    sup_calls = [n for n in ast.walk(fn) if isinstance(n, ast.Call) and isinstance(n.func, ast.Name) and n.func.id == sup.name and n.args]
    ctx.require(len(sup_calls) >= 1 and all(isinstance(c.args[0], ast.Name) for c in sup_calls) and len({c.args[0].id for c in sup_calls}) == 1,
                'slice_database: the container of cut antecedents handed to supporting_database_for_provable is not a local')
    CUT = sup_calls[0].args[0].id
    decl = [n for n in ast.walk(fn) if isinstance(n, ast.AnnAssign) and isinstance(n.target, ast.Name) and n.target.id == CUT] + \
           [n for n in ast.walk(fn) if isinstance(n, ast.Assign) and any(isinstance(t, ast.Name) and t.id == CUT for t in n.targets)]
    def _is_dict(n):
        if isinstance(n, ast.AnnAssign) and ast.unparse(n.annotation).split('[')[0] in ('dict', 'Dict', 'OrderedDict'):
            return n.value is None or isinstance(n.value, ast.Dict) or (isinstance(n.value, ast.Call) and ast.unparse(n.value.func) in ('dict', 'OrderedDict'))
        return isinstance(n.value, ast.Dict) or (isinstance(n.value, ast.Call) and ast.unparse(n.value.func) in ('dict', 'OrderedDict'))
    float_stores = [n for n in ast.walk(fn) if isinstance(n, ast.Assign) and isinstance(n.targets[0], ast.Subscript)
                    and isinstance(n.targets[0].value, ast.Name) and n.targets[0].value.id == CUT]
    ok = len(decl) == 1 and _is_dict(decl[0]) and len(float_stores) >= 1
    ctx.ob('slice-order', 'hypotheses-in-ordered-container', ok,
           f'slice_database must keep the cut antecedents (floating hypotheses first) in a dict (insertion order = database order); `{CUT}` is '
           f'declared {[ast.unparse(d)[:60] for d in decl]}', py.where(SLICER, fn))
    # every statement a later lemma may refer to is registered: on each path of the scanning loop that handles a labelled statement
    # (anything but `$c` / `$v` / `$d`) and does not raise, the container gets an entry - whether or not a slice is emitted for it
    from ..core import astpaths as AP
    scan = [lp for lp in ast.walk(fn) if isinstance(lp, ast.For) and any(n is sup_calls[0] for n in ast.walk(lp))]
    ctx.require(len(scan) >= 1, 'slice_database: the loop over the statements of the database was not found')
    scan_loop = scan[0]
    unregistered = []
    n_reg = 0
    for sp in AP.paths(scan_loop.body):
        if sp.end == 'raise':
            continue
        unlabelled = any(b and re.search(r'isinstance\(\w+, \(?[^)]*(ConstantStatement|VariableStatement|DisjointStatement)', c) for c, b in sp.conds)
        if unlabelled:
            continue
        stores = [a for a in sp.actions for n in ast.walk(a) if isinstance(n, ast.Subscript) and isinstance(n.ctx, ast.Store)
                  and isinstance(n.value, ast.Name) and n.value.id == CUT]
        n_reg += 1
        if not stores:
            unregistered.append(' and '.join(f'{c[:50]} is {b}' for c, b in sp.conds[-3:]))
    ctx.ob('slice-closure', 'every-labelled-statement-registered', n_reg >= 3 and not unregistered,
           f'slice_database passes over a labelled statement without entering it into `{CUT}` (when ' + '; or when '.join(sorted(set(unregistered))[:2])
           + '): a later lemma whose proof refers to it can no longer be sliced - the statement has to be available as a hypothesis of '
           'later slices whether or not a slice is emitted for it', py.where(SLICER, scan_loop), facts={'paths': n_reg})
    # the lemma's own block and the axiom registered for later slices are built from the same antecedents: every antecedent
    # component the lemma's block is taken apart into (all names of the destructuring but the lemma itself) is handed BOTH to the
    # slice builder and to the function that builds the registered axiom - a component that reaches only one of them (the block's
    # own `$d` conditions, say) is missing from the lemma's slice or from every later one
    reg_stores = [n for n in ast.walk(scan_loop) if isinstance(n, ast.Assign) and isinstance(n.targets[0], ast.Subscript)
                  and isinstance(n.targets[0].value, ast.Name) and n.targets[0].value.id == CUT and isinstance(n.value, ast.Call)
                  and isinstance(n.value.func, ast.Name) and n.value.func.id in py.modules[SLICER].functions]
    splits = [n for n in ast.walk(scan_loop) if isinstance(n, ast.Assign) and isinstance(n.targets[0], ast.Tuple) and isinstance(n.value, ast.Call)
              and isinstance(n.value.func, ast.Name) and n.value.func.id in py.modules[SLICER].functions
              and all(isinstance(t, ast.Name) for t in n.targets[0].elts)]
    sup_here = [c for c in sup_calls if any(c is x for x in ast.walk(scan_loop)) and len(c.args) >= 5]
    if len(splits) == 1 and sup_here and reg_stores:
        parts = [t.id for t in splits[0].targets[0].elts]
        lemma = {ast.unparse(c.args[3]) for c in sup_here}
        comps = [x for x in parts if x not in lemma]

        def used(call_args):
            return {x.id for a in call_args for x in ast.walk(a) if isinstance(x, ast.Name) and x.id in comps}
        probs = []
        for c in sup_here:
            miss = [x for x in comps if x not in used([c.args[4]])]
            if miss:
                probs.append(f'`{", ".join(miss)}` does not reach the lemma\'s own slice (`{ast.unparse(c.args[4])}` is what is handed over)')
        for st in reg_stores:
            if not (used(st.value.args) & set(comps)) and not (set(ast.unparse(a) for a in st.value.args) & lemma):
                continue                           # not the registration of the lemma
            miss = [x for x in comps if x not in used(st.value.args)]
            if miss and set(ast.unparse(a) for a in st.value.args) & lemma:
                probs.append(f'`{", ".join(miss)}` does not reach the axiom registered for later slices (`{ast.unparse(st.value)[:60]}`)')
        ctx.ob('slice-closure', 'lemma-antecedents-reach-slice-and-axiom', bool(comps) and not probs,
               f'slice_database takes a lemma block apart into {parts}: ' + '; '.join(probs) + ' - the lemma\'s proof was checked under all '
               'hypotheses and disjointness conditions of its block, and so must its slice and every later use be', py.where(SLICER, splits[0]))
    oa = OrderAnalysis(py)
    for s in oa.sites():
        if s.module != SLICER:
            continue
        if s.safe:
            ctx.ob('slice-order', f'{s.function}:{s.key}/{s.consumer}', True, s.why, py.where(SLICER, s.node))
        elif only_disjoint_statements(py, s):
            ctx.ob('slice-order', f'{s.function}:{s.key}/{s.consumer}', True,
                   'only the order of the emitted `$d` statements depends on the iteration, and `$d` statements commute', py.where(SLICER, s.node))
        else:
            ctx.ob('slice-order', f'{s.function}:{s.key}/{s.consumer}', False,
                   f'{s.function}: `{s.expr}` (a set of {s.elem}) is iterated in an order-sensitive way ({s.consumer}): the order of what is '
                   f'built from it depends on the hash seed, and the slicer\'s containers carry the database order of the hypotheses',
                   py.where(SLICER, s.node))
    # floating hypotheses are emitted in the order of that container
    P0 = sup.args.args[0].arg
    emits = [n for n in ast.walk(_display_as_appends(sup)) if isinstance(n, ast.For) and ast.unparse(n.iter) in (f'{P0}.items()', f'{P0}.values()', P0)
             and any(isinstance(c, ast.Call) and isinstance(c.func, ast.Attribute) and c.func.attr == 'append' for c in ast.walk(n))]
    ctx.ob('slice-order', 'hypotheses-emitted-in-container-order', bool(emits),
           f'supporting_database_for_provable must emit the kept statements by iterating `{P0}` in order', py.where(SLICER, sup))
    # (e) dispatch chains over statement kinds end in a raising branch; constant-true asserts cannot fail
    for mname in (SLICER, AST, PARSER, 'metamath.utils.printer'):
        mi = py.modules.get(mname)
        if mi is None:
            continue
        for node in ast.walk(mi.tree):
            if isinstance(node, ast.Assert) and isinstance(node.test, ast.Constant) and node.test.value:
                ctx.ob('dispatch-ends-raising', f'{mname}:constant-assert@{_encl(mi.tree, node)}', False,
                       f'`{ast.unparse(node)[:70]}` asserts a constant that is always true: the branch that was meant to reject an '
                       f'unanticipated statement kind silently ignores it', py.where(mname, node))
    fn = py.function(SLICER, 'slice_database')
    # every path through the body of the loop over the statements either recognised the statement kind (some isinstance /
    # match_axiom test on it was true) or raises: if-chain with a raising else, guard clauses with a final raise, .. alike
    from ..core import astpaths
    loops_ = [n for n in fn.body if isinstance(n, ast.For) and ast.unparse(n.iter).endswith('.statements') and isinstance(n.target, ast.Name)]
    ok = False
    if len(loops_) == 1:
        v = loops_[0].target.id
        ok = True
        # locals holding the result of a recogniser applied to the statement (`axiom_conclusion = match_axiom(statement)`)
        holders = {st.targets[0].id for st in ast.walk(loops_[0]) if isinstance(st, ast.Assign) and len(st.targets) == 1
                   and isinstance(st.targets[0], ast.Name) and isinstance(st.value, ast.Call) and ast.unparse(st.value.func) == 'match_axiom'
                   and [ast.unparse(a) for a in st.value.args] == [v]}
        for sp in astpaths.paths(loops_[0].body):
            recognised = any(b is True and (re.search(rf'isinstance\({v}\b', c) or re.search(rf'match_axiom\({v}\)', c) or c in holders)
                             for c, b in sp.conds)
            raises = sp.end == 'raise' or any(isinstance(a, ast.Assert) and isinstance(a.test, ast.Constant) and not a.test.value for a in sp.actions)
            if not recognised and not raises:
                ok = False
    ctx.ob('dispatch-ends-raising', 'slice_database', ok,
           'the statement-kind dispatch of slice_database must end in a branch that raises for an unanticipated kind', py.where(SLICER, fn))
    slice_closure(ctx, py)
    scans_recurse_into_blocks(ctx, py)
    disjoint_all_pairs(ctx, py)
    parser_state_fresh(ctx, py)
    variables_complete(ctx, py)
    printer_output(ctx, py)
    arguments_by_name(ctx, py)
    slicer_helpers(ctx, py)
    optional_fields(ctx, py)
    ctx.floor('encoder-exhaustive', 9)
    ctx.floor('keyword-agreement', 8)
    ctx.floor('statement-letter', 5)
    ctx.explanation = (
        'Printer/parser agreement, extracted from both sides: every node class the parser\'s transformer can construct reaches an explicit '
        'Encoder handler (the Visitor base would silently print nothing); every constructible structured statement gets a distinct '
        'statement letter; the `$` keywords written by the Encoder equal the string terminals of the Lark grammar alternative of the same '
        'statement kind; the slicer keeps hypotheses in an insertion-ordered dict and emits them in that order; the statement-kind '
        'dispatch ends in a raising branch. Round-trip identity, self-containedness of slices and re-verification of proofs are not decided.')
    ctx.assumptions = ['python ast; the grammar is the `syntax` string constant of metamath/parser.py']


def _own_nodes(fn):
    """nodes of fn excluding nested function definitions"""
    stack = list(fn.body)
    while stack:
        n = stack.pop()
        yield n
        for c in ast.iter_child_nodes(n):
            if not isinstance(c, (ast.FunctionDef, ast.Lambda)):
                stack.append(c)


def scans_recurse_into_blocks(ctx, py: PyRepo):
    """a block is a statement that contains statements, to any depth (an axiom with a `$d` and hypotheses is written as nested blocks):
    the scans that feed the `$c` / `$v` declarations must reach the statements inside every nested block - the constant scan by
    calling itself on `block.statements`, the variable scan by uniting `get_metavariables()` of every statement of the block"""
    from ..core.pyeval import PyEval
    fn = py.function(SLICER, 'statements_get_constants')
    where = py.where(SLICER, fn)
    mi = py.modules[SLICER]

    def resolver(call, env, _ev):
        if isinstance(call.func, ast.Name) and call.func.id in mi.functions and call.func.id != fn.name and call.func.id not in env:
            return mi.functions[call.func.id], None
        return None
    ctx.require(len(fn.args.args) == 1, 'statements_get_constants: signature changed')
    STMTS = ('param', fn.args.args[0].arg)
    ELEM = ('elem', STMTS)
    saw_block, bad = 0, []

    def is_flattener(g) -> bool:
        """a generator over a statement list that hands on every statement that is not a block and, for a block, everything the same
        generator produces for `block.statements`: iterating it visits the statements of all nested blocks"""
        if len(g.args.args) != 1:
            return False
        S = ('param', g.args.args[0].arg)
        EL = ('elem', S)
        ISB = ('call', ('name', 'isinstance'), (EL, ('name', 'Block')), ())
        try:
            gp = PyEval().paths(g)
        except Exception:  # noqa: BLE001
            return False
        seen = 0
        for q in gp:
            for e in q.events:
                if e.kind in ('yield', 'yieldfrom'):
                    return False                       # something produced outside the loop over the statements
                if e.kind != 'loop' or e.value[0] != 'for' or e.value[2] != S:
                    continue
                for sp in e.extra:
                    if sp.end[0] == 'raise':
                        continue
                    blk = [b for c, b in sp.conds if c == ISB]
                    ys = [x for x in sp.events if x.kind in ('yield', 'yieldfrom')]
                    if not blk or len(ys) != 1 or sp.end[0] not in ('fall', 'continue'):
                        return False
                    if blk[-1] is True:
                        if not (ys[0].kind == 'yieldfrom' and ys[0].value == ('call', ('name', g.name), (('attr', EL, 'statements'),), ())):
                            return False
                    elif not (ys[0].kind == 'yield' and ys[0].value == EL):
                        return False
                    seen += 1
        return seen >= 2
    for p in PyEval(resolver=resolver, max_inline=2).paths(fn):
        for e in p.events:
            if e.kind == 'loop' and e.value[0] == 'for' and e.value[2][0] == 'call' and e.value[2][1][0] == 'name' \
                    and e.value[2][2] == (STMTS,) and e.value[2][1][1] in mi.functions and is_flattener(mi.functions[e.value[2][1][1]]):
                saw_block += 1                          # the scan ranges over the flattened statement list: nested blocks are reached
                continue
            if e.kind == 'loop' and e.value[0] == 'for' and e.value[2][0] == 'call' and e.value[2][1][0] == 'name' \
                    and e.value[2][2] == (STMTS,) and e.value[2][1][1] in mi.functions \
                    and any(isinstance(n, (ast.Yield, ast.YieldFrom)) for n in ast.walk(mi.functions[e.value[2][1][1]])):
                saw_block += 1
                bad.append(f'by ranging over `{e.value[2][1][1]}(..)`, which does not hand on the statements of every nested block')
                continue
            if e.kind != 'loop' or e.value[0] != 'for' or e.value[2] != STMTS:
                continue
            for sp in e.extra:
                is_block = [b for c, b in sp.conds if c == ('call', ('name', 'isinstance'), (ELEM, ('name', 'Block')), ())]
                if not is_block or is_block[-1] is not True or sp.end[0] == 'raise':
                    continue
                saw_block += 1

                def calls(evs):
                    for x in evs:
                        if x.kind == 'ecall':
                            yield x.value
                        elif x.kind == 'loop':
                            for q in x.extra:
                                yield from calls(q.events)
                rec = [c for c in calls(sp.events) if c[1] == ('name', fn.name) and c[2] == (('attr', ELEM, 'statements'),)]
                if not rec:
                    bad.append('a block is scanned without calling the scan again on `block.statements`')
    ctx.require(saw_block > 0, 'statements_get_constants: no path handles a Block statement - cannot decide whether nested blocks are scanned')
    ctx.ob('slice-closure', 'constant-scan-recurses-into-blocks', not bad,
           'the constants of a slice are collected ' + '; '.join(sorted(set(bad))) + ': statements in a block nested inside a block (an axiom '
           'with disjointness conditions and hypotheses) are not scanned, their constants are missing from the `$c` declaration of the slice',
           where, facts={'paths through a Block': saw_block})
    blk = py.cls('Block', AST)
    gm = blk.methods.get('get_metavariables')
    ctx.require(gm is not None, 'anchor vanished: Block.get_metavariables')
    SELF = ('param', 'self')
    ok = False
    STS = ('attr', SELF, 'statements')

    def unfiltered_comp(v):
        """some sub-value is a comprehension over self.statements, without a filter, whose element is <stmt>.get_metavariables()"""
        if not isinstance(v, tuple) or not v:
            return False
        if v[0] == 'comp' and len(v[3]) == 1 and v[3][0][1] == STS and not v[3][0][2] \
                and v[2] == ('call', ('attr', ('bound', v[3][0][0]), 'get_metavariables'), (), ()):
            return True
        return any(unfiltered_comp(x) for x in v if isinstance(x, tuple))
    for p in PyEval().paths(gm):
        if p.end[0] != 'return':
            continue
        loops = [e for e in p.events if e.kind == 'loop' and e.value[0] == 'for' and e.value[2] == STS]
        ok = (len(loops) == 1 and all(any(x.kind == 'ecall' and x.value[1] == ('attr', ('elem', STS), 'get_metavariables')
                                           for x in sp.events) for sp in loops[0].extra if sp.end[0] in ('fall', 'continue'))) \
            or (not loops and unfiltered_comp(p.end[1]))
        if not ok:
            break
    ctx.ob('slice-closure', 'variable-scan-recurses-into-blocks', ok,
           'Block.get_metavariables must unite get_metavariables() of EVERY statement of the block (which recurses into nested blocks)',
           py.where(AST, gm))


def _display_as_appends(fn: ast.FunctionDef) -> ast.FunctionDef:
    """`return Database((e1, *(f(x) for x in xs if c), e2))` is the list built by `out = []; out.append(e1); for x in xs: if c:
    out.append(f(x)); out.append(e2); return Database(tuple(out))` - same elements, same order, same evaluation order.  The slice
    rules are stated on the second spelling; a copy of the function in that spelling is returned (the original if it already is)."""
    import copy
    last = fn.body[-1] if fn.body else None
    if not (isinstance(last, ast.Return) and isinstance(last.value, ast.Call) and ast.unparse(last.value.func) == 'Database'
            and len(last.value.args) == 1 and not last.value.keywords):
        return fn
    arg = last.value.args[0]
    while isinstance(arg, ast.Call) and isinstance(arg.func, ast.Name) and arg.func.id in ('tuple', 'list') and len(arg.args) == 1:
        arg = arg.args[0]
    if not isinstance(arg, (ast.Tuple, ast.List)):
        return fn
    g = copy.deepcopy(fn)
    OUT = 'slice_out_'
    new: list[ast.stmt] = [ast.Assign(targets=[ast.Name(id=OUT, ctx=ast.Store())], value=ast.List(elts=[], ctx=ast.Load()))]

    def app(e):
        return ast.Expr(value=ast.Call(func=ast.Attribute(value=ast.Name(id=OUT, ctx=ast.Load()), attr='append', ctx=ast.Load()), args=[e], keywords=[]))
    garg = g.body[-1].value.args[0]
    while isinstance(garg, ast.Call):
        garg = garg.args[0]
    for e in garg.elts:
        if isinstance(e, ast.Starred) and isinstance(e.value, (ast.GeneratorExp, ast.ListComp)):
            body: list[ast.stmt] = [app(e.value.elt)]
            for gen in reversed(e.value.generators):
                for c in reversed(gen.ifs):
                    body = [ast.If(test=c, body=body, orelse=[])]
                body = [ast.For(target=gen.target, iter=gen.iter, body=body, orelse=[])]
            new.extend(body)
        elif isinstance(e, ast.Starred) and isinstance(e.value, ast.IfExp) and isinstance(e.value.orelse, (ast.Tuple, ast.List)) and not e.value.orelse.elts \
                and isinstance(e.value.body, (ast.Tuple, ast.List)):
            new.append(ast.If(test=e.value.test, body=[app(x) for x in e.value.body.elts] or [ast.Pass()], orelse=[]))     # *([x] if c else [])
        elif isinstance(e, ast.Starred):
            new.append(ast.Expr(value=ast.Call(func=ast.Attribute(value=ast.Name(id=OUT, ctx=ast.Load()), attr='extend', ctx=ast.Load()),
                                               args=[e.value], keywords=[])))
        else:
            new.append(app(e))
    ret = ast.Return(value=ast.Call(func=ast.Name(id='Database', ctx=ast.Load()),
                                    args=[ast.Call(func=ast.Name(id='tuple', ctx=ast.Load()), args=[ast.Name(id=OUT, ctx=ast.Load())], keywords=[])], keywords=[]))
    for st in new + [ret]:
        ast.copy_location(st, last)
        ast.fix_missing_locations(st)
    g.body = g.body[:-1] + new + [ret]
    # statement order is what the rules read: give the new statements increasing positions after the last original one
    for k, st in enumerate(new + [ret]):
        for n in ast.walk(st):
            if hasattr(n, 'lineno'):
                n.lineno = n.end_lineno = last.lineno + k
    return g


def _inline_local_predicates(fn: ast.FunctionDef) -> ast.FunctionDef:
    """a nested function of the form `if c1: return e1 .. return en` used as a condition (`if keep(x, y):`) is replaced, at its uses
    in conditions, by the boolean expression it computes, so that path conditions mention the facts and not the predicate's name"""
    import copy
    preds = {}
    for st in fn.body:
        if isinstance(st, ast.FunctionDef) and not st.args.vararg and not st.args.kwarg and not st.args.defaults:
            arms, ok = [], True
            for b in st.body[:-1]:
                if isinstance(b, ast.Expr) and isinstance(b.value, ast.Constant):
                    continue
                if isinstance(b, ast.If) and not b.orelse and len(b.body) == 1 and isinstance(b.body[0], ast.Return) and b.body[0].value is not None:
                    arms.append((b.test, b.body[0].value))
                else:
                    ok = False
            last = st.body[-1] if st.body else None
            if ok and isinstance(last, ast.Return) and last.value is not None:
                expr = last.value
                for c, e in reversed(arms):
                    if isinstance(e, ast.Constant) and e.value is True:
                        expr = ast.BoolOp(op=ast.Or(), values=[c, expr])
                    elif isinstance(e, ast.Constant) and e.value is False:
                        expr = ast.BoolOp(op=ast.And(), values=[ast.UnaryOp(op=ast.Not(), operand=c), expr])
                    else:
                        expr = ast.BoolOp(op=ast.Or(), values=[ast.BoolOp(op=ast.And(), values=[c, e]),
                                                               ast.BoolOp(op=ast.And(), values=[ast.UnaryOp(op=ast.Not(), operand=c), expr])])
                preds[st.name] = ([a.arg for a in st.args.args], expr)
    if not preds:
        return fn

    class T(ast.NodeTransformer):
        def visit_If(self, node):
            self.generic_visit(node)
            node.test = R().visit(node.test)
            return node

    class R(ast.NodeTransformer):
        def visit_Call(self, node):
            self.generic_visit(node)
            if isinstance(node.func, ast.Name) and node.func.id in preds and not node.keywords and len(node.args) == len(preds[node.func.id][0]) \
                    and all(isinstance(a, (ast.Name, ast.Attribute)) for a in node.args):
                params, expr = preds[node.func.id]
                table = dict(zip(params, node.args))

                class S(ast.NodeTransformer):
                    def visit_Name(self, n):
                        return copy.deepcopy(table[n.id]) if n.id in table and isinstance(n.ctx, ast.Load) else n
                return ast.copy_location(S().visit(copy.deepcopy(expr)), node)
            return node
    g = T().visit(copy.deepcopy(fn))
    ast.fix_missing_locations(g)
    return g


def slice_closure(ctx, py: PyRepo):
    """self-containedness of a slice, as a closure rule over supporting_database_for_provable: every statement the slice EMITS is
    one whose symbols were SCANNED into the sets the `$c` / `$v` declarations and the floating hypotheses are generated from; the
    scan is complete before anything is emitted; declarations precede uses; floating hypotheses come out of one in-order pass."""
    from ..core import astpaths
    fn = _inline_local_predicates(_display_as_appends(py.function(SLICER, 'supporting_database_for_provable')))
    where = py.where(SLICER, fn)
    params = [a.arg for a in fn.args.args]
    ctx.require(len(params) == 5, 'supporting_database_for_provable: signature changed (expected cut antecedents, global disjoints, '
                                  'syntax dependencies, provable, essentials)')
    CUT, _GD, _SD, PROV, ESS = params
    from .c16 import returned_exprs
    ret = [v for st, v in returned_exprs(fn) if st in fn.body]
    ctx.require(len(ret) == 1 and re.fullmatch(r'Database\(tuple\((\w+)\)\)', ast.unparse(ret[0])) is not None,
                'supporting_database_for_provable: does not end in `return Database(tuple(<list>))`')
    OUT = re.fullmatch(r'Database\(tuple\((\w+)\)\)', ast.unparse(ret[0])).group(1)
    top_index = {}
    for i, st in enumerate(fn.body):
        for n in ast.walk(st):
            top_index[id(n)] = i
    loops = [n for n in _own_nodes(fn) if isinstance(n, ast.For)]
    loop_of = {}
    for lp in loops:
        for st in lp.body + lp.orelse:
            for n in ast.walk(st):
                loop_of.setdefault(id(n), lp)      # innermost is set by the later (inner) loop: override below
    for lp in sorted(loops, key=lambda l: l.lineno):
        for st in lp.body:
            for n in ast.walk(st):
                loop_of[id(n)] = lp

    # ---- the sets the declarations are generated from
    def decl_var(cls):
        for n in _own_nodes(fn):
            if isinstance(n, ast.Call) and isinstance(n.func, ast.Name) and n.func.id == cls:
                names = [x.id for x in ast.walk(n) if isinstance(x, ast.Name) and x.id not in (cls, 'tuple', 'sorted', 'Metavariable', 'var')]
                loc = [x for x in names if any(isinstance(a, (ast.Assign, ast.AnnAssign)) and ast.unparse(a.targets[0] if isinstance(a, ast.Assign) else a.target) == x
                                               for a in _own_nodes(fn))]
                if loc:
                    return loc[0], n
        return None, None
    VC, c_site = decl_var('ConstantStatement')
    VM, v_site = decl_var('VariableStatement')
    ctx.require(VC is not None and VM is not None, 'supporting_database_for_provable: no `$c` / `$v` declaration is generated from a local set')
    # ---- a `$d` restriction is kept exactly when all its variables are declared in the slice: the condition under which a pair of
    #      the disjointness set (second parameter) is emitted is `pair <= VM`, nothing stronger and nothing weaker
    def subset_of_vm(c, P):
        return c in (f'{P}.issubset({VM})', f'{P} <= {VM}', f'{VM}.issuperset({P})', f'{VM} >= {P}',
                     f'all(({P[:1]} in {VM} for {P[:1]} in {P}))')
    n_d = 0
    d_sites = []
    for node in _own_nodes(fn):
        if isinstance(node, ast.For) and ast.unparse(node.iter) == _GD and isinstance(node.target, ast.Name):
            P = node.target.id
            for sp in astpaths.paths(node.body):
                emits = [c for a in sp.actions for c in ast.walk(a) if isinstance(c, ast.Call) and isinstance(c.func, ast.Name)
                         and c.func.id == 'DisjointStatement']
                d_sites.append((node, P, [(c, b) for c, b in sp.conds], bool(emits)))
        elif isinstance(node, (ast.ListComp, ast.GeneratorExp)) and len(node.generators) == 1 and ast.unparse(node.generators[0].iter) == _GD \
                and isinstance(node.generators[0].target, ast.Name) and isinstance(node.elt, ast.Call) \
                and isinstance(node.elt.func, ast.Name) and node.elt.func.id == 'DisjointStatement':
            P = node.generators[0].target.id
            conds = [(c, b) for t in node.generators[0].ifs for way in astpaths._test(t, True)[:1] for c, b in way]
            d_sites.append((node, P, conds, True))
    for node, P, conds, emits in d_sites:
        n_d += 1
        if emits:
            bad = [f'{c} is {b}' for c, b in conds if not (b and subset_of_vm(c, P))]
            ok = not bad and any(b and subset_of_vm(c, P) for c, b in conds)
            why = ('only under the further condition ' + ' and '.join(bad)) if bad else 'without requiring its variables to be declared'
        else:
            ok = not any(b and subset_of_vm(c, P) for c, b in conds)
            why = 'not although all its variables are declared'
        ctx.ob('slice-closure', 'disjoint-kept-iff-declared', ok,
               f'a `$d` restriction `{P}` of `{_GD}` is emitted {why}: the slice must carry exactly the restrictions among the variables it '
               f'declares (`{P} <= {VM}`) - one that is dropped lets a substitution through that the full database forbids, one over an '
               f'undeclared variable does not parse', py.where(SLICER, node))
    ctx.require(n_d >= 1, 'supporting_database_for_provable: the place where the `$d` restrictions are emitted was not found')
    # the grammar reads `$v token+ $.`: a `$v` statement without a variable does not parse.  A lemma and its cone may use no variable
    # at all, so the `$v` declaration must be emitted only on paths where the variable set is known to be non-empty.  (`$c` needs no
    # such guard: the lemma itself is scanned unconditionally and every statement starts with a constant, its typecode.)
    gram = grammar_rules(py) or {}
    if 'variable_stmt' in gram:
        guarded = True
        for sp in astpaths.paths(fn.body):
            if any(any(x is v_site for x in ast.walk(a)) for a in sp.actions):
                nonempty = sp.holds(VM) is True or sp.holds(f'len({VM}) > 0') is True or sp.holds(f'len({VM}) == 0') is False \
                    or sp.holds(f'len({VM})') is True or sp.holds(f'len({VM}) >= 1') is True or sp.holds(f'len({VM}) != 0') is True
                guarded = guarded and nonempty
        ctx.ob('slice-closure', 'variable-declaration-only-when-non-empty', guarded,
               f'the slice emits `$v` built from `{VM}` on a path where `{VM}` may be empty: the printed statement `$v $.` is not in the '
               f'grammar (`"$v" token+ "$."`), so the slice of a lemma whose cone uses no variable does not re-parse', py.where(SLICER, v_site))

    def iter_origins(it):
        """origins named by the iterable of a scanning loop"""
        if isinstance(it, ast.BinOp) and isinstance(it.op, ast.Add):
            return iter_origins(it.left) | iter_origins(it.right)
        if isinstance(it, ast.Call) and isinstance(it.func, ast.Name) and it.func.id in ('tuple', 'list') and len(it.args) == 1:
            return iter_origins(it.args[0])
        if isinstance(it, (ast.ListComp, ast.GeneratorExp)):
            return elt_origins(ast.Starred(value=it))
        if isinstance(it, (ast.Tuple, ast.List)):
            out = set()
            for e in it.elts:
                out |= elt_origins(e)
            return out
        if isinstance(it, ast.Name) and it.id == ESS:
            return {ESS}
        return set()

    def elt_origins(e):
        if isinstance(e, ast.Name) and e.id in (PROV, ESS):
            return {e.id}
        if isinstance(e, ast.Starred):
            v = e.value
            if isinstance(v, ast.Name) and v.id == ESS:
                return {ESS}
            if isinstance(v, (ast.GeneratorExp, ast.ListComp)) and len(v.generators) == 1 and not v.generators[0].ifs \
                    and isinstance(v.elt, ast.Subscript) and ast.unparse(v.elt.value) == CUT \
                    and ast.unparse(v.elt.slice) == ast.unparse(v.generators[0].target) and isinstance(v.generators[0].iter, ast.Name):
                return {f'{CUT}[{v.generators[0].iter.id}]'}
        return set()

    def unconditional_in_loop(stmt, lp):
        for sp in astpaths.paths(lp.body):
            if sp.end in ('fall', 'continue') and not any(stmt is a or any(stmt is x for x in ast.walk(a)) for a in sp.actions):
                return False
        return True

    def preceding_binding(stmt, name):
        """the value of the nearest assignment `name = <call-free expression>` before `stmt` in its own block, else None"""
        for holder in ast.walk(fn):
            for fld in ('body', 'orelse', 'finalbody'):
                blk = getattr(holder, fld, None)
                if isinstance(blk, list) and any(x is stmt for x in blk):
                    k = next(i for i, x in enumerate(blk) if x is stmt)
                    for prev in reversed(blk[:k]):
                        stored = {x.id for x in ast.walk(prev) if isinstance(x, ast.Name) and isinstance(x.ctx, (ast.Store, ast.Del))}
                        if name in stored:
                            if isinstance(prev, ast.Assign) and len(prev.targets) == 1 and isinstance(prev.targets[0], ast.Name) \
                                    and not any(isinstance(x, ast.Call) for x in ast.walk(prev.value)):
                                return prev.value
                            return None
                    return None
        return None

    def scanned(var, pat):
        """origins whose symbols are fed into `var` (pat: regex on the feeding call with group 1 = the scanned expression)"""
        out, last = set(), -1
        for n in _own_nodes(fn):
            txt = None
            if isinstance(n, ast.Expr) and isinstance(n.value, ast.Call) and ast.unparse(n.value.func) in (f'{var}.update', f'{var}.add'):
                txt = ast.unparse(n.value.args[0]) if n.value.args else ''
                arg = n.value.args[0] if n.value.args else None
            elif isinstance(n, ast.AugAssign) and ast.unparse(n.target) == var and isinstance(n.op, ast.BitOr):
                txt, arg = ast.unparse(n.value), n.value
            elif isinstance(n, (ast.Assign, ast.AnnAssign)) and ast.unparse(n.targets[0] if isinstance(n, ast.Assign) else n.target) == var \
                    and n.value is not None and ast.unparse(n.value) not in ('set()', 'frozenset()'):
                txt, arg = ast.unparse(n.value), n.value
            if txt is None:
                continue
            m = re.fullmatch(pat, txt)
            if not m:
                continue
            last = max(last, top_index.get(id(n), -1))
            inner = ast.parse(m.group(1), mode='eval').body
            srcs = inner.elts if isinstance(inner, (ast.Tuple, ast.List)) else [inner]
            for src in srcs:
                lp = loop_of.get(id(n))
                if isinstance(src, ast.Name) and lp is not None and ast.unparse(lp.target) == src.id:
                    if unconditional_in_loop(n, lp):
                        out |= iter_origins(lp.iter)
                    continue
                # a local that names what is scanned: bound by the nearest preceding call-free assignment of the same block
                if isinstance(src, ast.Name) and src.id not in (PROV, ESS):
                    alias = preceding_binding(n, src.id)
                    if alias is not None:
                        if isinstance(alias, ast.Subscript) and ast.unparse(alias.value) == CUT and lp is not None \
                                and ast.unparse(alias.slice) == ast.unparse(lp.target) and isinstance(lp.iter, ast.Name) and unconditional_in_loop(n, lp):
                            out.add(f'{CUT}[{lp.iter.id}]')
                            continue
                        src = alias
                out |= elt_origins(src) | (iter_origins(src) if isinstance(src, (ast.Tuple, ast.List, ast.BinOp)) else set())
        return out, last

    scan_c, last_c = scanned(VC, r'statements_get_constants\((.*)\)')
    scan_m, last_m = scanned(VM, r'(.*)\.get_metavariables\(\)')
    last_feed = max(last_c, last_m)
    ctx.require(last_feed >= 0, 'supporting_database_for_provable: no statement feeds the declaration sets')

    # ---- emission sites
    emitted = []          # (top index, description, origins, can_be_float, loop, node)
    for n in _own_nodes(fn):
        if not (isinstance(n, ast.Call) and ast.unparse(n.func) in (f'{OUT}.append', f'{OUT}.extend', f'{OUT}.insert')):
            continue
        arg = n.args[-1]
        lp = loop_of.get(id(n))
        if n.func.attr == 'extend' and isinstance(arg, (ast.ListComp, ast.GeneratorExp)):
            arg = arg.elt                 # extending by a comprehension emits its element once per iteration
        if isinstance(arg, ast.Call) and isinstance(arg.func, ast.Name) and arg.func.id in ('ConstantStatement', 'VariableStatement', 'DisjointStatement'):
            emitted.append((top_index[id(n)], arg.func.id, {'decl:' + arg.func.id}, False, lp, n))
            # the `$c` / `$v` statement declares the WHOLE set that was collected (every constant / variable of the needed statements)
            if arg.func.id in ('ConstantStatement', 'VariableStatement') and len(arg.args) == 1 and lp is None:
                S_ = VC if arg.func.id == 'ConstantStatement' else VM

                def whole(e):
                    """True: every element of S_ once, in some order; False: a recognised part of it; None: not read"""
                    if isinstance(e, ast.Name):
                        return True if e.id == S_ else None
                    if isinstance(e, ast.Call) and isinstance(e.func, ast.Name) and e.func.id in ('tuple', 'list', 'sorted', 'frozenset', 'set', 'reversed') and e.args:
                        return whole(e.args[0])
                    if isinstance(e, ast.Call) and isinstance(e.func, ast.Name) and e.func.id == 'map' and len(e.args) == 2:
                        return whole(e.args[1])
                    if isinstance(e, ast.Call) and isinstance(e.func, ast.Name) and e.func.id == 'filter':
                        return False if any(isinstance(x, ast.Name) and x.id == S_ for x in ast.walk(e)) else None
                    if isinstance(e, ast.Subscript) and isinstance(e.slice, ast.Slice):
                        if e.slice.lower is None and e.slice.upper is None:
                            return whole(e.value)
                        return False if any(isinstance(x, ast.Name) and x.id == S_ for x in ast.walk(e.value)) else None
                    if isinstance(e, (ast.GeneratorExp, ast.ListComp, ast.SetComp)) and len(e.generators) == 1:
                        w = whole(e.generators[0].iter)
                        return False if (w is not None and e.generators[0].ifs) else w
                    return None
                w = whole(arg.args[0])
                if w is not None:
                    ctx.ob('slice-closure', f'declares-the-whole-set:{arg.func.id}', w,
                           f'`{ast.unparse(arg)[:90]}` declares only part of `{S_}`: a symbol of a needed statement stays undeclared (an undeclared '
                           f'variable is read as a constant, an undeclared constant makes the slice unparsable)', py.where(SLICER, n))
        elif isinstance(arg, ast.Call) and isinstance(arg.func, ast.Name) and arg.func.id == 'Block' and len(arg.args) == 1:
            orgs = iter_origins(arg.args[0])
            elts = arg.args[0].elts if isinstance(arg.args[0], (ast.Tuple, ast.List)) else []
            ctx.ob('slice-closure', 'lemma-block-shape', bool(elts) and ast.unparse(elts[-1]) == PROV and orgs == {PROV, ESS},
                   f'the lemma must be emitted as a block of its own hypotheses followed by the lemma itself; found `{ast.unparse(arg)[:80]}`',
                   py.where(SLICER, n))
            emitted.append((top_index[id(n)], 'Block', orgs, False, lp, n))
        elif isinstance(arg, ast.Name) and lp is not None and isinstance(lp.target, ast.Tuple) and len(lp.target.elts) == 2 \
                and ast.unparse(lp.target.elts[1]) == arg.id and re.fullmatch(rf'{CUT}\.items\(\)', ast.unparse(lp.iter)):
            key, st = (ast.unparse(e) for e in lp.target.elts)
            # ... and nothing that is needed is passed over: a kept statement that the proof names, and the floating hypothesis of a
            # variable in use, IS emitted (every path on which one of the two holds reaches the emission)
            skipped = []
            # every emission of the loop's statement counts (`if named: emit elif float-in-use: emit` has two)
            same = [m_ for m_ in _own_nodes(fn) if isinstance(m_, ast.Call) and ast.unparse(m_.func) == ast.unparse(n.func) and m_.args
                    and isinstance(m_.args[-1], ast.Name) and m_.args[-1].id == arg.id and loop_of.get(id(m_)) is lp]
            for sp in astpaths.paths(lp.body):
                if sp.end == 'raise' or any(any(x is m_ for m_ in same for x in ast.walk(a)) for a in sp.actions):
                    continue
                true_ = [c for c, b in sp.conds if b]
                if any(re.fullmatch(rf'{key} in (\w+)', c) for c in true_):
                    skipped.append('a statement named by the proof')
                if f'isinstance({st}, FloatingStatement)' in true_ and any(re.fullmatch(rf'{st}\.metavariable in (\w+)', c) for c in true_):
                    skipped.append('the floating hypothesis of a variable in use')
            ctx.ob('slice-closure', 'needed-statements-are-emitted', not skipped,
                   f'the pass over `{CUT}` passes over ' + ' and '.join(sorted(set(skipped))) + ' without emitting it: the slice lacks a '
                   'statement its proof refers to (or the `$f` of a variable it declares)', py.where(SLICER, lp))
            for sp in astpaths.paths(lp.body):
                if not any(any(x is n for x in ast.walk(a)) for a in sp.actions):
                    continue
                true = [c for c, b in sp.conds if b]
                m_named = [re.fullmatch(rf'{key} in (\w+)', c) for c in true]
                named = [m.group(1) for m in m_named if m]
                flt = f'isinstance({st}, FloatingStatement)' in true
                m_mv = [re.fullmatch(rf'{st}\.metavariable in (\w+)', c) for c in true]
                mvs = [m.group(1) for m in m_mv if m]
                not_float = (f'isinstance({st}, FloatingStatement)', False) in sp.conds
                if named:
                    emitted.append((top_index[id(n)], f'named in {named[0]}', {f'{CUT}[{named[0]}]'}, not not_float, lp, n))
                elif flt and mvs:
                    emitted.append((top_index[id(n)], f'floating hypothesis of a variable in {mvs[0]}', {f'float[{mvs[0]}]'}, True, lp, n))
                else:
                    emitted.append((top_index[id(n)], 'under ' + (' and '.join(true) or 'no condition'), {'?'}, not not_float, lp, n))
        else:
            emitted.append((top_index[id(n)], ast.unparse(arg)[:60], {'?'}, True, lp, n))
    ctx.require(len(emitted) >= 5, 'supporting_database_for_provable: emission sites not recognised')

    # (1) closure: what is emitted was scanned, for constants and for variables
    k = 0
    for idx, desc, orgs, _f, lp, n in emitted:
        for o in sorted(orgs):
            if o.startswith('decl:'):
                continue
            k += 1
            if o.startswith('float['):
                ok = o == f'float[{VM}]'
                ctx.ob('slice-closure', f'emit:{desc}', ok,
                       f'a floating hypothesis is emitted for variables in `{o[6:-1]}`, not the set `{VM}` the `$v` declaration is generated from',
                       py.where(SLICER, n), facts={'origin': o})
                continue
            if o == '?':
                ctx.ob('slice-closure', f'emit:{desc}', False,
                       f'the slice emits a statement ({desc}) that is tied neither to the labels whose statements were scanned nor to '
                       f'the variables in use: its constants and variables may be undeclared', py.where(SLICER, n))
                continue
            missing = [nm for nm, sc in ((f'constants ({VC})', scan_c), (f'variables ({VM})', scan_m)) if o not in sc]
            ctx.ob('slice-closure', f'emit:{o}', not missing,
                   f'the slice emits `{o}` but its symbols are never collected into the {" and the ".join(missing)}: a constant, a variable '
                   f'or the floating hypothesis of a variable occurring only there is not declared in the slice (the parser then reads the '
                   f'variable as a constant and the lemma changes meaning)', py.where(SLICER, n),
                   facts={'scanned for constants': sorted(scan_c), 'scanned for variables': sorted(scan_m)})
    # (2) the scan is complete before anything is emitted, and the label set does not grow after the scan
    for idx, desc, orgs, _f, lp, n in emitted:
        ctx.ob('slice-closure', f'scan-before-emit:{desc}', idx > last_feed,
               f'`{ast.unparse(n)[:60]}` is emitted before the scan of the needed statements is complete', py.where(SLICER, n))
    label_sets = {o[len(CUT) + 1:-1] for _i, _d, orgs, _f, _l, _n in emitted for o in orgs if o.startswith(CUT + '[')}
    for ls in sorted(label_sets):
        stores = [top_index[id(n)] for n in _own_nodes(fn)
                  if (isinstance(n, ast.AugAssign) and ast.unparse(n.target) == ls) or
                  (isinstance(n, ast.Assign) and any(ast.unparse(t) == ls for t in n.targets)) or
                  (isinstance(n, ast.Call) and ast.unparse(n.func) in (f'{ls}.add', f'{ls}.update'))]
        ctx.ob('slice-closure', f'label-set-final:{ls}', bool(stores) and max(stores) < min(i for i in (last_c, last_m) if i >= 0),
               f'`{ls}` is extended after the statements it names were scanned for symbols: statements added later are emitted unscanned',
               where)
    # (3) declarations precede uses
    # (positions in program order: a statement nested in an `else` still comes after the statements before the `if`)
    pre_ = {}

    def number(node):
        pre_[id(node)] = len(pre_)
        for ch in ast.iter_child_nodes(node):
            number(ch)
    number(fn)
    pos = {d: pre_[id(n_)] for _i, d, _o, _f, _l, n_ in emitted if d in ('ConstantStatement', 'VariableStatement', 'Block')}
    body_emits = [pre_[id(n_)] for _i, d, o, _f, _l, n_ in emitted if not any(x.startswith('decl:') for x in o) and d != 'Block']
    # the pass that emits the statements the proof names runs whatever else holds: under a condition (`if <variables in use>: ..`) a
    # lemma whose cone has no variable gets a slice without the axioms its proof cites
    parents_ = {c_: p_ for p_ in ast.walk(fn) for c_ in ast.iter_child_nodes(p_)}
    for lp_ in {id(l_): l_ for _i, _d, o, _f, l_, _n in emitted if l_ is not None and any(x.startswith(CUT + '[') for x in o)}.values():
        guards = []
        cur_ = lp_
        while cur_ in parents_ and parents_[cur_] is not fn:
            par_ = parents_[cur_]
            if isinstance(par_, ast.If):
                in_body = any(cur_ is x for x in par_.body)
                guards.append(('' if in_body else 'not ') + ast.unparse(par_.test))
            elif isinstance(par_, (ast.For, ast.While, ast.Try, ast.With)):
                guards.append(type(par_).__name__)
            cur_ = par_
        ctx.ob('slice-closure', 'named-statements-emitted-unconditionally', not guards,
               f'the pass over `{CUT}` that emits the statements named by the proof only runs under `{" and ".join(guards)[:120]}`: when that does not '
               f'hold the slice lacks every axiom and lemma its proof cites', py.where(SLICER, lp_))
    ok = 'ConstantStatement' in pos and 'VariableStatement' in pos and 'Block' in pos and body_emits \
        and max(pos['ConstantStatement'], pos['VariableStatement']) < min(body_emits) and max(body_emits) < pos['Block']
    ctx.ob('slice-closure', 'declarations-first', bool(ok),
           'the slice must list `$c` and `$v` first, then the supporting statements, then the lemma block (a variable used before its '
           '`$v` is read as a constant by the parser)', where, facts={'order': [d for _i, d, _o, _f, _l, _n in sorted(emitted, key=lambda e: e[0])]})
    # (4) floating hypotheses: one pass, in container order
    float_loops = {}
    for idx, desc, orgs, can_float, lp, n in emitted:
        if can_float and lp is not None and not any(o.startswith('decl:') for o in orgs):
            float_loops.setdefault(id(lp), (lp, []))[1].append(desc)
    ctx.ob('slice-closure', 'floats-in-one-ordered-pass', len(float_loops) == 1,
           f'floating hypotheses are emitted by {len(float_loops)} separate passes over `{CUT}` '
           f'({"; ".join(", ".join(d) for _l, d in float_loops.values())}): a hypothesis emitted by a later pass comes after hypotheses that '
           f'followed it in the database, which permutes the mandatory hypotheses of every statement using both variables', where)
    ctx.analysed['slice: emission sites'] = len(emitted)
    ctx.analysed['slice: origins scanned'] = {'constants': sorted(scan_c), 'variables': sorted(scan_m)}
    ctx.floor('slice-closure', 12)


def slicer_helpers(ctx, py: PyRepo):
    """the small functions the slicer is built from, decided on the values they return (pyeval) - no test runs any of them:
    * deconstruct_compressed_proof: the labels are the words between the first `(` and the first `)` after it, the step letters
      what follows that `)`;
    * deconstruct_provable: a bare lemma has no antecedents; a block is (all its statements but the last, the last);
    * construct_axiom: the axiom registered for a lemma carries the lemma's label and terms, alone when there are no antecedents,
      otherwise at the end of a block that starts with all of them, in order;
    * the constant scan: get_constants collects the symbol of every application and recurses into its subterms;
      statements_get_constants collects them for every structured statement and recurses into blocks."""
    from ..core.pyeval import Decline as _Decline, PyEval as _PE0, show as _sh
    mi = py.modules[SLICER]

    class _PE:
        """paths of a helper, or none when it is written in a way the evaluator does not read (the rule is then not instantiated)"""
        def paths(self, f):
            try:
                return _PE0().paths(f)
            except _Decline as d:
                ctx.advisory(f'metamath_extract_slice.{f.name}: not read by the evaluator ({d}); its value rule is not instantiated')
                return []

    def strip_cast(v):
        while isinstance(v, tuple) and v[:2] == ('call', ('name', 'cast')) and len(v[2]) == 2:
            v = v[2][1]
        return v

    def by_position(v):
        """constructor calls of the slicer's statement classes with their keyword arguments put in field order"""
        if not isinstance(v, tuple):
            return v
        v = tuple(by_position(x) for x in v)
        if len(v) == 4 and v[0] == 'call' and isinstance(v[1], tuple) and v[1][:1] == ('name',) and v[3]:
            try:
                ci_ = py.cls(v[1][1], AST)
            except Exception:
                return v
            names = []
            for k_ in reversed(py.mro(ci_)):
                names += [f for f, _t in k_.fields if f not in names]
            kw = dict(v[3])
            rest = names[len(v[2]):]
            if set(kw) <= set(rest) and rest[:len(kw)] == [n_ for n_ in rest if n_ in kw][:len(kw)] and set(rest[:len(kw)]) == set(kw):
                return ('call', v[1], tuple(v[2]) + tuple(kw[n_] for n_ in rest[:len(kw)]), ())
        return v

    def partition_as_find(v, conds):
        """str.partition on a one-character separator written with find and slices (the spelling the rule is stated in):
             (s.partition(x)[2] if s.partition(x)[1] else s)      = s[s.find(x) + 1:]              (find gives -1 when x is absent)
           and, where the path has established that the separator was found (s.partition(y)[1] is true),
             s.partition(y)[0] = s[:s.find(y)]     s.partition(y)[2] = s[s.find(y) + 1:]
           then a slice of a tail slice is taken from the whole string: P[a:][:P[a:].find(y)] = P[a:P.find(y, a)] and
           P[a:][P[a:].find(y) + 1:] = P[P.find(y, a) + 1:]  (a >= 0, y found in P[a:])"""
        found = {c for c, b in conds if b is True}

        def part(t):
            return isinstance(t, tuple) and len(t) == 4 and t[0] == 'call' and isinstance(t[1], tuple) and t[1][0] == 'attr' and t[1][2] == 'partition' \
                and len(t[2]) == 1 and t[2][0][0] == 'const' and isinstance(t[2][0][1], str) and len(t[2][0][1]) == 1 and not t[3]

        def go(t):
            if not isinstance(t, tuple):
                return t
            # the conditional tail first (its test is the raw partition item)
            if len(t) == 4 and t[0] == 'ifexp' and isinstance(t[1], tuple) and t[1][:1] == ('item',) and part(t[1][1]) and t[1][2] == 1 \
                    and t[2] == ('item', t[1][1], 2) and t[3] == t[1][1][1][1]:
                s_ = go(t[3])
                x = t[1][1][2][0]
                return go(('sub', s_, ('slice', ('binop', 'Add', ('call', ('attr', s_, 'find'), (x,), ()), ('const', 1)), None, None)))
            if len(t) == 3 and t[0] == 'item' and part(t[1]) and t[2] in (0, 2) and ('item', t[1], 1) in found:
                s_ = go(t[1][1][1])
                y = t[1][2][0]
                j = ('call', ('attr', s_, 'find'), (y,), ())
                sl = ('slice', None, j, None) if t[2] == 0 else ('slice', ('binop', 'Add', j, ('const', 1)), None, None)
                return go(('sub', s_, sl))
            t = tuple(go(x) for x in t)
            # P[a:][lo:hi] with lo / hi built from P[a:].find(y)
            if len(t) == 3 and t[0] == 'sub' and isinstance(t[2], tuple) and t[2][:1] == ('slice',) and isinstance(t[1], tuple) and t[1][:1] == ('sub',) \
                    and isinstance(t[1][2], tuple) and t[1][2][:1] == ('slice',) and t[1][2][2] is None and t[1][2][3] is None and t[1][2][1] is not None \
                    and t[2][3] is None:
                P_, a = t[1][1], t[1][2][1]
                tail = t[1]

                def shift(e):
                    # an index into the tail -> the index into P
                    if isinstance(e, tuple) and len(e) == 4 and e[0] == 'call' and e[1] == ('attr', tail, 'find') and len(e[2]) == 1:
                        return ('call', ('attr', P_, 'find'), (e[2][0], a), ())
                    if isinstance(e, tuple) and e[:2] == ('binop', 'Add') and e[3] == ('const', 1):
                        inner = shift(e[2])
                        return None if inner is None else ('binop', 'Add', inner, ('const', 1))
                    return None
                lo, hi = t[2][1], t[2][2]
                lo2 = a if lo is None else shift(lo)
                hi2 = None if hi is None else shift(hi)
                if lo2 is not None and (hi is None or hi2 is not None):
                    return ('sub', P_, ('slice', lo2, hi2, None))
            return t
        return go(v)

    # --- deconstruct_compressed_proof
    fn = mi.functions.get('deconstruct_compressed_proof')
    if fn is not None and len(fn.args.args) == 1:
        P = ('attr', ('param', fn.args.args[0].arg), 'proof')
        BEGIN = ('binop', 'Add', ('call', ('attr', P, 'find'), (('const', '('),), ()), ('const', 1))
        END = ('call', ('attr', P, 'find'), (('const', ')'), BEGIN), ())
        want = ('tuple', (('call', ('name', 'tuple'), (('call', ('attr', ('sub', P, ('slice', BEGIN, END, None)), 'split'), (), ()),), ()),
                          ('sub', P, ('slice', ('binop', 'Add', END, ('const', 1)), None, None))))
        rets = [partition_as_find(p.end[1], p.conds) for p in _PE().paths(fn) if p.end[0] == 'return']
        if rets:
            ctx.ob('slice-closure', 'helpers/labels-between-the-parentheses', rets == [want],
               'deconstruct_compressed_proof must return (the words of proof[find("(") + 1 : find(")", begin)], proof[end + 1:]); it returns '
               + '; '.join(_sh(r)[:90] for r in rets) + ' - a label is cut off or a parenthesis is read as a label / a step',
               py.where(SLICER, fn))
    # --- deconstruct_provable
    fn = mi.functions.get('deconstruct_provable')
    if fn is not None and len(fn.args.args) == 1:
        S = ('param', fn.args.args[0].arg)
        ST = ('attr', S, 'statements')
        probs = []
        for p in _PE().paths(fn):
            if p.end[0] != 'return':
                continue
            v = p.end[1]
            bare = any(c == ('call', ('name', 'isinstance'), (S, ('name', 'ProvableStatement')), ()) and b for c, b in p.conds)
            if v[0] != 'tuple' or len(v[1]) != 2:
                probs.append('does not return a pair')
                continue
            a, c_ = strip_cast(v[1][0]), v[1][1]
            if bare:
                if (a, c_) != (('tuple', ()), S):
                    probs.append(f'a bare lemma gives ({_sh(a)[:30]}, {_sh(c_)[:30]})')
            else:
                all_but_last = ('sub', ST, ('slice', None, ('const', -1), None))
                if a not in (all_but_last, ('call', ('name', 'tuple'), (all_but_last,), ())) or c_ != ('sub', ST, ('const', -1)):
                    probs.append(f'a block gives ({_sh(a)[:40]}, {_sh(c_)[:40]})')
        if any(p.end[0] == 'return' for p in _PE().paths(fn)):
          ctx.ob('slice-closure', 'helpers/block-is-antecedents-then-lemma', not probs,
               'deconstruct_provable must split a block into (all statements but the last, the last): ' + '; '.join(probs)
               + ' - a hypothesis or `$d` condition of the lemma is lost, or a hypothesis is taken for the lemma', py.where(SLICER, fn))
    # --- construct_axiom
    fn = mi.functions.get('construct_axiom')
    if fn is not None and len(fn.args.args) == 2:
        A, Cq = (('param', a.arg) for a in fn.args.args)
        AX = ('call', ('name', 'AxiomaticStatement'), (('attr', Cq, 'label'), ('attr', Cq, 'terms')), ())
        probs = []
        for p in _PE().paths(fn):
            if p.end[0] != 'return':
                continue
            empty = any((c == A and b is False) or (c == ('call', ('name', 'len'), (A,), ()) and b is False)
                        or (c == ('cmp', '==', ('call', ('name', 'len'), (A,), ()), ('const', 0)) and b is True) for c, b in p.conds)
            want = AX if empty else ('call', ('name', 'Block'), (('tuple', (('star', A), AX)),), ())
            if by_position(p.end[1]) != want:
                probs.append(f'with{"out" if empty else ""} antecedents it returns `{_sh(p.end[1])[:80]}`')
        if any(p.end[0] == 'return' for p in _PE().paths(fn)):
          ctx.ob('slice-closure', 'helpers/registered-axiom-is-the-lemma', not probs,
               'construct_axiom must return AxiomaticStatement(label, terms) of the lemma, alone or at the end of Block((*antecedents, ..)): '
               + '; '.join(probs), py.where(SLICER, fn))
    # --- the notation axiom that goes with a constructor axiom: `X-is-pattern` -> `X-is-sugar`, when the database has it
    sup_fn = mi.functions.get('supporting_database_for_provable')
    cands = [g for g in ([x for x in ast.walk(sup_fn) if isinstance(x, ast.FunctionDef) and x is not sup_fn] if sup_fn is not None else [])
             + list(mi.functions.values()) if "'is-sugar'" in ast.unparse(g) and ".endswith('is-pattern')" in ast.unparse(g)
             and g is not sup_fn and len(g.args.args) >= 1]
    if len(cands) == 1:
        g = cands[0]
        lab = [a.arg for a in g.args.args if f"{a.arg}.endswith('is-pattern')" in ast.unparse(g)]
        L = ('param', lab[0] if lab else g.args.args[0].arg)
        SUF = ('const', 'is-pattern')
        sugar_forms = []
        for lo in (('const', 0), None):
            for up in (('unop', 'USub', ('call', ('name', 'len'), (SUF,), ())), ('const', -len('is-pattern'))):
                sugar_forms.append(('binop', 'Add', ('sub', L, ('slice', lo, up, None)), ('const', 'is-sugar')))
        sugar_forms.append(('binop', 'Add', ('call', ('attr', L, 'removesuffix'), (SUF,), ()), ('const', 'is-sugar')))
        ENDS = ('call', ('attr', L, 'endswith'), (SUF,), ())
        probs = []
        n_ret = 0
        for p in _PE().paths(g):
            if p.end[0] != 'return':
                continue
            n_ret += 1
            ends = next((b for c, b in p.conds if c == ENDS), None)
            known = next((b for c, b in p.conds if c[0] == 'cmp' and c[1] == 'in' and c[2] in sugar_forms), None)
            if known is None:
                nk = next((b for c, b in p.conds if c[0] == 'cmp' and c[1] == 'not in' and c[2] in sugar_forms), None)
                known = None if nk is None else (not nk)
            v = p.end[1]
            if ends is False and v != ('const', None):
                probs.append('a label that is not an `..is-pattern` gets a notation axiom')
            if ends is True and known is False and v != ('const', None):
                probs.append('a notation axiom the database has not declared yet is asked for')
            if ends is True and known is True and v not in sugar_forms:
                probs.append(f'the notation axiom of `X-is-pattern` is computed as `{_sh(v)[:60]}`, not `X-is-sugar`')
            if ends is None or (ends is True and known is None):
                probs.append('the tests `label.endswith("is-pattern")` / `<X-is-sugar> in <kept statements>` were not both found on a path')
        ctx.ob('slice-closure', 'helpers/notation-axiom-of-a-constructor', n_ret >= 3 and not probs,
               f'{g.name}: ' + '; '.join(sorted(set(probs))) + ' - the slice lacks (or asks for a missing) `#Notation` axiom of a constructor '
               'its proof uses', py.where(SLICER, g))
    # --- the set of labels the slice is built from is closed: the proof's labels, the notation axioms that go with them, and the
    #     syntax dependencies of all of these (unions only; every union is one of the three)
    if sup_fn is not None and len(cands) == 1:
        unions = []
        users = [f_ for f_ in list(mi.functions.values()) if f_ is not cands[0]
                 and any(isinstance(x, ast.Name) and x.id == cands[0].name for x in ast.walk(f_))] or [sup_fn]
        for n_ in [x for f_ in users for x in ast.walk(f_)]:
            if isinstance(n_, ast.AugAssign) and isinstance(n_.op, ast.BitOr) and isinstance(n_.target, ast.Name):
                unions.append((n_.target.id, ast.unparse(n_.value)))
            elif isinstance(n_, ast.Call) and isinstance(n_.func, ast.Attribute) and n_.func.attr in ('update', 'union') \
                    and isinstance(n_.func.value, ast.Name) and n_.args:
                unions.append((n_.func.value.id, ' '.join(ast.unparse(a) for a in n_.args)))
        sets_ = {t for t, _v in unions}
        label_sets = [t for t in sets_ if any(cands[0].name in v for t2, v in unions if t2 == t)]
        P2 = next((a.arg for f_ in users for a in f_.args.args if 'deps' in a.arg), sup_fn.args.args[2].arg if len(sup_fn.args.args) >= 3 else 'syntax_deps')
        ok_sugar = len(label_sets) == 1
        ok_deps = ok_sugar and any(t == label_sets[0] and re.search(rf'\b{P2}\b', v) for t, v in unions)
        ctx.ob('slice-closure', 'label-closure/notation-axioms-and-syntax-dependencies', ok_sugar and ok_deps,
               'the set of labels a slice is built from must be extended by the notation axiom of every constructor axiom the proof names '
               f'({cands[0].name}) and by the syntax dependencies (`{P2}`) of all of them: '
               + ('the notation axioms are not added' if not ok_sugar else 'the syntax dependencies are not added'), py.where(SLICER, sup_fn))
        # ... for EVERY label of the set: the notation axioms are looked up for each element of the label set itself, and the syntax
        # dependencies are added in a loop over that set (a slice / filter of it leaves the notation axiom or the dependencies of the
        # skipped labels out of the slice)
        if ok_sugar and ok_deps:
            T_ = label_sets[0]
            probs_ = []
            n_sites = 0
            for f_ in users:
                parents_ = {c: p_ for p_ in ast.walk(f_) for c in ast.iter_child_nodes(p_)}
                for c_ in [x for x in ast.walk(f_) if isinstance(x, ast.Name) and x.id == cands[0].name and isinstance(x.ctx, ast.Load)]:
                    par = parents_.get(c_)
                    over = None
                    if isinstance(par, ast.Call) and isinstance(par.func, ast.Name) and par.func.id == 'map' and len(par.args) == 2 and par.args[0] is c_:
                        over = par.args[1]
                    elif isinstance(par, ast.Call) and par.func is c_:
                        comp = parents_.get(par)
                        if isinstance(comp, (ast.GeneratorExp, ast.ListComp, ast.SetComp)) and comp.elt is par and len(comp.generators) == 1 \
                                and par.args and isinstance(par.args[0], ast.Name) and isinstance(comp.generators[0].target, ast.Name) \
                                and par.args[0].id == comp.generators[0].target.id:
                            over = comp.generators[0].iter if not comp.generators[0].ifs else ast.Constant(value='<filtered>')
                    if over is None:
                        continue
                    n_sites += 1
                    if not (isinstance(over, ast.Name) and over.id == T_):
                        probs_.append(f'the notation axioms are looked up for `{ast.unparse(over)[:50]}`, not for every label in `{T_}`')
                for lp_ in [x for x in ast.walk(f_) if isinstance(x, ast.For)]:
                    if any(isinstance(a_, ast.AugAssign) and isinstance(a_.target, ast.Name) and a_.target.id == T_ and re.search(rf'\b{P2}\b', ast.unparse(a_.value))
                           for a_ in ast.walk(lp_)):
                        n_sites += 1
                        if not (isinstance(lp_.iter, ast.Name) and lp_.iter.id == T_):
                            probs_.append(f'the syntax dependencies are added for `{ast.unparse(lp_.iter)[:50]}`, not for every label in `{T_}`')
            if n_sites:
                ctx.ob('slice-closure', 'label-closure/for-every-label', not probs_,
                       '; '.join(probs_) + ' - the slice lacks the notation axiom or the syntax of a label its proof names', py.where(SLICER, sup_fn))
    # --- the constant scan
    from ..core import astpaths as AP
    fn = mi.functions.get('get_constants')
    if fn is not None and len(fn.args.args) == 1:
        T = fn.args.args[0].arg
        loops = [x for x in fn.body if isinstance(x, ast.For) and ast.unparse(x.iter) == T and isinstance(x.target, ast.Name)]
        ok = len(loops) == 1
        if ok:
            t = loops[0].target.id
            hit = [sp for sp in AP.paths(loops[0].body) if sp.holds(f'isinstance({t}, Application)') is True]
            txt = ' '.join(ast.unparse(a) for sp in hit for a in sp.actions)
            ok = bool(hit) and all(f'{t}.symbol' in ' '.join(ast.unparse(a) for a in sp.actions)
                                   and f'{fn.name}({t}.subterms)' in ' '.join(ast.unparse(a) for a in sp.actions) for sp in hit)
            acc = {ast.unparse(a.targets[0]) for sp in hit for a in sp.actions if isinstance(a, ast.Assign)} | \
                  {ast.unparse(c.func.value) for sp in hit for a in sp.actions for c in ast.walk(a)
                   if isinstance(c, ast.Call) and isinstance(c.func, ast.Attribute) and c.func.attr in ('update', 'add')}
            rets = [r for r in ast.walk(fn) if isinstance(r, ast.Return)]
            ok = ok and len(acc) == 1 and bool(rets) and all(r.value is not None and ast.unparse(r.value) in acc for r in rets)
        ctx.ob('slice-closure', 'helpers/constants-of-terms', ok,
               'get_constants must, for every application among the terms, collect its symbol and the constants of its subterms, and return '
               'what it collected: a constant that is missed is not declared in the slice', py.where(SLICER, fn))
    fn = mi.functions.get('statements_get_constants')
    if fn is not None and len(fn.args.args) == 1:
        T = fn.args.args[0].arg
        loops = [x for x in fn.body if isinstance(x, ast.For) and ast.unparse(x.iter) == T and isinstance(x.target, ast.Name)]
        ok = len(loops) == 1
        if ok:
            t = loops[0].target.id
            paths_ = AP.paths(loops[0].body)
            s_hit = [sp for sp in paths_ if sp.holds(f'isinstance({t}, StructuredStatement)') is True]
            b_hit = [sp for sp in paths_ if sp.holds(f'isinstance({t}, Block)') is True]

            def feeds(sp, needle):
                return any(isinstance(c, ast.Call) and isinstance(c.func, ast.Attribute) and c.func.attr in ('update', '__ior__')
                           and needle in ast.unparse(c) or isinstance(a, ast.AugAssign) and needle in ast.unparse(a.value)
                           for a in sp.actions for c in ast.walk(a))
            ok = bool(s_hit) and bool(b_hit) and all(feeds(sp, f'get_constants({t}.terms)') for sp in s_hit) \
                and all(feeds(sp, f'{fn.name}({t}.statements)') for sp in b_hit)
            shape = bool(s_hit) and bool(b_hit)
        else:
            shape = False
        if not shape:
            ctx.advisory('statements_get_constants does not dispatch on StructuredStatement / Block inside one loop over its parameter; '
                         'rule helpers/constants-of-statements is not instantiated')
        else:
          ctx.ob('slice-closure', 'helpers/constants-of-statements', ok,
               'statements_get_constants must feed get_constants(<statement>.terms) for every structured statement and recurse into the '
               'statements of a block: a constant that is missed is not declared in the slice', py.where(SLICER, fn))


def printer_output(ctx, py: PyRepo):
    """What the Encoder writes for a node, read as sequences of output items per path (loops taken 0, 1 and 2 times):
    constants `write('..')` and VALUE tokens (a field written, a child visited, a computed letter).
    * every field of the node class is written or visited on some path, and a loop over a field outputs its element on every
      iteration - a field that is not printed cannot come back from the parser;
    * two value tokens never touch, and a value token touches a constant only at a blank (the one designed exception: the
      constant `$` directly before the statement letter, which together are the keyword) - tokens that are glued re-parse as one
      token.  A junction is excused when the path tests the blankness of that very field (`comment.text[..].isspace()`)."""
    ci = py.cls('Encoder', AST)
    amod = py.modules[AST]
    n = 0
    for mname, fn in sorted(ci.methods.items()):
        if not mname.startswith('postvisit_') or len(fn.args.args) != 2:
            continue
        node = fn.args.args[1].arg
        ann = ast.unparse(fn.args.args[1].annotation) if fn.args.args[1].annotation is not None else ''
        ncls = amod.classes.get(ann.strip('\'"'))
        if ncls is None:
            continue
        loopvars = {}

        def items_of(stmts, conds, depth=0):
            """-> list of (items, conds, ended): the output items along each path; `ended` when the path left the method"""
            outs = [([], list(conds), False)]
            for st in stmts:
                live = [o for o in outs if not o[2]]
                done = [o for o in outs if o[2]]
                nxt = []
                call = st.value if isinstance(st, ast.Expr) and isinstance(st.value, ast.Call) else None
                own = call is not None and isinstance(call.func, ast.Attribute) and isinstance(call.func.value, ast.Name) and call.func.value.id == 'self'
                if own and call.func.attr in ('write', 'visit') and len(call.args) == 1:
                    a = call.args[0]
                    alts = [a.body, a.orelse] if isinstance(a, ast.IfExp) else [a]
                    for alt in alts:
                        it = ('const', alt.value) if call.func.attr == 'write' and isinstance(alt, ast.Constant) and isinstance(alt.value, str) \
                            else ('tok', ast.unparse(alt), st)
                        cc = [(ast.unparse(a.test), alt is a.body)] if isinstance(a, ast.IfExp) else []
                        nxt += [(i + [it], c + cc, False) for i, c, _e in live]
                elif own and call.func.attr in ci.methods and depth < 2 and not any(isinstance(x, ast.Starred) for x in call.args) and not call.keywords:
                    # a helper method of the encoder: its body, with the arguments in place of the parameters
                    import copy as _cp
                    h = ci.methods[call.func.attr]
                    hp = [x.arg for x in h.args.args[1:]]
                    if len(hp) == len(call.args):
                        table = dict(zip(hp, call.args))

                        class Sub(ast.NodeTransformer):
                            def visit_Name(self, n_):
                                return _cp.deepcopy(table[n_.id]) if n_.id in table and isinstance(n_.ctx, ast.Load) else n_
                        hb = [Sub().visit(_cp.deepcopy(x)) for x in h.body]
                        for i, c, _e in live:
                            for bi, bc, _be in items_of(hb, c, depth + 1):
                                nxt.append((i + bi, bc, False))
                    else:
                        nxt = live
                elif isinstance(st, ast.If):
                    te, pol = st.test, True
                    while isinstance(te, ast.UnaryOp) and isinstance(te.op, ast.Not):
                        te, pol = te.operand, not pol
                    t = ast.unparse(te)
                    for i, c, _e in live:
                        for bi, bc, be in items_of(st.body, c + [(t, pol)], depth):
                            nxt.append((i + bi, bc, be))
                        for bi, bc, be in items_of(st.orelse, c + [(t, not pol)], depth):
                            nxt.append((i + bi, bc, be))
                elif isinstance(st, ast.For):
                    for x in ast.walk(st.target):
                        if isinstance(x, ast.Name):
                            loopvars[x.id] = ast.unparse(st.iter)
                    body = [(bi, bc) for bi, bc, _be in items_of(st.body, [], depth)]
                    for i, c, _e in live:
                        nxt.append((i, c + [(f'for:{ast.unparse(st.iter)}:0', True)], False))
                        for bi, bc in body:
                            nxt.append((i + bi, c + bc, False))
                            for bj, bc2 in body[:3]:
                                nxt.append((i + bi + bj, c + bc + bc2, False))
                elif isinstance(st, ast.With):
                    for i, c, _e in live:
                        for bi, bc, be in items_of(st.body, c, depth):
                            nxt.append((i + bi, bc, be))
                elif isinstance(st, (ast.Return, ast.Raise)):
                    nxt = [(i, c, True) for i, c, _e in live]
                else:
                    if isinstance(st, (ast.Assign, ast.AnnAssign)) and st.value is not None:
                        t_ = st.targets[0] if isinstance(st, ast.Assign) else st.target
                        if isinstance(t_, ast.Name):
                            loopvars[t_.id] = ast.unparse(st.value)      # a local that names (part of) the node
                    nxt = live
                outs = (done + nxt)[:600]
            return outs

        paths_ = [(i, c) for i, c, _e in items_of(fn.body, [])]
        n += 1
        where = py.where(AST, fn)
        # (1) fields
        fields = [f for f, _t in ncls.fields]
        for b in py.mro(ncls)[1:]:
            if any(d.startswith('dataclass') for d in b.decorators):
                fields = [f for f, _t in b.fields if f not in fields] + fields
        fields = [f for f in fields if 'cache' not in f]
        toks = [t[1] for i, _c in paths_ for t in i if t[0] == 'tok']

        def mentions_field(txt, f):
            if re.search(rf'\b{node}\.{f}\b', txt):
                return True
            return any(re.search(rf'\b{v}\b', txt) and re.search(rf'\b{node}\.{f}\b', src) for v, src in loopvars.items())
        missing = [f for f in fields if not any(mentions_field(t, f) for t in toks)
                   and not (f == 'proof' and ncls.name == 'StructuredStatement')]
        if ncls.name == 'StructuredStatement' and 'proof' not in fields and not any(mentions_field(t, 'proof') for t in toks):
            missing.append('proof (of a provable statement)')
        # a loop over a field outputs its element on every iteration path
        silent_loops = []
        for lp in [x for x in ast.walk(fn) if isinstance(x, ast.For) and re.search(rf'\b{node}\.\w+', ast.unparse(x.iter))]:
            tnames = [x.id for x in ast.walk(lp.target) if isinstance(x, ast.Name)]
            for bi, _bc, _be in items_of(lp.body, []):
                if not any(t[0] == 'tok' and any(re.search(rf'\b{v}\b', t[1]) for v in tnames) for t in bi):
                    silent_loops.append(ast.unparse(lp.iter))
        # ... on EVERY path, unless the path knows the field to be empty (`len(x.f) == 0`, `not x.f`, `x.f is None`), the node to be of
        # a class without it (an isinstance test), or an option of the encoder says to leave it out
        def empty_by(ct, b_, f):
            fx = rf'{node}\.{f}'
            if re.fullmatch(rf'len\({fx}\) == 0', ct) or re.fullmatch(rf'{fx} is None', ct) or re.fullmatch(rf'not {fx}', ct):
                return b_ is True
            if re.fullmatch(rf'len\({fx}\) != 0', ct) or re.fullmatch(fx, ct) or re.fullmatch(rf'len\({fx}\) > 0', ct) or re.fullmatch(rf'{fx} is not None', ct) or re.fullmatch(rf'len\({fx}\)', ct):
                return b_ is False
            return False
        per_path = set()
        for i, c in paths_:
            ptoks = [t[1] for t in i if t[0] == 'tok']
            for f in fields + (['proof'] if ncls.name == 'StructuredStatement' and 'proof' not in fields else []):
                if any(mentions_field(t, f) for t in ptoks):
                    continue
                if any(empty_by(ct, b_, f) for ct, b_ in c) or any(ct == f'for:{node}.{f}:0' or (ct.startswith('for:') and ct.endswith(':0') and f'{node}.{f}' in ct) for ct, _b in c):
                    continue
                if f == 'proof' and (any(ct.startswith('isinstance(') and not (ct == f'isinstance({node}, ProvableStatement)' and b_) for ct, b_ in c) and
                                     not any(ct == f'isinstance({node}, ProvableStatement)' and b_ for ct, b_ in c)
                                     or any(ct.startswith('self.') and b_ for ct, b_ in c)):
                    continue
                per_path.add(f)
        if per_path:
            missing = sorted(set(missing) | {f'{f} (on a path that does not know it to be empty)' for f in per_path})
        # the statement keyword is `$` + letter: the constant `$` is always followed directly by a value token
        for i, c in paths_:
            for k_, t in enumerate(i):
                if t == ('const', '$') and not (k_ + 1 < len(i) and i[k_ + 1][0] == 'tok'):
                    missing = sorted(set(missing) | {'the statement letter after `$`'})
        ctx.ob('printer-output', f'{mname}/fields', not missing and not silent_loops,
               f'Encoder.{mname}: ' + '; '.join(([f'the field(s) {missing} of {ncls.name} are never written'] if missing else [])
                                               + ([f'an iteration over {sorted(set(silent_loops))} writes nothing of its element'] if silent_loops else []))
               + ' - what is not printed does not come back from the parser', where)
        # (2) junctions
        bad = set()
        for i, c in paths_:
            for x, y in zip(i, i[1:]):
                if x[0] == 'tok' and y[0] == 'tok':
                    glued = f'`{x[1]}` and `{y[1]}` are written next to each other'
                elif x[0] == 'tok' and y[0] == 'const':
                    glued = None if (y[1][:1].isspace()) else f'`{x[1]}` is followed by {y[1]!r} without a blank'
                elif x[0] == 'const' and y[0] == 'tok':
                    glued = None if (x[1][-1:].isspace() or x[1] == '$') else f'{x[1]!r} is followed by `{y[1]}` without a blank'
                else:
                    glued = None if (x[1][-1:].isspace() or y[1][:1].isspace() or not x[1] or not y[1]) else f'{x[1]!r} is followed by {y[1]!r} without a blank'
                if glued:
                    tokfield = [t for t in (x, y) if t[0] == 'tok']
                    if any('isspace' in ct and any(re.search(r'\b' + re.escape(tk[1]) + r'\b', ct) for tk in tokfield) for ct, _b in c):
                        continue
                    bad.add(glued)
        # (3) delimiters come in pairs on every path, and a provable statement always gets its `$=`
        pairs_ = [('(', ')'), ('${', '$}'), ('$(', '$)'), ('$[', '$]')]
        unbal = set()
        for i, c in paths_:
            words = [w for t in i if t[0] == 'const' for w in t[1].split()]
            for o_, c_ in pairs_:
                depth_ = 0
                for w in words:
                    if w == o_:
                        depth_ += 1
                    elif w == c_:
                        depth_ -= 1
                        if depth_ < 0:
                            break
                if depth_ != 0:
                    unbal.add(f'`{o_}` / `{c_}` are not written in pairs')
            if any(ct == f'isinstance({node}, ProvableStatement)' and b_ for ct, b_ in c) and '$=' not in words:
                unbal.add('a provable statement is written without `$=`')
        ctx.ob('printer-output', f'{mname}/delimiters-in-pairs', not unbal,
               f'Encoder.{mname}: ' + '; '.join(sorted(unbal)) + ' - the text does not re-parse to the node', where)
        ctx.ob('printer-output', f'{mname}/tokens-are-separated', not bad,
               f'Encoder.{mname}: ' + '; '.join(sorted(bad)[:3]) + ' - the two re-parse as one token', where)
    ctx.require(n >= 8, 'anchor vanished: Encoder.postvisit_* methods that write their node')


def arguments_by_name(ctx, py: PyRepo):
    """The slicer passes five same-shaped collections and pairs of statements between its functions, positionally, and no test
    exercises it.  An argument that is spelled like a DIFFERENT parameter of the callee than the one it is bound to - a plain name
    equal to another parameter's name, or an attribute `x.f` where `f` is another parameter's name - while that other parameter
    receives something else, is two arguments exchanged (`construct_axiom(consequent, antecedents)`,
    `AxiomaticStatement(consequent.terms, consequent.label)`).  Callees: the slicer's own functions and the node classes."""
    mi = py.modules[SLICER]
    ast_mod = py.modules[AST]
    n = 0

    def params_of(name):
        if name in mi.functions:
            g = mi.functions[name]
            return [a.arg for a in g.args.args]
        c = ast_mod.classes.get(name) or mi.classes.get(name)
        if c is not None:
            fields = [f for f, _t in c.fields]
            for b in py.mro(c)[1:]:
                if any(d.startswith('dataclass') for d in b.decorators):
                    fields = [f for f, _t in b.fields if f not in fields] + fields
            return fields or None
        return None

    def params_of_in(name, mname_):
        g = py.modules[mname_].functions.get(name)
        return [a.arg for a in g.args.args] if g is not None else None

    def spelled(e):
        if isinstance(e, ast.Name):
            return e.id
        if isinstance(e, ast.Attribute):
            return e.attr
        return None

    for _mname, qn, f, _ci in py.all_functions():
        if _mname not in (SLICER, PARSER):
            continue
        for c in ast.walk(f):
            if not (isinstance(c, ast.Call) and isinstance(c.func, ast.Name)):
                continue
            ps = params_of(c.func.id) or (params_of_in(c.func.id, _mname) if _mname != SLICER else None)
            if not ps or any(isinstance(a, ast.Starred) for a in c.args) or len(c.args) > len(ps):
                continue
            # parameter -> argument, positional and keyword arguments alike
            bound = dict(zip(ps, c.args))
            if any(k_.arg is None or k_.arg not in ps or k_.arg in bound for k_ in c.keywords):
                continue
            bound.update({k_.arg: k_.value for k_ in c.keywords})
            names = [spelled(bound[p_]) if p_ in bound else None for p_ in ps]
            wrong = []
            for i, nm in enumerate(names):
                if nm is not None and nm in ps and ps.index(nm) != i and ps[i] != nm:
                    j = ps.index(nm)
                    other = names[j] if j < len(names) else None
                    if other != nm:
                        wrong.append(f'argument `{ast.unparse(bound[ps[i]])}` is bound to `{ps[i]}` although the callee has a parameter `{nm}`')
            if any(nm in ps for nm in names if nm):
                n += 1
                ctx.ob('slice-closure', f'arguments-by-name/{qn.split(".")[-1]}->{c.func.id}@{c.lineno - f.lineno}', not wrong,
                       f'{qn}: {c.func.id}(..): ' + '; '.join(wrong) + ' - two arguments are exchanged', py.where(_mname, c))
    ctx.require(n >= 3, 'metamath_extract_slice: no call passes an argument under its parameter\'s name (rule arguments-by-name has nothing to decide)')


def variables_complete(ctx, py: PyRepo):
    """the slicer declares what `get_metavariables()` reports: every node class must report the variables of ALL its term- or
    statement-valued children - a loop over the whole field whose every iteration adds the child's variables (no skipped kinds)"""
    from ..core import astpaths
    mi = py.module(AST)
    n = 0
    for c in mi.classes.values():
        fn = c.methods.get('get_metavariables')
        if fn is None:
            continue
        fields = [(st.target.id, ast.unparse(st.annotation)) for st in c.node.body if isinstance(st, ast.AnnAssign) and isinstance(st.target, ast.Name)]
        kids = [f for f, ann in fields if re.search(r'\b(Term|Terms|Statement|Metavariable)\b', ann) and ('tuple' in ann or ann == 'Terms')]
        where = py.where(AST, fn)
        for f in kids:
            n += 1
            loops = [x for x in ast.walk(fn) if isinstance(x, ast.For) and ast.unparse(x.iter) == f'self.{f}' and isinstance(x.target, ast.Name)]
            comps = [x for x in ast.walk(fn) if isinstance(x, (ast.SetComp, ast.ListComp, ast.GeneratorExp)) and len(x.generators) == 1
                     and ast.unparse(x.generators[0].iter) == f'self.{f}']
            ok, why = False, f'{c.name}.get_metavariables does not range over `self.{f}`'
            if loops:
                lp = loops[0]
                v = lp.target.id
                ok = True
                for sp in astpaths.paths(lp.body):
                    if sp.end in ('fall', 'continue'):
                        adds = [a for a in sp.actions for x in ast.walk(a) if isinstance(x, ast.Call) and isinstance(x.func, ast.Attribute)
                                and x.func.attr in ('update', 'add', 'union') and v in {y.id for y in ast.walk(x) if isinstance(y, ast.Name)}]
                        if not adds:
                            ok = False
                            why = (f'{c.name}.get_metavariables skips a child of `self.{f}` when '
                                   + (' and '.join(f'{cc} is {b}' for cc, b in sp.conds) or 'always')
                                   + ': a variable that occurs only there is not reported, so the slicer neither declares it nor keeps its '
                                     'floating hypothesis')
            elif comps:
                ok = not comps[0].generators[0].ifs
                why = f'{c.name}.get_metavariables filters `self.{f}`'
            ctx.ob('variables-complete', f'{c.name}.{f}', ok, why, where)
    ctx.floor('variables-complete', 4)


def optional_fields(ctx, py: PyRepo):
    """`proof: str | None` - an EMPTY proof is a proof (the grammar has `proof: token*`): a field that may hold a falsy value besides
    None must be tested with `is None`, or printing turns `$= $.` into `$= ? $.` and the database does not re-parse to itself"""
    from .c13 import FnScan, classify
    mi = py.module(AST)
    optional = {}
    for c in mi.classes.values():
        for st in c.node.body:
            if isinstance(st, ast.AnnAssign) and isinstance(st.target, ast.Name):
                cl = classify(ast.unparse(st.annotation), py, AST)
                if cl is not None and cl[0]:
                    optional[st.target.id] = (c.name, ast.unparse(st.annotation))
    n = 0
    for mname in (AST, SLICER, PARSER, 'metamath.utils.printer'):
        m = py.modules.get(mname)
        if m is None:
            continue
        fns = [(f.name, f) for f in m.functions.values()] + [(f'{c.name}.{f.name}', f) for c in m.classes.values() for f in c.methods.values()]
        for qn, fn in fns:
            sc = FnScan()
            for st in fn.body:
                sc.visit(st)
            for e, node in sc.contexts:
                if isinstance(e, ast.Attribute) and e.attr in optional:
                    n += 1
                    cname, ann = optional[e.attr]
                    ctx.ob('optional-field-truthiness', f'{mname}.{qn}:{ast.unparse(e)}', False,
                           f'`{ast.unparse(e)}` ({cname}.{e.attr}: {ann}) is tested for truthiness: the empty value is a legitimate '
                           f'{e.attr} and is treated like a missing one', py.where(mname, e))
    ctx.ob('optional-field-truthiness', 'scan', bool(optional), f'{len(optional)} optional fields with a falsy inhabitant; {n} truthiness tests', '')


def disjoint_all_pairs(ctx, py: PyRepo):
    """`$d v1 .. vn $.` makes EVERY two of its variables disjoint; the slicer records the restriction pairwise, so the loop nest that
    records them must enumerate all unordered pairs (decided by evaluating the loop headers over four abstract variables)"""
    from ..core import iterspace as IS
    IS.set_k(9 if ctx.tier == 'thorough' else 4)
    fn = py.function(SLICER, 'slice_database')
    branches = [n for n in ast.walk(fn) if isinstance(n, ast.If) and re.fullmatch(r'isinstance\((\w+), DisjointStatement\)', ast.unparse(n.test))]
    ctx.require(len(branches) == 1, 'slice_database: branch for `$d` statements not found')
    br = branches[0]
    var = re.fullmatch(r'isinstance\((\w+), DisjointStatement\)', ast.unparse(br.test)).group(1)
    base = f'{var}.metavariables'
    where = py.where(SLICER, br)

    def is_sink(c):
        return isinstance(c.func, ast.Attribute) and c.func.attr == 'add' and len(c.args) == 1 and isinstance(c.args[0], ast.Call) \
            and ast.unparse(c.args[0].func) == 'frozenset' and len(c.args[0].args) == 1 \
            and isinstance(c.args[0].args[0], (ast.Set, ast.Tuple, ast.List)) and len(c.args[0].args[0].elts) == 2

    try:
        got = IS.tuples_reaching(br.body, base, is_sink, lambda c: c.args[0].args[0].elts)
    except IS.Unsupported as ex:
        ctx.require(False, f'slice_database: the loop recording `$d` pairs is outside the analysed idioms ({ex})')
    pairs = {frozenset(t) for t in got if len(set(t)) == 2}
    want = {frozenset(p) for p in itertools.combinations(range(IS.K), 2)}
    missing = sorted(tuple(sorted(p)) for p in want - pairs)
    ctx.ob('slice-closure', 'disjoint-all-pairs', not missing,
           f'for a `$d` over variables v0..v{IS.K - 1} the slicer records the pairs {sorted(tuple(sorted(p)) for p in pairs)} and drops '
           f'{missing}: a slice then lacks a disjointness restriction the lemma\'s proof relies on and the proof no longer verifies '
           f'against it', where, facts={'pairs recorded (abstract indices)': sorted(tuple(sorted(p)) for p in pairs)})


def parser_state_fresh(ctx, py: PyRepo):
    """the parse transformer remembers the variables declared so far; a database re-parses to itself only if every parse starts
    from a fresh transformer (no instance created at import time / shared through a module-level parser object)"""
    from .c18 import module_level_stateful_instances, stateful_classes
    st = stateful_classes(py)
    tr = [c for c in py.module(PARSER).classes.values() if c.name in st]
    shared = module_level_stateful_instances(py, only_modules={PARSER})
    for mname, node, cname, attrs in shared:
        ctx.ob('parser-state-fresh', f'{cname}@module', False,
               f'{mname} creates a {cname} at import time; it accumulates {", ".join(attrs[:3])} while parsing, so a later parse in the same '
               f'process sees the variables declared by an earlier one (a constant can come back as a variable; an undeclared '
               f'variable is accepted)', py.where(mname, node))
    # positive instances: construction sites inside functions
    n = 0
    for c in tr:
        for fname, fn in py.module(PARSER).functions.items():
            for x in ast.walk(fn):
                if isinstance(x, ast.Call) and isinstance(x.func, ast.Name) and x.func.id == c.name:
                    n += 1
                    ctx.ob('parser-state-fresh', f'{c.name}@{fname}', True, '', py.where(PARSER, x))
    ctx.floor('parser-state-fresh', 2)


def _encl(tree, node) -> str:
    from ..core.pyfacts import enclosing_def
    f_ = enclosing_def(tree, node)
    return f_.name if f_ is not None else '<module>'
