"""C19 - pretty-printed notation shows the arguments it depends on; one pretty line per instruction."""
from __future__ import annotations

import ast
import re
import string

from ..core import pymachine as PM
from ..core.pyfacts import PyRepo
from ..core.report import AnalysisError
from ..core.wiring import Wiring

LEVEL = 'other'
CTORS = {'EVar', 'SVar', 'Symbol', 'Implies', 'App', 'Exists', 'Mu', 'MetaVar', 'ESubst', 'SSubst', 'imp'}
MODULES = ['pattern', 'proofs.propositional', 'proofs.definedness', 'proofs.kore', 'proofs.substitution', 'proofs.small_theory',
           'k.kore_convertion.language_semantics', 'tautology']


class Deps:
    """abstract evaluation of pattern-valued expressions in the domain "set of metavariable indices it depends on\""""

    def __init__(self, py: PyRepo):
        self.py = py
        self.memo: dict[tuple[str, str], object] = {}

    def module_binding(self, module: str, name: str):
        mi = self.py.modules.get(module)
        if mi is None:
            return None
        if name in mi.assigns:
            return module, mi.assigns[name]
        if name in mi.functions:
            return module, mi.functions[name]
        if name in mi.imports:
            mod, orig = mi.imports[name]
            if mod in self.py.modules:
                return self.module_binding(mod, orig)
        return None

    def notation_deps(self, module: str, name: str):
        """indices of the arguments a notation (or a factory returning one) depends on; None if `name` is not a notation"""
        key = (module, name)
        if key in self.memo:
            return self.memo[key]
        self.memo[key] = None
        b = self.module_binding(module, name)
        if b is None:
            return None
        mod, node = b
        res = None
        if isinstance(node, ast.FunctionDef):
            from .c16 import returned_exprs
            for _st, rv in returned_exprs(node):
                if _is_notation_call(rv):
                    env = {a.arg: set() for a in node.args.args}
                    dfn = rv.args[2] if len(rv.args) > 2 else _kw(rv, 'definition')
                    if isinstance(dfn, ast.Name) and dfn.id not in env:
                        from .c16 import inline_locals
                        dfn = inline_locals(node.body, dfn, set(env))
                    res = self.deps(dfn, mod, env)
        elif _is_notation_call(node):
            res = self.deps(node.args[2] if len(node.args) > 2 else _kw(node, 'definition'), mod, {})
        self.memo[key] = res
        return res

    def deps(self, e, module: str, env: dict) -> set:
        if isinstance(e, ast.Name):
            if e.id in env:
                return set(env[e.id])
            if e.id.startswith('phi') and e.id[3:].isdigit():
                b = self.module_binding(module, e.id)
                if b is not None and isinstance(b[1], ast.Call) and ast.unparse(b[1].func) == 'MetaVar':
                    return self.deps(b[1], b[0], {})
                return {int(e.id[3:])}
            b = self.module_binding(module, e.id)
            if b is not None and not isinstance(b[1], ast.FunctionDef):
                return self.deps(b[1], b[0], {})
            raise AnalysisError(f'{module}: cannot evaluate name {e.id} in a notation definition')
        if isinstance(e, ast.Constant):
            return set()
        if isinstance(e, ast.Call):
            f = e.func
            if isinstance(f, ast.Name) and f.id == 'MetaVar':
                a = e.args[0] if e.args else _kw(e, 'name')
                if isinstance(a, ast.Constant) and isinstance(a.value, int):
                    return {a.value}
                raise AnalysisError(f'{module}: MetaVar with a non-literal index in a notation definition')
            if isinstance(f, ast.Name) and f.id in CTORS:
                out = set()
                for a in list(e.args) + [k.value for k in e.keywords]:
                    if isinstance(a, ast.Tuple):
                        continue
                    out |= self.deps(a, module, env)
                return out
            if isinstance(f, ast.Name):
                nd = self.notation_deps(module, f.id)
                if nd is not None:
                    out = set()
                    for i in nd:
                        if i < len(e.args):
                            out |= self.deps(e.args[i], module, env)
                    return out
                raise AnalysisError(f'{module}: call of {f.id} in a notation definition is neither a constructor nor a notation')
            if isinstance(f, ast.Call) and isinstance(f.func, ast.Name):
                # factory(var)(args)
                nd = self.notation_deps(module, f.func.id)
                if nd is not None:
                    out = set()
                    for i in nd:
                        if i < len(e.args):
                            out |= self.deps(e.args[i], module, env)
                    return out
            if isinstance(f, ast.Attribute) and f.attr in ('apply_esubst', 'apply_ssubst', 'instantiate'):
                out = self.deps(f.value, module, env)
                for a in e.args:
                    if not isinstance(a, ast.Constant):
                        out |= self.deps(a, module, env)
                return out
        raise AnalysisError(f'{module}: expression outside the subset in a notation definition: {ast.unparse(e)[:60]}')


def _is_notation_call(n) -> bool:
    return isinstance(n, ast.Call) and isinstance(n.func, ast.Name) and n.func.id == 'Notation'


def _kw(call: ast.Call, name: str):
    for k in call.keywords:
        if k.arg == name:
            return k.value
    return None


def static_format(e):
    """the format string as the interpreter will see it, or None if it is not static.  In an f-string, `{0}` is the
    constant 0 interpolated (no placeholder left) while `{{0}}` is a placeholder."""
    if isinstance(e, ast.Constant) and isinstance(e.value, str):
        return e.value
    if isinstance(e, ast.JoinedStr):
        out = ''
        for v in e.values:
            if isinstance(v, ast.Constant):
                out += str(v.value)
            elif isinstance(v, ast.FormattedValue):
                if isinstance(v.value, ast.Constant):
                    out += str(v.value.value)
                else:
                    out += '¤'          # some run-time text without braces
        return out
    if isinstance(e, ast.BinOp) and isinstance(e.op, ast.Add):
        a, b = static_format(e.left), static_format(e.right)
        return None if a is None or b is None else a + b
    return None


def placeholders(fmt: str) -> set:
    out = set()
    auto = 0
    for _lit, field, _spec, _conv in string.Formatter().parse(fmt):
        if field is None:
            continue
        head = field.split('.')[0].split('[')[0]
        if head == '':
            out.add(auto)
            auto += 1
        elif head.isdigit():
            out.add(int(head))
    return out


def notation_sites(py: PyRepo):
    for mname in MODULES:
        mi = py.modules.get(mname)
        if mi is None:
            continue
        for node in ast.walk(mi.tree):
            if _is_notation_call(node):
                yield mname, node


def enclosing_fn(tree, node):
    from ..core.pyfacts import enclosing_def
    return enclosing_def(tree, node)


def _range_key(e):
    """`range(n)` / `range(0, n)` -> ('0', 'n'); None if not a plain range"""
    if isinstance(e, ast.Call) and isinstance(e.func, ast.Name) and e.func.id == 'range' and not e.keywords and 1 <= len(e.args) <= 2:
        return ('0', ast.unparse(e.args[0])) if len(e.args) == 1 else (ast.unparse(e.args[0]), ast.unparse(e.args[1]))
    return None


def _is_placeholder_of(e, i: str) -> bool:
    """the expression spells the placeholder `{<i>}`: '{' + str(i) + '}'  or  f'{{{i}}}'"""
    txt = ast.unparse(e)
    if isinstance(e, ast.JoinedStr):
        return '{{' in txt and any(isinstance(v, ast.FormattedValue) and ast.unparse(v.value) == i for v in e.values)
    return f'str({i})' in txt and "'{'" in txt and "'}'" in txt


def loop_coupled(fn: ast.FunctionDef, call: ast.Call) -> tuple[bool, str]:
    """definition and format are built over the same index range: MetaVar(i) is constructed for every i of a range (a loop, a
    comprehension or map(MetaVar, range(..))), the placeholders `{i}` are collected over the same range, and every format joins
    all of them"""
    mv_ranges = set()
    ph = {}                      # name of the placeholder list (or source text of the comprehension) -> range
    for n in ast.walk(fn):
        if isinstance(n, ast.For) and isinstance(n.target, ast.Name) and _range_key(n.iter):
            i = n.target.id
            if any(isinstance(x, ast.Call) and ast.unparse(x.func) == 'MetaVar' and x.args and ast.unparse(x.args[0]) == i for x in ast.walk(n)):
                mv_ranges.add(_range_key(n.iter))
            for x in ast.walk(n):
                if isinstance(x, ast.Call) and isinstance(x.func, ast.Attribute) and x.func.attr == 'append' and x.args and _is_placeholder_of(x.args[0], i):
                    ph[ast.unparse(x.func.value)] = _range_key(n.iter)
        elif isinstance(n, (ast.ListComp, ast.GeneratorExp)) and len(n.generators) == 1 and not n.generators[0].ifs \
                and isinstance(n.generators[0].target, ast.Name) and _range_key(n.generators[0].iter):
            i = n.generators[0].target.id
            if isinstance(n.elt, ast.Call) and ast.unparse(n.elt.func) == 'MetaVar' and n.elt.args and ast.unparse(n.elt.args[0]) == i:
                mv_ranges.add(_range_key(n.generators[0].iter))
            if _is_placeholder_of(n.elt, i):
                ph[ast.unparse(n)] = _range_key(n.generators[0].iter)
        elif isinstance(n, ast.Call) and isinstance(n.func, ast.Name) and n.func.id == 'map' and len(n.args) == 2 \
                and ast.unparse(n.args[0]) == 'MetaVar' and _range_key(n.args[1]):
            mv_ranges.add(_range_key(n.args[1]))
    # a comprehension assigned to a local is known under that name too
    for n in ast.walk(fn):
        if isinstance(n, (ast.Assign, ast.AnnAssign)) and n.value is not None and ast.unparse(n.value) in ph:
            tgt = n.targets[0] if isinstance(n, ast.Assign) else n.target
            if isinstance(tgt, ast.Name):
                ph[tgt.id] = ph[ast.unparse(n.value)]
    if not mv_ranges or not ph:
        return False, 'no loop couples MetaVar(i) with a placeholder for i'
    if len(mv_ranges) != 1:
        return False, 'the definition uses metavariables over several index ranges'
    rng = next(iter(mv_ranges))
    lists = [k for k, r in ph.items() if r == rng]
    if not lists:
        return False, f'the placeholders are collected over {sorted(set(ph.values()))}, the metavariables over range{rng}'
    fmt_arg = call.args[3] if len(call.args) > 3 else _kw(call, 'format_str')
    if fmt_arg is None:
        return False, 'the format argument is not the string built from the collected placeholders'
    if isinstance(fmt_arg, ast.Name):
        defs = [n.value for n in ast.walk(fn) if isinstance(n, (ast.Assign, ast.AnnAssign)) and n.value is not None
                and isinstance(n.targets[0] if isinstance(n, ast.Assign) else n.target, ast.Name)
                and (n.targets[0] if isinstance(n, ast.Assign) else n.target).id == fmt_arg.id]
    else:
        defs = [fmt_arg]                     # the format expression written in place
    arms = []
    for d in defs:
        arms += [d.body, d.orelse] if isinstance(d, ast.IfExp) else [d]
    if arms and all(any(f'.join({k})' in ast.unparse(d) for k in lists) for d in arms):
        # ... and the range is exactly the arguments of the notation: 0 .. arity - 1 (an argument outside it is neither in the
        # definition nor printed; a range that starts at 1 ignores the first argument)
        ar = call.args[1] if len(call.args) > 1 else _kw(call, 'arity')
        if ar is not None and rng != ('0', ast.unparse(ar)):
            return False, f'the metavariables and placeholders range over range({rng[0]}, {rng[1]}), the notation takes {ast.unparse(ar)} arguments (0 .. arity - 1)'
        return True, ''
    return False, f'a format of the notation does not join all placeholders collected in `{lists[0]}`'


def nary_application_agreement(ctx, py: PyRepo):
    """nary_app(f, n) is the left-nested application ((f a0) a1) .. a(n-1) and deconstruct_nary_application reads exactly that
    shape back (head by descending to the left, arguments collected left to right): the two are decided together on the values -
    the builder's loop rebinds the accumulator to App(<accumulator>, MetaVar(i)) starting from the symbol, the reader returns
    (head', (*args', r)) for App(l, r) with (head', args') read from l."""
    from ..core.pyeval import PyEval, show
    mi = py.modules.get('proofs.kore')
    if mi is None or 'nary_app' not in mi.functions or 'deconstruct_nary_application' not in mi.functions:
        return
    b, r = mi.functions['nary_app'], mi.functions['deconstruct_nary_application']
    where = py.where('proofs.kore', b)
    steps = [st for lp in ast.walk(b) if isinstance(lp, ast.For) and isinstance(lp.target, ast.Name) for st in ast.walk(lp)
             if isinstance(st, ast.Assign) and isinstance(st.targets[0], ast.Name) and isinstance(st.value, ast.Call)
             and ast.unparse(st.value.func) == 'App' and len(st.value.args) == 2]
    comp_form = not steps
    ok_b, why = True, ''
    if steps:
        st = steps[0]
        acc = st.targets[0].id
        lp = next(l_ for l_ in ast.walk(b) if isinstance(l_, ast.For) and any(st is x for x in ast.walk(l_)))
        a0, a1 = st.value.args
        if not (isinstance(a0, ast.Name) and a0.id == acc and ast.unparse(a1) == f'MetaVar({lp.target.id})'):
            ok_b, why = False, f'the builder nests `{ast.unparse(st.value)}`: the accumulated application must be the LEFT operand, the new argument the right'
        inits = [n.value for n in ast.walk(b) if isinstance(n, (ast.Assign, ast.AnnAssign)) and n.value is not None and n is not st
                 and ast.unparse(n.targets[0] if isinstance(n, ast.Assign) else n.target) == acc]
        if ok_b and not (len(inits) == 1 and isinstance(inits[0], ast.Name) and inits[0].id == b.args.args[0].arg):
            ok_b, why = False, 'the nesting does not start from the symbol'
    ok_r, why_r = False, 'the reader has no arm for App(l, r)'
    P = ('param', r.args.args[0].arg)
    for p in PyEval().paths(r):
        if p.end[0] != 'return' or not any(c == ('call', ('name', 'isinstance'), (P, ('name', 'App')), ()) and b_ for c, b_ in p.conds):
            continue
        rec = ('call', ('name', r.name), (('attr', P, 'left'),), ())
        want = ('tuple', (('item', rec, 0), ('tuple', (('star', ('item', rec, 1)), ('attr', P, 'right')))))
        def norm(v):
            # x[k] with a constant k is the k-th component, however it is spelled
            if isinstance(v, tuple):
                v = tuple(norm(x) if isinstance(x, tuple) else x for x in v)
                if len(v) == 3 and v[0] == 'sub' and isinstance(v[2], tuple) and v[2][:1] == ('const',) and isinstance(v[2][1], int):
                    return ('item', v[1], v[2][1])
            return v
        ok_r = norm(p.end[1]) == want
        why_r = '' if ok_r else f'for App(l, r) the reader returns `{show(p.end[1])[:80]}`, not (head of l, (*arguments of l, r))'
    if not comp_form:
        ctx.ob('format-covers-deps', 'nary-application/left-nested', ok_b and ok_r,
               'nary_app / deconstruct_nary_application: ' + '; '.join(x for x in (why, why_r) if x)
               + ' - an n-ary application built one way and read the other permutes its arguments', where)


def notation_formats(ctx, py: PyRepo):
    d = Deps(py)
    n = 0
    for mname, call in notation_sites(py):
        where = py.where(mname, call)
        fn = enclosing_fn(py.modules[mname].tree, call)
        args = list(call.args)
        label = args[0] if args else _kw(call, 'label')
        definition = args[2] if len(args) > 2 else _kw(call, 'definition')
        fmt = args[3] if len(args) > 3 else _kw(call, 'format_str')
        lab = static_format(label) if label is not None else None
        lab = (lab or ast.unparse(label) if label is not None else '?').replace('¤', '*')
        tag = f'{mname}:{lab}'
        n += 1
        env = {a.arg: set() for a in fn.args.args} if fn is not None else {}
        if fn is not None:
            # locals that only name the definition / the format / the label
            from .c16 import inline_locals
            keep = {a.arg for a in fn.args.args}
            definition, fmt = (inline_locals(fn.body, x, keep) if isinstance(x, ast.Name) else x for x in (definition, fmt))
            if isinstance(label, ast.Name):
                label = inline_locals(fn.body, label, keep)
                lab = (static_format(label) or ast.unparse(label)).replace('¤', '*')
                tag = f'{mname}:{lab}'
        sf = static_format(fmt) if fmt is not None else None
        if sf is None or (fn is not None and isinstance(definition, ast.Name)):
            if fn is None:
                raise AnalysisError(f'{tag}: format string is not static')
            ok, why = loop_coupled(fn, call)
            if not ok:
                # the definition and the format may be computed by helper functions of the module (`d = _definition(sym, n)`): decide
                # on a copy of the function with those calls expanded in place
                from ..core.pynormal import expand_assigned_calls
                mfuncs = py.modules[mname].functions
                ldefs = {g.name: g for g in fn.body if isinstance(g, ast.FunctionDef)}      # closures of fn: same names inside
                fn2 = expand_assigned_calls(fn, lambda name: ldefs.get(name) or mfuncs.get(name))
                call2 = [c for c in ast.walk(fn2) if isinstance(c, ast.Call) and (c.lineno, c.col_offset) == (call.lineno, call.col_offset)
                         and ast.unparse(c.func) == ast.unparse(call.func)]
                if len(call2) == 1 and ast.unparse(fn2) != ast.unparse(fn):
                    ok, why = loop_coupled(fn2, call2[0])
            ctx.ob('format-covers-deps', tag, ok, f'notation built in a loop: {why}', where, facts={'mode': 'loop coupling'})
            continue
        try:
            deps = d.deps(definition, mname, env)
        except AnalysisError as e:
            raise AnalysisError(f'{tag}: {e}')
        ph = placeholders(sf)
        missing = sorted(deps - ph)
        ctx.ob('format-covers-deps', tag, not missing,
               f'the definition of `{lab}` depends on argument(s) {missing} but its format {sf!r} has no placeholder for them'
               + (' (an f-string consumed its own `{i}`: write `{{i}}`)' if isinstance(fmt, ast.JoinedStr) else '')
               + ': two applications that differ only there are printed identically', where,
               facts={'depends_on': sorted(deps), 'placeholders': sorted(ph), 'format': sf})
    ctx.analysed['notation construction sites'] = n


def one_line_per_instruction(ctx, py: PyRepo):
    w = Wiring(py)
    pp = py.cls('PrettyPrintingInterpreter')
    ser = py.cls('SerializingInterpreter')
    # the decorator writes exactly one newline after the step text, and returns the super result
    from .c07 import pretty_wrapper
    facts = pretty_wrapper(py)
    ctx.require(facts is not None, 'PrettyPrintingInterpreter.pretty: wrapper not found')
    _wrp, wpaths, SELF, rest, kw, func = facts
    step = ('call', ('name', func), (SELF,) + rest, kw)
    nl = ('call', ('attr', ('attr', SELF, 'out'), 'write'), (('const', '\n'),), ())
    rets = [p for p in wpaths if p.end[0] == 'return']
    ok_deco = bool(rets)
    for p in rets:
        seq = [e.value for e in p.events if e.kind == 'ecall' and (e.value == step or (e.value[0] == 'call' and e.value[1] == nl[1]))]
        # the step text once, then exactly one newline, nothing else written to the listing by the wrapper itself
        if seq != [step, nl]:
            ok_deco = False
    ctx.ob('one-line-per-step', 'decorator', ok_deco,
           'the @pretty wrapper must print the step text once and terminate it with exactly one newline', py.where(pp.module, _wrp))
    for meth in PM.INTERP_METHODS:
        in_pp, in_ser = meth in pp.methods, meth in ser.methods
        where = py.where(pp.module, pp.methods.get(meth) or pp.node)
        ctx.ob('one-line-per-step', f'overridden/{meth}', in_pp == in_ser,
               f'{meth} is overridden by {"the pretty printer" if in_pp else "the serializer"} only: the two listings get out of step', where)
        if not (in_pp and in_ser):
            continue
        fn = pp.methods[meth]
        decorated = any(ast.unparse(dc).startswith('pretty(') for dc in fn.decorator_list)
        ctx.ob('one-line-per-step', f'decorated/{meth}', decorated, f'PrettyPrintingInterpreter.{meth} is not wrapped by @pretty()', where)
        # the word printed first is the name of the opcode the serializer writes
        first = None
        for st in fn.body:
            if isinstance(st, (ast.FunctionDef, ast.ClassDef)):
                continue          # helper definitions do not print anything by themselves
            for node in ast.walk(st):
                if isinstance(node, ast.Call) and ast.unparse(node.func) == 'self.out.write' and node.args:
                    a = node.args[0]
                    txt = a.value if isinstance(a, ast.Constant) and isinstance(a.value, str) else (
                        a.values[0].value if isinstance(a, ast.JoinedStr) and a.values and isinstance(a.values[0], ast.Constant) else None)
                    if txt is not None and first is None:
                        first = txt
            if first is not None:
                break
        word = ''.join(ch for ch in (first or '').split(' ')[0] if ch.isalnum())
        got = w.serializer_cases(meth)
        ops = sorted({c['opcode'] for c in got[1] if c['opcode']}) if got else []
        names = {('MetaVar' if o == 'CleanMetaVar' else o) for o in ops}
        ctx.ob('one-line-per-step', f'word/{meth}', bool(word) and names == {word},
               f'the pretty printer labels {meth} as {word!r} but the serializer writes {ops}', where,
               facts={'word': word, 'opcodes': ops})


def renderer_transparent(ctx, py: PyRepo):
    """(a) is about the format strings; it carries over to the output only if the renderer hands EVERY argument, rendered, to the
    format string in position: each returning path of Notation.print_instantiation returns
    `self.format_str.format(*[<arg>.pretty(opts) for <arg> in applied.inst.values()])` - no filter, no conditional element."""
    from ..core.pyeval import PyEval, show
    fn = py.method('Notation', 'print_instantiation', 'pattern')
    where = py.where('pattern', fn)
    names = [a.arg for a in fn.args.args]
    ctx.require(len(names) == 3, 'Notation.print_instantiation: signature changed')
    SELF, APPLIED, OPTS = (('param', n) for n in names)
    n = 0
    from ..core.pyfacts import self_method_resolver
    for p in PyEval(resolver=self_method_resolver(py, py.cls('Notation', 'pattern'), SELF)).paths(fn):
        if p.end[0] != 'return':
            continue
        n += 1
        v = p.end[1]
        ok_call = v[0] == 'call' and v[1] == ('attr', ('attr', SELF, 'format_str'), 'format') and len(v[2]) == 1 and not v[3] \
            and v[2][0][0] == 'star'
        if not ok_call:
            ctx.ob('renderer-transparent', f'return{n}', False,
                   f'print_instantiation returns `{show(v)[:120]}`, not the notation\'s format string applied to the rendered arguments', where)
            continue
        args = v[2][0][1]
        while args[0] == 'call' and args[1] in (('name', 'tuple'), ('name', 'list')) and len(args[2]) == 1:
            args = args[2][0]
        if args[0] != 'comp':
            ctx.ob('renderer-transparent', f'return{n}', False,
                   f'the arguments handed to the format string, `{show(args)[:120]}`, are not the list of all rendered arguments of the application',
                   where)
            continue
        _c, _kind, elt, gens = args
        one_gen = len(gens) == 1 and not gens[0][2]
        var = gens[0][0] if gens else None
        src_ok = one_gen and gens[0][1] == ('call', ('attr', ('attr', APPLIED, 'inst'), 'values'), (), ())
        elt_ok = isinstance(var, str) and elt == ('call', ('attr', ('bound', var), 'pretty'), (OPTS,), ())
        ctx.ob('renderer-transparent', f'return{n}', bool(src_ok and elt_ok),
               f'print_instantiation hands `{show(args)[:160]}` to the format string: every argument of the application must be rendered '
               f'with the caller\'s options and passed in position, unfiltered (a skipped or blanked argument disappears from the output '
               f'even though the format names it)', where, facts={'arguments': show(args)[:200]})
    ctx.analysed['print_instantiation returning paths'] = n
    ctx.floor('renderer-transparent', 1)


def argument_order(ctx, py: PyRepo):
    """the renderer fills the format positionally from `inst.values()`: position = insertion order of the map.  That is the argument
    order only if (1) Notation.__call__ stores the arguments as frozendict(enumerate(args)) and (2) Instantiate.instantiate rebuilds the
    map with the stored entries first, all of them, in stored order (later parts may only add keys the map does not have)."""
    from ..core.pyeval import PyEval, show
    SELF = ('param', 'self')
    call = py.method('Notation', '__call__', 'pattern')
    rets = [p for p in PyEval().paths(call) if p.end[0] == 'return']
    args_name = call.args.vararg.arg if call.args.vararg else None
    def enumerated(v):
        """the map {0: args[0], 1: args[1], ..}: enumerate(args) handed to the map constructor, or the comprehension
        {i: a for i, a in enumerate(args)} (key and value the two components, unfiltered)"""
        en = (('call', ('name', 'enumerate'), (('param', args_name),), ()), ('call', ('name', 'enumerate'), (('param', '*' + args_name),), ()))
        v = _strip_fd(v)
        if v in en:
            return True
        if v[0] == 'comp' and v[1] == 'dictcomp' and len(v[3]) == 1 and not v[3][0][2] and v[3][0][1] in en and v[2][0] == 'pair':
            names = [x.strip() for x in v[3][0][0].strip('()').split(',')]
            return len(names) == 2 and v[2][1] == ('bound', names[0]) and v[2][2] == ('bound', names[1])
        return False
    def inst_args(v):
        # Instantiate(pattern, inst) with positional or keyword arguments (fields: pattern, inst)
        if not (v[0] == 'call' and v[1] == ('name', 'Instantiate')):
            return None
        got = dict(zip(('pattern', 'inst'), v[2]))
        for k_, x_ in v[3]:
            if k_ in got or k_ not in ('pattern', 'inst'):
                return None
            got[k_] = x_
        return (got['pattern'], got['inst']) if set(got) == {'pattern', 'inst'} else None
    ok = bool(rets) and args_name is not None and all(inst_args(p.end[1]) is not None and enumerated(inst_args(p.end[1])[1]) for p in rets)
    ctx.ob('argument-order', 'Notation.__call__', ok,
           'Notation.__call__ must store argument i under key i in argument order (frozendict(enumerate(args))): the renderer reads the '
           'values positionally', py.where('pattern', call))
    fn = py.method('Instantiate', 'instantiate', 'pattern')
    where = py.where('pattern', fn)
    n = 0
    from ..core.pypattern import private_helper_resolver
    for p in PyEval(resolver=private_helper_resolver(py, 'Instantiate')).paths(fn):
        if p.end[0] != 'return':
            continue
        v = p.end[1]
        n += 1
        if not (v[0] == 'call' and v[1] == ('name', 'Instantiate') and len(v[2]) == 2):
            # delegating to the expansion yields no notation node: nothing to render positionally
            ctx.ob('argument-order', f'Instantiate.instantiate/path{n}', 'simplify' in repr(v), f'result {show(v)[:80]} is not understood', where)
            continue
        from ..core.mapparts import map_parts
        m = _strip_fd(v[2][1])
        parts = map_parts(p, m) or []
        first = parts[0] if parts else None
        stored_items = ('call', ('attr', ('attr', SELF, 'inst'), 'items'), (), ())
        # the first component enumerates ALL stored entries under their own keys, in stored order (no filter, nothing skipped)
        first_ok = first is not None and first.source == stored_items and len(first.alts) == 1 and not first.skips \
            and not first.alts[0][0] and first.alts[0][1] == ('item', ('elem', stored_items), 0)
        ctx.ob('argument-order', f'Instantiate.instantiate/path{n}', bool(first_ok),
               'Instantiate.instantiate must rebuild the argument map starting with ALL stored entries in stored order (a dict keeps '
               'insertion order and the renderer fills `{0}`, `{1}`, .. from `inst.values()` positionally); here the first component is '
               f'`{(show(first.raw)[:110] if first.raw else "a loop over " + show(first.source)[:80]) if first else show(m)[:110]}`: entries that come later change position and are printed in the wrong hole',
               where)
    ctx.floor('argument-order', 2)


def _strip_fd(v):
    while v[0] == 'call' and v[1] == ('name', 'frozendict') and len(v[2]) == 1:
        v = v[2][0]
    return v


def transformers_treat_outputs_alike(ctx, py: PyRepo):
    """the binary and the pretty file of a module are produced by running the same proof through the same wrappers (memoiser,
    instantiation optimiser) around two different output interpreters; the step sequences correspond only if no wrapper behaves
    differently for the two: a class test on the wrapped interpreter must not separate SerializingInterpreter from
    PrettyPrintingInterpreter"""
    ser = py.cls('SerializingInterpreter')
    pp = py.cls('PrettyPrintingInterpreter')
    anc_ser = {c.name for c in py.mro(ser)}
    anc_pp = {c.name for c in py.mro(pp)}
    base = py.cls('InterpreterTransformer')
    from .c16 import inline_locals

    def class_tests(fn):
        """isinstance tests whose subject is the wrapped interpreter, directly or through a local that names it"""
        keep = {a.arg for a in fn.args.args}
        for node in ast.walk(fn):
            if isinstance(node, ast.Call) and isinstance(node.func, ast.Name) and node.func.id == 'isinstance' and len(node.args) == 2:
                subj = ast.unparse(inline_locals(fn.body, node.args[0], keep))
                if 'sub_interpreter' in subj:
                    yield [ast.unparse(e) for e in (node.args[1].elts if isinstance(node.args[1], ast.Tuple) else [node.args[1]])], node
            # the same test written as a class pattern: `match self.sub_interpreter: case StatefulInterpreter() as s [if ..]:`
            if isinstance(node, ast.Match) and 'sub_interpreter' in ast.unparse(inline_locals(fn.body, node.subject, keep)):
                for case in node.cases:
                    pats = case.pattern.patterns if isinstance(case.pattern, ast.MatchOr) else [case.pattern]
                    names = []
                    for pt in pats:
                        while isinstance(pt, ast.MatchAs) and pt.pattern is not None:
                            pt = pt.pattern
                        if isinstance(pt, ast.MatchClass):
                            names.append(ast.unparse(pt.cls))
                    if names:
                        yield names, case.pattern
    # the rule may legitimately match nothing; a built-in positive example keeps it from passing vacuously
    example = ast.parse('def m(self, p):\n    sub = self.sub_interpreter\n    if isinstance(sub, SerializingInterpreter):\n        return p\n').body[0]
    ctx.require([names for names, _n in class_tests(example)] == [['SerializingInterpreter']],
                'outputs-treated-alike: the class-test detector no longer recognises its own positive example')
    n = 0
    for ci in [base] + py.subclasses(base):
        for mname, fn in ci.methods.items():
            for names, node in class_tests(fn):
                n += 1
                s_in = any(x in anc_ser for x in names)
                p_in = any(x in anc_pp for x in names)
                ctx.ob('outputs-treated-alike', f'{ci.name}.{mname}:{"|".join(names)}', s_in == p_in,
                       f'{ci.name}.{mname} tests the wrapped interpreter for {names}: the test is {s_in} for the binary serializer and '
                       f'{p_in} for the pretty printer, so the two files of one module list different steps '
                       f'(e.g. Load in one where the other rebuilds the pattern)', py.where(ci.module, node))
    ctx.analysed['class tests on the wrapped interpreter'] = n
    ctx.ob('outputs-treated-alike', 'scan', True, f'{n} class tests on the wrapped interpreter examined (detector self-checked on a positive example)', '')


def optimiser_deterministic(ctx, py: PyRepo):
    """the binary and the pretty file of a module are written by two separate runs of the generator (two processes, two hash seeds),
    each choosing what to memoise: the listings correspond only if that choice does not depend on the iteration order of a set
    (shared with C18, restricted to the optimiser modules)"""
    from ..core.ordertaint import OrderAnalysis, reachable_functions
    from ..spec.order_triage import ENTRY_POINTS
    from .c18 import order_sites
    order_sites(ctx, py, OrderAnalysis(py), reachable_functions(py, ENTRY_POINTS), only_modules={'counting_interpreter', 'optimizing_interpreters'})


def metavar_step_shows_constraints(ctx, py: PyRepo):
    """the pretty step of a constrained metavariable shows every non-empty constraint list: two MetaVar instructions that differ in a
    list must not print alike (`MetaVar 1` for a positive-only metavariable reads like the clean one).  On every returning path of
    PrettyPrintingInterpreter.metavar each sequence parameter is either forced empty by the path's conditions or iterated with its
    elements written.  (The table-driven spelling is unrolled; an early `return` out of the table loop skips the later lists.)"""
    from ..core.pyeval import PyEval, show
    from ..core.wiring import forced_empty
    ci = py.cls('PrettyPrintingInterpreter')
    fn = ci.methods.get('metavar')
    ctx.require(fn is not None, 'anchor vanished: PrettyPrintingInterpreter.metavar')
    where = py.where(ci.module, fn)
    seq_params = [a.arg for a in fn.args.args[1:] if a.annotation is not None and re.search(r'tuple|list|Sequence', ast.unparse(a.annotation))]
    ctx.require(len(seq_params) >= 5, 'PrettyPrintingInterpreter.metavar: the five constraint lists are no longer sequence parameters')
    from ..core.pyfacts import self_method_resolver
    paths = PyEval(resolver=self_method_resolver(py, ci, ('param', 'self'), only_private=True), unroll_literal_loops=True).paths(fn)
    n, lost_all = 0, []
    for p in paths:
        if p.end[0] == 'raise':
            continue
        n += 1
        printed = set()
        for e in p.events:
            if e.kind == 'loop' and e.value[0] == 'for' and e.value[2][0] == 'param' and e.value[2][1] in seq_params:
                elem = ('elem', e.value[2])
                if any(x.kind == 'ecall' and x.value[1][0] == 'attr' and x.value[1][2] == 'write' and _mentions_val(x.value, elem)
                       for sp in e.extra for x in sp.events):
                    printed.add(e.value[2][1])
            if e.kind == 'ecall' and e.value[1][0] == 'attr' and e.value[1][2] == 'write':
                for L in seq_params:
                    # written as a whole: str(lst) / ' '.join(map(str, lst))
                    if _mentions_val(e.value, ('param', L)) and not (e.value[2] and e.value[2][0][0] == 'fstr' and all(
                            not _mentions_val(part, ('param', L)) or (part[0] == 'fmt' and part[1] == ('call', ('name', 'len'), (('param', L),), ()))
                            for part in e.value[2][0][1])):
                        printed.add(L)
        forced = forced_empty(p.conds, seq_params)
        lost = [L for L in seq_params if L not in printed and L not in forced]
        if lost:
            lost_all.append((lost, ' and '.join(f'{show(c)[:40]} is {b}' for c, b in p.conds[:3])))
    ctx.ob('step-shows-operands', 'metavar/constraint-lists', n >= 2 and not lost_all,
           'PrettyPrintingInterpreter.metavar has a path that prints the step without the constraint list(s) '
           + '; '.join(f'{l} (when {w or "always"})' for l, w in lost_all[:2])
           + ': the step of a constrained metavariable then reads like that of another instruction', where, facts={'paths': n})


def _mentions_val(v, needle) -> bool:
    if v == needle:
        return True
    return isinstance(v, tuple) and any(_mentions_val(x, needle) for x in v)


def run(ctx):
    py = PyRepo.get()
    optimiser_deterministic(ctx, py)
    notation_formats(ctx, py)
    renderer_transparent(ctx, py)
    argument_order(ctx, py)
    transformers_treat_outputs_alike(ctx, py)
    # the pretty printer prints one step for every interpreter call (decorator, above); the binary file has one instruction for
    # every call only if the serializer writes on every path of every call (shared with C14)
    from ..core.wiring import Wiring
    from .c14 import writer_emits
    writer_emits(ctx, py, Wiring(py))
    one_line_per_instruction(ctx, py)
    metavar_step_shows_constraints(ctx, py)
    nary_application_agreement(ctx, py)
    # what is printed for a stack entry is the text of THAT entry: a cache / visited set keyed by hash(entry) or id(entry) hands one
    # entry the text of another (the generated dataclass hashes ignore the class: EVar(1) and SVar(1) collide) - shared with C15
    from .c15 import identity_by_hash
    identity_by_hash(ctx, py, modules=('pretty_printing_interpreter',), what='pattern')
    ctx.floor('format-covers-deps', 28)
    ctx.floor('one-line-per-step', 60)
    ctx.explanation = (
        '(a) for every Notation(label, arity, definition, format) construction the set of argument indices the definition depends on '
        '(abstract evaluation through constructors, other notations and notation factories) is contained in the placeholder indices of '
        'the format string as the interpreter sees it (an f-string consumes `{0}`; `{{0}}` survives); notations built in a loop must '
        'couple MetaVar(i) with a placeholder for i; Notation.print_instantiation passes every rendered argument, in position and unfiltered, to that format string. (b) the pretty printer and the serializer override the same interpreter methods, '
        'each pretty override is wrapped by the decorator that prints one terminated step, and the word printed is the opcode written. '
        'Injectivity of rendering in general is not decided.')
    ctx.assumptions = ['python ast; str.format placeholder syntax (string.Formatter)']
