"""C02 - generated proofs are accepted by the checker: generator/checker protocol tables agree (necessary conditions).

(a) opcode bytes  (b) emitted opcodes are implemented  (c) operand layout  (d) wiring of stack slots and operands into the
constructed term / rule premises  (e) claim order discipline  (f) axiom schemas three-way  (g) phase protocol.
"""
from __future__ import annotations

import ast
import re

from ..core import machine as M, pymachine as PM
from ..core.pyeval import PyEval, show
from ..core.pyfacts import PyRepo
from ..core.report import AnalysisError
from ..core.rustfacts import Rust
from ..core.terms import tshow
from ..core.wiring import Wiring, show_operand, _ann, _ret_kind, pattern_fields
from ..spec import axioms as AX
from ..spec.axioms import EMPTY
from . import c05

LEVEL = 'other'

NO_TERM = {'pop', 'save', 'load', 'publish_proof', 'publish_axiom', 'publish_claim'}
PUBLISH_PHASE = {'publish_axiom': 'Gamma', 'publish_claim': 'Claim', 'publish_proof': 'Proof'}


def py_opcodes(py: PyRepo) -> dict[str, int]:
    ci = py.cls('Instruction', 'instruction')
    out = {}
    for n in ci.node.body:
        if isinstance(n, ast.Assign) and isinstance(n.targets[0], ast.Name):
            try:
                out[n.targets[0].id] = int(ast.literal_eval(n.value))
            except (ValueError, SyntaxError):
                raise AnalysisError(f'Instruction.{n.targets[0].id} is not an integer literal')
    return out


def rust_shape(reads):
    """reads of a Rust case -> sequence of 'S' (one byte) / 'L' (count byte followed by that many bytes)"""
    out = []
    i = 0
    rd = [x for x in reads if x[0] in ('byte', 'list', 'loop')]
    while i < len(rd):
        x = rd[i]
        if x[0] == 'list':
            out.append('L')
        elif x[0] == 'byte':
            nxt = rd[i + 1] if i + 1 < len(rd) else None
            if nxt is not None and nxt[0] == 'loop' and nxt[1] == (('int', 0), x) and any(y[0] == 'byte' for y in nxt[2]):
                out.append('L')
                i += 1
            else:
                out.append('S')
        elif x[0] == 'loop':
            out.append('?loop')
        i += 1
    return out


def py_shape(operands):
    out = []
    i = 0
    while i < len(operands):
        o = operands[i]
        if o[0] == 'len' and i + 1 < len(operands) and operands[i + 1][0] in ('each', 'names'):
            nxt = operands[i + 1]
            same = nxt[1] == o[1] or (nxt[1][0] == 'call' and nxt[1][1][0] == 'attr' and nxt[1][1][1] == o[1]
                                      and nxt[1][1][2] in ('keys', 'values'))
            out.append('L' if same else '?len-of-other')
            i += 2
            continue
        if o[0] == 'scalar':
            out.append('S')
        else:
            out.append('?' + o[0])
        i += 1
    return out


class PyTerm:
    """Basic interpreter return value -> canonical term over byte operands and stack slots"""

    def __init__(self, w: Wiring, env: dict):
        self.w, self.env = w, env

    def term(self, v):
        if v in self.env:
            return self.env[v]
        if v[0] == 'component':
            rust_names = {'left': 'left', 'right': 'right', 'subpattern': 'subpattern', 'pattern': 'pattern', 'plug': 'plug', 'var': 'var'}
            return ('fld', self.term(v[1]), v[2], rust_names.get(v[3], v[3]))
        if v[0] == 'call' and v[1] == ('name', 'Proved') and len(v[2]) == 1:
            return self.term(v[2][0])
        if v[0] == 'item' and v[1][0] == 'call' and v[1][1][0] == 'attr' and v[1][1][2] in ('extract', 'unwrap') \
                and v[1][1][1][0] == 'name' and isinstance(v[2], int):
            ctor = v[1][1][1][1]
            flds = pattern_fields(self.w.py, ctor)
            rust_names = {'left': 'left', 'right': 'right', 'subpattern': 'subpattern', 'pattern': 'pattern', 'plug': 'plug'}
            return ('fld', self.term(v[1][2][0]), ctor, rust_names[flds[v[2]]])
        if v[0] == 'call' and v[1][0] == 'attr' and v[1][2] == 'instantiate' and len(v[2]) == 1:
            return ('instantiate', self.term(v[1][1]), self.mapping(v[2][0]))
        if v[0] == 'call' and v[1] == ('name', 'Instantiate') and len(v[2]) == 2:
            # the notation node denotes its body instantiated with the map
            return ('instantiate', self.term(v[2][0]), self.mapping(v[2][1]))
        self.prepare(v)
        return self.w.N.term(v, 'basic_interpreter', self.env)

    def prepare(self, v):
        """make the special forms below the top level known to the plain term reader"""
        if not isinstance(v, tuple) or not v or v in self.env:
            return
        special = v[0] == 'component' or (v[0] == 'item' and v[1][0] == 'call' and v[1][1][0] == 'attr' and v[1][1][2] in ('extract', 'unwrap')) \
            or (v[0] == 'call' and v[1][0] == 'attr' and v[1][2] == 'instantiate') \
            or (v[0] == 'call' and v[1] == ('name', 'Instantiate'))
        if special:
            self.env[v] = self.term(v)
            return
        for x in v:
            if isinstance(x, tuple):
                self.prepare(x)

    def mapping(self, v):
        if v[0] == 'call' and v[1] == ('name', 'frozendict') and len(v[2]) == 1:
            v = v[2][0]
        return ('map', v)


def method_row(ctx, w: Wiring, meth: str, rust_arms, py_ops, rust_dec):
    py = w.py
    got = w.serializer_cases(meth)
    if got is None:
        ctx.ob('emit', meth, False, f'SerializingInterpreter does not override {meth}: nothing is written for this call',
               py.where(w.top.module, w.top.node))
        return
    ser_mf, cases = got
    where = py.where(w.top.module, ser_mf.node)
    levels = w.levels(meth)
    probs = []
    for c, mf in levels:
        if c.name != 'BasicInterpreter':
            probs += w.super_args_ok(mf)
    ctx.ob('super-chain', meth, not probs, ' | '.join(probs), where)
    st_mf = PM.level_facts(py, w.stateful, meth)
    ba_mf = PM.level_facts(py, w.basic, meth)
    ctx.require(st_mf is not None and ba_mf is not None, f'anchor vanished: Stateful/Basic {meth}')
    for case in cases:
        op = case['opcode']
        tag = f'{meth}->{op}'
        if op is None:
            if case.get('why'):
                ctx.ob('opcode-byte', tag, False, f'{meth}: {case["why"]}: the checker decodes the first byte as the opcode', where)
            else:
                ctx.ob('emit', tag, False, f'{meth}: a path writes no instruction', where)
            continue
        ctx.ob('emit', tag, case.get('nwrites', 1) >= 1 and op in py_ops, f'{op} is not a member of Instruction', where,
               facts={'operands': [show_operand(o) for o in case['operands']]})
        # (a) byte value
        pb = py_ops.get(op)
        rb = [b for b, n in rust_dec['table'].items() if n == op]
        ctx.ob('opcode-byte', tag, bool(rb) and pb == rb[0],
               f'{op} is written as byte {pb} but the checker decodes {rb[0] if rb else "no byte"} as {op}', where,
               facts={'python': pb, 'rust': rb})
        # (b) implemented
        racc = [M.to_case(ap) for ap in rust_arms.get(op, []) if ap.end == 'next']
        ctx.ob('implemented', tag, bool(racc), f'the checker has no accepting arm for {op}', where)
        if not racc:
            continue
        # (c) layout
        ps = py_shape(case['operands'])
        rss = {tuple(rust_shape(rc['reads'])) for rc in racc}
        ctx.ob('layout', tag, rss == {tuple(ps)},
               f'{meth} writes operands shaped {ps} ({", ".join(show_operand(o) for o in case["operands"])}) '
               f'but the checker reads {sorted(rss)} after {op}', where, facts={'python': ps, 'rust': sorted(rss)})
        if rss != {tuple(ps)}:
            continue
        # (d) wiring
        wiring(ctx, w, meth, op, case, st_mf, ba_mf, racc, where)


def wiring(ctx, w: Wiring, meth, op, case, st_mf, ba_mf, racc, where):
    py = w.py
    tag = f'{meth}->{op}'
    fn = ba_mf.node
    # operand environment
    env: dict = {}
    bi = li = 0
    ops = case['operands']
    i = 0
    while i < len(ops):
        o = ops[i]
        if o[0] == 'len':
            li += 1
            nxt = ops[i + 1]
            env[o[1]] = ('list', li)
            env[('listrev', li)] = nxt[2]
            bi_note = nxt
            i += 2
            continue
        bi += 1
        e = o[1]
        env[e] = ('byte', bi)
        def is_symtab(t):
            # the serializer's symbol table, kept on the serializer or on an object it keeps (that it is ONE table for the three
            # files and numbers injectively is C03's one-symbol-table rule)
            return t == ('attr', PM.SELF, '_symbol_identifiers') or \
                (t[0] == 'attr' and t[2] == '_symbol_identifiers' and t[1][0] == 'attr' and t[1][1] == PM.SELF)
        if e[0] == 'sub' and is_symtab(e[1]):
            env[e[2]] = ('byte', bi)          # symbols are identified with their numbers (injective: C03)
        if e[0] == 'call' and e[1][0] == 'attr' and e[1][2] == 'setdefault' and is_symtab(e[1][1]) and len(e[2]) == 2:
            env[e[2][0]] = ('byte', bi)       # table.setdefault(name, len(table)): the same lookup-or-assign
        i += 1
    # stack slots
    st_acc = st_mf.paths
    ctx.require(st_acc, f'StatefulInterpreter.{meth} has no accepting path')
    slot_of = {}
    for rec in st_acc:
        for a, b in rec['binds']:
            for x, y in ((a, b), (b, a)):
                if x[0] == 'slot' and y[0] == 'param':
                    slot_of[y[1]] = x[1]
    for pname, k in slot_of.items():
        ann = _ann(fn, pname)
        if 'Proved' in ann and 'Pattern' not in ann:
            env[('attr', ('param', pname), 'conclusion')] = ('payload', k, 'Proved')
            env[('param', pname)] = ('pop', k)
        elif 'Proved' in ann and 'Pattern' in ann:
            env[('param', pname)] = ('pop', k)
        else:
            env[('param', pname)] = ('payload', k, 'Pattern')
    if meth in NO_TERM:
        return
    # every term-typed parameter must be tied to a stack slot by the tracker
    unbound = []
    for a in fn.args.args[1:]:
        ann = ast.unparse(a.annotation) if a.annotation else ''
        term_typed = ('Pattern' in ann or 'Proved' in ann or 'MetaVar | ESubst' in ann) and 'tuple' not in ann and 'dict' not in ann \
            and 'Mapping' not in ann
        if term_typed and a.arg not in slot_of:
            unbound.append(a.arg)
    if unbound:
        ctx.ob('wiring', tag, False,
               f'StatefulInterpreter.{meth} does not tie its argument(s) {unbound} to a stack slot (no `assert <slot> == {unbound[0]}`): '
               f'the term the generator means and the term the machine uses can differ', where)
        return
    # the condition selecting this encoding may force sequence-typed operands to be empty (`sum(len(l) for l in [..]) == 0`,
    # `not sum(map(len, ..))`, `not (a or b)`, `not any(..)`, ..): decided by abstract evaluation over EMPTY / NON-EMPTY
    from ..core.wiring import forced_empty
    seq_params = [a.arg for a in fn.args.args[1:] if a.annotation is not None and re.search(r'tuple|list|Sequence', ast.unparse(a.annotation))]
    for p_ in forced_empty(case['rec']['conds'], seq_params):
        if ('param', p_) not in env:
            env[('param', p_)] = EMPTY
    kind = _ret_kind(fn)
    pt = PyTerm(w, env)
    py_terms = []
    from ..core.wiring import canon_components
    for rec in ba_mf.paths:
        rec['conds'] = [(canon_components(c, rec['conds'], py), b) for c, b in rec['conds']]
        if rec['ret'] is not None:
            rec['ret'] = canon_components(rec['ret'], rec['conds'], py)
    for rec in ba_mf.paths:
        if rec['ret'] is None:
            continue
        try:
            rv = rec['ret']
            # identity shortcut: `if not delta: return proved` denotes the instantiation with the empty map
            if rv[0] == 'param' and any(c[0] == 'param' and b is False for c, b in rec['conds']) \
                    and ('attr', rv, 'conclusion') in env:
                py_terms.append((rec, ('instantiate', env[('attr', rv, 'conclusion')], ('map', 'empty'))))
                continue
            py_terms.append((rec, pt.term(rv)))
        except AnalysisError as e:
            raise AnalysisError(f'BasicInterpreter.{meth}: {e}')
    rust_terms = []
    for rc in racc:
        for e in rc['effects']:
            if e[1] == 'stack':
                rust_terms.append((rc, e[2], e[3]))
    ok = True
    detail = ''
    for rec, t in py_terms:
        tn = _norm_inst(t)
        cands = [(rc, wr, rt) for rc, wr, rt in rust_terms if wr == f'Term::{kind}']
        if not cands:
            ok, detail = False, f'{meth} returns a {kind} but {op} pushes {sorted({wr for _rc, wr, _rt in rust_terms})}'
            break
        if not any(_norm_inst(rt) == tn for _rc, _wr, rt in cands):
            ok = False
            detail = (f'{meth} builds {tshow(t)} (bytes = serializer operands, pop#k = k-th from the top of the tracked stack) '
                      f'but the checker builds {" / ".join(M.show_val(rt) for _rc, _wr, rt in cands)} for {op}')
            break
    ctx.ob('wiring', tag, ok, detail, where,
           facts={'python': [tshow(t) for _r, t in py_terms], 'rust': [M.show_val(rt) for _rc, _wr, rt in rust_terms],
                  'slots': {p: k for p, k in slot_of.items()}})
    # side conditions of the rule on both sides (MP antecedent, Generalization freshness)
    if meth in ('modus_ponens', 'exists_generalization'):
        py_g = set()
        for rec in ba_mf.paths:
            for c, b in rec['conds']:
                py_g.add((_py_guard(pt, c, b), b))
        ru_g = set()
        for rc in racc:
            for a, o in rc['conds']:
                if a[0] == 'variant':
                    continue
                ru_g.add((a, o))
        ru_g = {(_canon_eq(a), o) for a, o in ru_g}
        py_g = {(_canon_eq(a), o) for a, o in py_g if a is not None}
        ctx.ob('rule-guards', tag, py_g == ru_g,
               f'side conditions differ: generator checks {sorted(M.show_val(a) for a, _o in py_g)}, '
               f'checker checks {sorted(M.show_val(a) for a, _o in ru_g)}', where,
               facts={'python': sorted(map(str, py_g)), 'rust': sorted(map(str, ru_g))})
    if meth in ('instantiate', 'instantiate_pattern'):
        instantiate_pairing(ctx, w, meth, op, case, st_mf, racc, where)


def _canon_eq(a):
    if a[0] == 'eq':
        x, y = sorted([a[1], a[2]], key=repr)
        return ('eq', x, y)
    return a


def _py_guard(pt: PyTerm, c, b):
    if c[0] == 'cmp' and c[1] == '==':
        return ('eq', pt.term(c[2]), pt.term(c[3]))
    if c[0] == 'call' and c[1][0] == 'attr' and c[1][2] == 'evar_is_free' and len(c[2]) == 1:
        return ('call', 'Pattern::e_fresh', (pt.term(c[1][1]), pt.env.get(c[2][0], c[2][0])))
    if c[0] == 'param':
        return None          # `if not delta` style shortcuts
    if c[0] == 'isinstance' or (c[0] == 'call' and c[1] == ('name', 'isinstance')):
        return None          # constructor test of a destructuring (the checker's `variant` decision, compared through the term)
    return ('py', show(c))


def _norm_inst(t):
    """('instantiate', x, ...) -> ('instantiate', x): the pairing of ids and plugs is a separate obligation"""
    if isinstance(t, tuple) and t and t[0] == 'instantiate':
        return ('instantiate', _norm_inst(t[1]))
    if isinstance(t, tuple):
        return tuple(_norm_inst(x) if isinstance(x, tuple) else x for x in t)
    return t


def instantiate_pairing(ctx, w, meth, op, case, st_mf, racc, where):
    tag = f'{meth}->{op}'
    # serializer: ids written as keys, reversed or not
    ids = [o for o in case['operands'] if o[0] in ('each', 'names')]
    ctx.require(len(ids) == 1, f'{meth}: cannot find the id list among the operands')
    it, bytes_rev = ids[0][1], ids[0][2]
    # the keys of the map: delta.keys(), or the map itself (iterating a mapping yields its keys)
    is_keys = it == ('param', 'delta') or (it[0] == 'call' and it[1][0] == 'attr' and it[1][2] == 'keys' and it[1][1] == ('param', 'delta'))
    # tracker: the n slots below the top, bottom to top, equal list(delta.values()) (or reversed)
    stack_rev = None
    for rec in st_mf.paths:
        for a, b in rec['binds']:
            for x, y in ((a, b), (b, a)):
                if x[0] == 'run' and x[1] == 1:
                    if y == ('call', ('name', 'list'), (('call', ('attr', ('param', 'delta'), 'values'), (), ()),), ()):
                        stack_rev = False
                    elif y[0] == 'call' and y[1] == ('name', 'list') and y[2] and y[2][0][0] == 'call' \
                            and y[2][0][1] == ('name', 'reversed'):
                        stack_rev = True
    # checker: i-th id is paired with the i-th pop (top first) in one loop iteration
    paired = all(any(r[0] == 'loop' and [x[0] for x in r[2]] == ['byte', 'pop'] for r in rc['reads']) for rc in racc)
    ok = is_keys and stack_rev is not None and paired and (bytes_rev != stack_rev)
    ctx.ob('id-plug-pairing', tag, ok,
           f'the checker pairs the i-th id with the i-th pop (top of stack first); the generator writes keys '
           f'{"reversed" if bytes_rev else "in dict order"} while the plugs sit on the stack '
           f'{"reversed" if stack_rev else "in dict order (last value on top)"}' if (is_keys and stack_rev is not None and paired)
           else 'cannot establish how ids and plugs are paired', where,
           facts={'keys_reversed': bytes_rev, 'stack_reversed': stack_rev, 'rust_pairs_same_iteration': paired})


def claims_discipline(ctx, py: PyRepo, rust_arms):
    where = py.where('proof', py.method('ProofExp', 'execute_claims_phase'))
    # checker: Publish in the proof phase takes the claim with Vec::pop (LIFO)
    lifo = any(s[0] == 'claimpop' for ap in rust_arms.get('Publish', []) for s in ap.steps)
    from ..core.pyfacts import self_method_resolver
    ev = PyEval(resolver=self_method_resolver(py, py.cls('ProofExp'), ('param', 'self'), only_private=True))

    def loop_iter(meth):
        fn = py.method('ProofExp', meth)
        for p in ev.paths(fn):
            for e in p.events:
                if e.kind == 'loop' and e.value[0] == 'for':
                    body_calls = [x.value for bp in e.extra for x in bp.events if x.kind == 'ecall']
                    if any(c[1][0] == 'attr' and c[1][2].startswith('publish_') for c in body_calls) or \
                            any(c[1] == ('attr', ('param', 'self'), 'publish_proof') for c in body_calls):
                        return e.value[2]
        return None

    ci = loop_iter('execute_claims_phase')
    pi = loop_iter('execute_proofs_phase')
    ctx.require(ci is not None and pi is not None, 'cannot find the publishing loops of ProofExp')
    claims_rev = ci[0] == 'call' and ci[1] == ('name', 'reversed')
    proofs_rev = pi[0] == 'call' and pi[1] == ('name', 'reversed')
    base_c = ci[2][0] if claims_rev else ci
    base_p = pi[2][0] if proofs_rev else pi
    ok = lifo == (claims_rev != proofs_rev)
    ctx.ob('claim-order', 'lifo-vs-reversed', ok,
           f'the checker consumes claims {"last-in first-out" if lifo else "first-in first-out"} but the generator publishes claims over '
           f'{show(ci)} and proofs over {show(pi)}', where,
           facts={'rust_lifo': lifo, 'claims_iter': show(ci), 'proofs_iter': show(pi)})
    ctx.ob('claim-order', 'declared-lists', base_c == ('attr', ('param', 'self'), '_claims')
           and base_p == ('attr', ('param', 'self'), '_proof_expressions'),
           f'claims are published from {show(base_c)} and proofs from {show(base_p)}', where)


def axioms_three_way(ctx, w: Wiring, rust_arms):
    py = w.py
    names = {'prop1': 'Prop1', 'prop2': 'Prop2', 'prop3': 'Prop3', 'exists_quantifier': 'Quantifier'}
    ev = PyEval()
    for meth, ax in names.items():
        schema = AX.AXIOMS[ax]
        # BasicInterpreter
        ba = PM.level_facts(py, w.basic, meth)
        t1 = PyTerm(w, {}).term(ba.paths[0]['ret']) if ba and ba.paths else None
        # ProofExp static conclusion: second argument of the ProofThunk it returns
        fn = py.method('ProofExp', meth)
        t2 = None
        for p in ev.paths(fn):
            if p.end[0] == 'return':
                v = p.end[1]
                if v[0] == 'call' and v[1] == ('name', 'ProofThunk') and len(v[2]) == 2:
                    t2 = w.N.term(v[2][1], 'proof', {})
        t3 = None
        for ap in rust_arms.get(ax, []):
            if ap.end == 'next':
                for e in M.to_case(ap)['effects']:
                    t3 = e[3]
        ok = t1 == schema and t2 == schema and t3 == schema
        ctx.ob('axiom-agreement', ax, ok,
               f'{ax}: BasicInterpreter {tshow(t1) if t1 else None}; ProofExp {tshow(t2) if t2 else None}; '
               f'checker {M.show_val(t3) if t3 else None}; schema {tshow(schema)}', py.where('basic_interpreter', ba.node),
               facts={'basic': tshow(t1) if t1 else None, 'proofexp': tshow(t2) if t2 else None})


def phase_protocol(ctx, py: PyRepo):
    ev = PyEval()
    fn = py.method('ProofExp', 'execute_full')
    where = py.where('proof', fn)
    order = []
    args_ok = True
    for p in ev.paths(fn):
        if p.end[0] == 'raise':
            continue
        for e in p.events:
            if e.kind == 'ecall' and e.value[1][0] == 'attr' and e.value[1][1] == ('param', 'self') \
                    and e.value[1][2].startswith('execute_'):
                order.append(e.value[1][2])
                if e.value[2][:1] != (('param', 'interpreter'),):
                    args_ok = False
    ctx.ob('phase-protocol', 'execute_full', order == ['execute_gamma_phase', 'execute_claims_phase', 'execute_proofs_phase'] and args_ok,
           f'execute_full runs {order} (one interpreter object: {args_ok})', where)
    # phase transitions happen at the end of gamma and claim phases
    for meth, trans in (('execute_gamma_phase', 'into_claim_phase'), ('execute_claims_phase', 'into_proof_phase')):
        fn = py.method('ProofExp', meth)
        found = any(e.kind == 'ecall' and e.value[1] == ('attr', ('param', 'interpreter'), trans)
                    for p in ev.paths(fn) for e in p.events)
        ctx.ob('phase-protocol', meth, found, f'{meth} never calls interpreter.{trans}()', py.where('proof', fn))


def judgement_agreement(ctx, py):
    """the generator applies Generalization when ITS freshness judgement holds, the checker when the documented one holds (which the
    Rust code implements: C05).  Whenever the generator says "fresh" the documented judgement must say so too, per constructor and
    on every valuation - otherwise the toolkit accepts a proof expression whose serialisation the checker rejects."""
    from ..core import decide, pypattern
    from ..spec import judgements as SJ
    n = 0
    for c in pypattern.pattern_classes(py):
        if c.name == 'Instantiate' or 'evar_is_free' not in c.methods:
            continue                      # the notation node answers through its expansion (C12)
        doc = SJ.DOC.get((c.name, 'e_fresh'))
        if doc is None:
            continue
        df = pypattern.bool_method_df(py, c.name, 'evar_is_free')
        cex, _n = decide.implies(df, doc, SJ.closure, SJ.consistent)
        n += 1
        ctx.ob('judgement-agreement', f'evar_is_free/{c.name}', cex is None,
               '' if cex is None else f'{c.name}.evar_is_free answers "fresh" where the documented e_fresh of {c.name} '
               f'({decide.f_show(doc)}) does not, at {cex}: exists_generalization succeeds in the generator and the checker refuses the step',
               py.where(c.module, c.methods['evar_is_free']))
    ctx.floor('judgement-agreement', 10)


def slot_budget(ctx, py):
    """`Load` addresses memory with one byte, so a serialisation that needs more than 256 slots cannot be written at all
    (bytes([..]) raises).  Slots are taken by published axioms / saved proofs (memory at analysis time) and by one Save per pattern
    the optimiser decides to memoise; the analyser therefore may suggest at most 256 - len(memory) patterns."""
    import ast as _ast
    from ..core import astpaths
    from .c16 import Lin, lin_index
    ci = py.cls('CountingInterpreter', 'counting_interpreter')
    init, fin = ci.methods.get('__init__'), ci.methods.get('finalize')
    ctx.require(init is not None and fin is not None, 'anchor vanished: CountingInterpreter.__init__ / finalize')
    where = py.where(ci.module, fin)
    # the loop that selects patterns: its body adds to the suggestion set, directly or through a private helper of the class.
    # Two spellings bound the number of additions: `while <counter> > 0 ..: .. <counter> -= 1` and `for _ in range(<budget>)`.
    INF = 10 ** 6

    def is_add(x):
        return isinstance(x, _ast.Call) and isinstance(x.func, _ast.Attribute) and x.func.attr == 'add' \
            and 'suggest' in _ast.unparse(x.func.value)

    def adds_of(stmts, depth=0):
        """largest number of additions to the suggestion set on one path through stmts (INF if inside a nested loop)"""
        best = 0
        for sp in astpaths.paths(stmts):
            n = 0
            for a in sp.actions:
                n += adds_of_node(a, depth)
            best = max(best, n)
        return best

    def adds_of_node(a, depth):
        if isinstance(a, (_ast.For, _ast.While)):
            return INF if adds_of(a.body, depth) else 0
        n = 0
        for x in _ast.walk(a):
            if is_add(x):
                n += 1
            elif isinstance(x, _ast.Call) and isinstance(x.func, _ast.Attribute) and isinstance(x.func.value, _ast.Name) \
                    and x.func.value.id == 'self' and depth < 3:
                hit = py.find_method(ci, x.func.attr)
                if hit is not None and hit[1] is not fin:
                    n += adds_of(hit[1].body, depth + 1)
        return n

    loops = [n for n in _ast.walk(fin) if isinstance(n, (_ast.While, _ast.For))]
    sel = [lp for lp in loops if adds_of(lp.body)]
    sel = [lp for lp in sel if not any(o is not lp and any(x is lp for x in _ast.walk(o)) for o in sel)] or sel
    ctx.require(len(sel) == 1, 'CountingInterpreter.finalize: selection loop not found')
    lp = sel[0]
    outside = sum(adds_of_node(st, 0) for st in fin.body if not any(x is lp for x in _ast.walk(st)))
    ctx.ob('slot-budget', 'suggestions-only-in-the-loop', outside == 0,
           'a pattern is added to the suggestions outside the counted selection loop: it takes a slot the budget does not see', where)
    if isinstance(lp, _ast.For):
        it = lp.iter
        ranged = isinstance(it, _ast.Call) and isinstance(it.func, _ast.Name) and it.func.id == 'range' and len(it.args) == 1 \
            and not it.keywords
        ctx.ob('slot-budget', 'loop-bounded-by-counter', ranged,
               'the selection loop must run at most once per free slot (`for _ in range(<slots>)`)', py.where(ci.module, lp))
        if not ranged:
            return
        ctx.ob('slot-budget', 'one-slot-per-suggestion', adds_of(lp.body) <= 1,
               'every iteration of the selection loop stands for one slot: it may add at most one pattern to the suggestions',
               py.where(ci.module, lp))
        CNT, cnt_expr = None, it.args[0]
    else:
        m = [c for c in _ast.walk(lp.test) if isinstance(c, _ast.Compare) and isinstance(c.left, _ast.Name) and len(c.ops) == 1
             and isinstance(c.ops[0], _ast.Gt) and _ast.unparse(c.comparators[0]) == '0']
        ctx.ob('slot-budget', 'loop-bounded-by-counter', len(m) == 1 and (not isinstance(lp.test, _ast.BoolOp) or isinstance(lp.test.op, _ast.And)),
               'the selection loop must stop when the slot counter reaches 0', py.where(ci.module, lp))
        if len(m) != 1:
            return
        CNT, cnt_expr = m[0].left.id, None
        ok_dec = True
        for sp in astpaths.paths(lp.body):
            adds = sum(adds_of_node(a, 0) for a in sp.actions)
            decs = sum(1 for a in sp.actions if isinstance(a, _ast.AugAssign) and isinstance(a.op, _ast.Sub) and _ast.unparse(a.target) == CNT
                       and _ast.unparse(a.value) == '1')
            if adds > decs:
                ok_dec = False
        ctx.ob('slot-budget', 'one-slot-per-suggestion', ok_dec, 'every pattern added to the suggestions must take one slot off the counter',
               py.where(ci.module, lp))
    # value of the counter at loop entry as a linear form
    env = {}
    for n in init.body:
        if isinstance(n, _ast.Assign) and isinstance(n.targets[0], _ast.Attribute) and isinstance(n.value, _ast.Constant):
            env[_ast.unparse(n.targets[0])] = Lin(n.value.value) if isinstance(n.value.value, int) else None

    def val(e):
        txt = _ast.unparse(e)
        if txt in env and env[txt] is not None:
            return env[txt]
        if isinstance(e, _ast.BinOp) and isinstance(e.op, (_ast.Add, _ast.Sub)):
            a, b = val(e.left), val(e.right)
            return a + (b.scale(-1) if isinstance(e.op, _ast.Sub) else b)
        return lin_index(e, {})
    why = ''
    for n in fin.body:
        if n.lineno >= lp.lineno:
            break
        try:
            if isinstance(n, _ast.AugAssign) and isinstance(n.op, (_ast.Sub, _ast.Add)):
                t = _ast.unparse(n.target)
                cur = env.get(t) or Lin(0, {t: 1})
                d = val(n.value)
                env[t] = cur + (d.scale(-1) if isinstance(n.op, _ast.Sub) else d)
            elif isinstance(n, _ast.Assign) and len(n.targets) == 1:
                env[_ast.unparse(n.targets[0])] = val(n.value)
        except ValueError as ex:
            # not a linear quantity: unknown from here on (only matters if the counter depends on it)
            t = _ast.unparse(n.target if isinstance(n, _ast.AugAssign) else n.targets[0])
            env[t] = None
            if t in ('self._max_allowed_slots', CNT):
                why = str(ex)
    if CNT is not None:
        budget = env.get(CNT)
    else:
        try:
            budget = val(cnt_expr)
        except ValueError as ex:
            budget, why = None, str(ex)
    ok = budget is not None and set(budget.t) == {'#self.memory'} and budget.t['#self.memory'] == -1 and budget.c <= 256
    ctx.ob('slot-budget', 'budget', ok,
           f'the analyser may suggest at most 256 - len(self.memory) patterns (one-byte Load operand; the slots of the published axioms '
           f'are already taken); its counter starts at {budget if budget is not None else "a value that is not linear in len(self.memory)"}'
           f'{" (" + why + ")" if why else ""}: with enough axioms and repeated patterns the optimised serialisation needs a slot '
           f'number above 255 and cannot be written', where, facts={'counter at loop entry': repr(budget)})
    ctx.floor('slot-budget', 4)


def run(ctx):
    py = PyRepo.get()
    r = Rust.get()
    w = Wiring(py)
    rust_arms = M.rust_arms(r)
    py_ops = py_opcodes(py)
    rust_dec = c05.decode_table(r)
    for meth in PM.INTERP_METHODS:
        method_row(ctx, w, meth, rust_arms, py_ops, rust_dec)
    # every name defined on both sides has the same byte (also the ones the generator does not emit yet)
    for name, b in sorted(py_ops.items()):
        rb = [x for x, n in rust_dec['table'].items() if n == name]
        ctx.ob('opcode-byte', f'enum/{name}', bool(rb) and rb[0] == b,
               f'Instruction.{name} = {b} in instruction.py but the checker decodes {rb} as {name}',
               py.where('instruction', py.cls('Instruction', 'instruction').node))
    # a Load is accepted as the intended term only if memory slots are counted alike on both sides (shared with C04)
    from . import c04
    c04.memory_and_load(ctx, py, w, rust_arms)
    claims_discipline(ctx, py, rust_arms)
    axioms_three_way(ctx, w, rust_arms)
    phase_protocol(ctx, py)
    slot_budget(ctx, py)
    judgement_agreement(ctx, py)
    # the wiring rows identify a symbol with the number written for it: sound only for ONE injective table per module (shared with C03)
    from . import c03
    c03.symbol_table(ctx, py)
    # generator and checker must compute the same pattern for Instantiate and for a resolved substitution: both follow the textbook
    # table (shared with C11 / C05); a checker that instantiates differently rejects the claim the generator published
    from . import c11
    c05.subst_conformance(ctx, r)
    c11.python_half(ctx, py)
    # the checker's judgements are the documented ones: a judgement that answers "no" where the documented machine answers "yes"
    # (a lost polarity flip, a stricter freshness) refuses well-formedness checks and instantiations a generated module relies on
    c05.judgement_conformance(ctx, r)
    ctx.floor('emit', 24)
    ctx.floor('layout', 22)
    ctx.floor('wiring', 18)
    ctx.floor('opcode-byte', 50)
    ctx.floor('axiom-agreement', 4)
    ctx.analysed['interpreter methods'] = len(PM.INTERP_METHODS)
    ctx.explanation = (
        'Generator/checker protocol agreement, extracted from both sides on every run (Python ast of Serializing/Stateful/Basic '
        'interpreters and ProofExp; rustc MIR of execute_instructions): opcode byte values, emitted opcodes are implemented, operand '
        'layout, the stack slot / operand that feeds each constructor field and rule premise (including side conditions of MP and '
        'Generalization and the id/plug pairing of Instantiate), LIFO claims vs reversed publication, axiom schemas three-way, phase '
        'order. These are necessary conditions for acceptance of every generated module; acceptance of particular bytes is an execution '
        'and is not decided.')
    ctx.assumptions = ['symbol names are identified with their serializer numbers (injectivity decided under C03)',
                       'spec/axioms.py', 'rustc MIR / python ast are faithful']
