"""C18 - output is a deterministic function of the input: no order- or state-dependent value reaches an output."""
from __future__ import annotations

import ast

from ..core.ordertaint import OrderAnalysis, reachable_functions
from ..core.pyfacts import PyRepo
from ..spec.order_triage import AMBIENT_SAFE, ENTRY_POINTS, ORDER_SAFE

LEVEL = 'other'

AMBIENT_CALLS = {'id': 'object identity', 'hash': 'hash value (seed dependent for strings)', 'listdir': 'directory order',
                 'glob': 'directory order', 'rglob': 'directory order', 'iterdir': 'directory order', 'scandir': 'directory order',
                 'walk': 'directory order', 'time': 'clock', 'time_ns': 'clock', 'now': 'clock', 'today': 'clock', 'random': 'randomness',
                 'randint': 'randomness', 'choice': 'randomness', 'shuffle': 'randomness', 'uuid4': 'randomness', 'uuid1': 'randomness',
                 'getpid': 'process id', 'getenv': 'environment', 'urandom': 'randomness', 'perf_counter': 'clock', 'monotonic': 'clock'}
MUTABLE_CTORS = {'list', 'dict', 'set', 'defaultdict', 'OrderedDict', 'Counter', 'deque'}


def order_sites(ctx, py: PyRepo, oa: OrderAnalysis, reach, only_modules=None):
    sites = oa.sites()
    if only_modules is not None:
        sites = [s for s in sites if s.module in only_modules]
    n_reach = 0
    for s in sites:
        short_fn = s.function
        key = (s.module, short_fn, s.stable, s.consumer)
        reachable = (s.module, short_fn) in reach
        tag = f'{s.module}.{short_fn}:{s.key}/{s.consumer}'
        where = py.where(s.module, s.node)
        if s.safe:
            ctx.ob('iteration-order', tag, True, s.why, where, facts={'elements': s.elem, 'consumer': s.consumer, 'auto': True})
            continue
        if key in ORDER_SAFE:
            ctx.ob('iteration-order', tag, True, 'triaged: ' + ORDER_SAFE[key], where,
                   facts={'elements': s.elem, 'consumer': s.consumer, 'triaged': True})
            continue
        if not reachable:
            ctx.advisory(f'{tag}: iterates a set ({s.expr}) in an order-sensitive way, but is not reachable from the serialisation / '
                         f'translation entry points')
            continue
        n_reach += 1
        ctx.ob('iteration-order', tag, False,
               f'`{s.expr}` is a set of {s.elem} (iteration order depends on the hash seed) and is consumed in an order-sensitive way '
               f'({s.consumer}) in {s.function}, which is reachable from the serialisation / translation entry points: the output can '
               f'differ between runs on the same input', where, facts={'elements': s.elem, 'consumer': s.consumer})
    ctx.analysed['iteration sites over sets'] = len(sites)
    stale = [k for k in ORDER_SAFE if not any((s.module, s.function, s.stable, s.consumer) == k for s in sites)]
    if stale and only_modules is None:
        ctx.advisory(f'triage entries without a matching site (code changed): {stale}')


def ambient(ctx, py: PyRepo, reach):
    n = 0
    for mname, qn, fn, ci in py.all_functions():
        for node in ast.walk(fn):
            if isinstance(node, ast.Call):
                f = node.func
                name = f.id if isinstance(f, ast.Name) else (f.attr if isinstance(f, ast.Attribute) else None)
                if name in AMBIENT_CALLS:
                    if name in ('time', 'now', 'today', 'random', 'choice', 'walk') and isinstance(f, ast.Name):
                        continue
                    if name == 'walk' and isinstance(f, ast.Attribute) and ast.unparse(f.value) == 'ast':
                        continue
                    n += 1
                    key = (mname, qn, name)
                    tag = f'{mname}.{qn}:{name}'
                    if key in AMBIENT_SAFE:
                        ctx.ob('ambient-state', tag, True, 'triaged: ' + AMBIENT_SAFE[key], py.where(mname, node), facts={'triaged': True})
                        continue
                    # sorted(glob(...)) is fine
                    ok = False
                    for par in ast.walk(fn):
                        if isinstance(par, ast.Call) and isinstance(par.func, ast.Name) and par.func.id == 'sorted' and node in par.args:
                            ok = True
                    if (mname, qn) not in reach and not ok:
                        ctx.advisory(f'{tag}: uses {AMBIENT_CALLS[name]} but is not reachable from the entry points')
                        continue
                    ctx.ob('ambient-state', tag, ok,
                           f'{qn} reads {AMBIENT_CALLS[name]} through {ast.unparse(node)[:60]} on a path reachable from the entry points',
                           py.where(mname, node))
            if isinstance(node, ast.Attribute) and isinstance(node.value, ast.Name) and node.value.id == 'os' and node.attr == 'environ':
                n += 1
                ctx.ob('ambient-state', f'{mname}.{qn}:environ', (mname, qn) not in reach,
                       f'{qn} reads the process environment', py.where(mname, node))
    ctx.analysed['ambient-state uses'] = n


def stateful_classes(py: PyRepo) -> dict:
    """repo classes (with subclasses) whose methods, other than the constructor, write to attributes of self"""
    own = {}
    for mname, mi in py.modules.items():
        for c in mi.classes.values():
            muts = set()
            for fname, f in c.methods.items():
                if fname in ('__init__', '__post_init__'):
                    continue
                for n in ast.walk(f):
                    tg = n.targets if isinstance(n, ast.Assign) else ([n.target] if isinstance(n, (ast.AugAssign, ast.AnnAssign)) else [])
                    for t in tg:
                        base = t.value if isinstance(t, ast.Subscript) else t
                        if isinstance(base, ast.Attribute) and isinstance(base.value, ast.Name) and base.value.id == 'self':
                            muts.add(base.attr)
                    if isinstance(n, ast.Call) and isinstance(n.func, ast.Attribute) and n.func.attr in (
                            'append', 'add', 'update', 'extend', 'pop', 'clear', 'insert', 'remove', 'setdefault', 'discard') \
                            and isinstance(n.func.value, ast.Attribute) and isinstance(n.func.value.value, ast.Name) \
                            and n.func.value.value.id == 'self':
                        muts.add(n.func.value.attr)
            if muts:
                own[(mname, c.name)] = sorted(muts)
    out = {}
    for mname, mi in py.modules.items():
        for c in mi.classes.values():
            for anc in py.mro(c):
                if (anc.module, anc.name) in own:
                    out.setdefault(c.name, own[(anc.module, anc.name)])
                    break
    return out


def module_level_stateful_instances(py: PyRepo, only_modules=None):
    st = stateful_classes(py)
    out = []
    for mname, mi in py.modules.items():
        if only_modules is not None and mname not in only_modules:
            continue
        for top in mi.tree.body:
            if isinstance(top, (ast.FunctionDef, ast.AsyncFunctionDef, ast.Import, ast.ImportFrom)):
                continue
            if isinstance(top, ast.If) and '__name__' in ast.unparse(top.test):
                continue                           # script entry point: runs once per process by construction
            stack = [top]
            while stack:
                n = stack.pop()
                if isinstance(n, (ast.FunctionDef, ast.AsyncFunctionDef, ast.Lambda)):
                    # default arguments are evaluated at definition time
                    stack.extend(n.args.defaults + [d for d in n.args.kw_defaults if d is not None])
                    continue
                if isinstance(n, ast.Call) and isinstance(n.func, ast.Name) and n.func.id in st:
                    out.append((mname, n, n.func.id, st[n.func.id]))
                stack.extend(ast.iter_child_nodes(n))
    return out


def module_state_writes(py: PyRepo, only_modules=None):
    """(module, function, global, node) for every write into a module-level mutable object from a function"""
    out = []
    for mname, mi in py.modules.items():
        if only_modules is not None and mname not in only_modules:
            continue
        mutable_globals = {}
        for st in mi.tree.body:
            tgt = st.targets[0] if isinstance(st, ast.Assign) else (st.target if isinstance(st, ast.AnnAssign) else None)
            val = getattr(st, 'value', None)
            if isinstance(tgt, ast.Name) and val is not None and (isinstance(val, (ast.List, ast.Dict, ast.Set)) or (
                    isinstance(val, ast.Call) and isinstance(val.func, ast.Name) and val.func.id in MUTABLE_CTORS)):
                mutable_globals[tgt.id] = val
        funcs = [(f.name, f) for f in mi.functions.values()] + [(f'{c.name}.{f.name}', f) for c in mi.classes.values() for f in c.methods.values()]
        for qn, fn in funcs:
            local = {a.arg for a in fn.args.args} | {n_.id for n_ in ast.walk(fn) if isinstance(n_, ast.Name) and isinstance(n_.ctx, ast.Store)}
            declared_global = {nm for n_ in ast.walk(fn) if isinstance(n_, ast.Global) for nm in n_.names}
            for node in ast.walk(fn):
                if isinstance(node, ast.Call) and isinstance(node.func, ast.Attribute) and isinstance(node.func.value, ast.Name):
                    g = node.func.value.id
                    if g in mutable_globals and (g not in local or g in declared_global) and node.func.attr in (
                            'append', 'extend', 'add', 'update', 'pop', 'clear', 'setdefault', 'insert', 'remove', '__setitem__'):
                        out.append((mname, qn, g, node))
                if isinstance(node, (ast.Assign, ast.AugAssign)):
                    for t in (node.targets if isinstance(node, ast.Assign) else [node.target]):
                        if isinstance(t, ast.Subscript) and isinstance(t.value, ast.Name) and t.value.id in mutable_globals \
                                and (t.value.id not in local or t.value.id in declared_global):
                            out.append((mname, qn, t.value.id, node))
    return out


def shared_class_state(py: PyRepo, only_classes=None):
    """class-level mutable attributes (plain or annotated) that are mutated through instances and not shadowed in __init__"""
    out = []
    for mname, mi in py.modules.items():
        for c in mi.classes.values():
            if only_classes is not None and c.name not in only_classes:
                continue
            for node in c.node.body:
                tgt = node.targets[0] if isinstance(node, ast.Assign) else (node.target if isinstance(node, ast.AnnAssign) else None)
                if isinstance(tgt, ast.Name) and getattr(node, 'value', None) is not None:
                    v = node.value
                    if isinstance(v, (ast.List, ast.Dict, ast.Set)) or (isinstance(v, ast.Call) and isinstance(v.func, ast.Name) and v.func.id in MUTABLE_CTORS):
                        attr = tgt.id

                        def _is_attr(e, attr=attr):
                            return isinstance(e, ast.Attribute) and e.attr == attr
                        written = any(
                            (isinstance(x, ast.Call) and isinstance(x.func, ast.Attribute) and _is_attr(x.func.value)
                             and x.func.attr in ('append', 'add', 'update', 'extend', 'setdefault', 'pop', 'clear', 'insert', 'remove', 'discard'))
                            or (isinstance(x, (ast.Assign, ast.AugAssign, ast.Delete)) and any(
                                isinstance(t, ast.Subscript) and _is_attr(t.value)
                                for t in (x.targets if isinstance(x, (ast.Assign, ast.Delete)) else [x.target])))
                            for f in c.methods.values() for x in ast.walk(f))
                        shadowed = any(isinstance(x, (ast.Assign, ast.AnnAssign)) and any(
                            isinstance(t, ast.Attribute) and t.attr == attr for t in (x.targets if isinstance(x, ast.Assign) else [x.target]))
                            for f in c.methods.values() if f.name == '__init__' for x in ast.walk(f))
                        if written and not shadowed:
                            out.append((mname, c, attr, node))
    return out


def cross_run_state(ctx, py: PyRepo):
    """mutable default arguments; module-level mutable objects written from functions; class-level mutable attributes written through instances"""
    n = 0
    for mname, qn, fn, ci in py.all_functions():
        for d in fn.args.defaults + [x for x in fn.args.kw_defaults if x is not None]:
            mutable = isinstance(d, (ast.List, ast.Dict, ast.Set)) or (isinstance(d, ast.Call) and isinstance(d.func, ast.Name)
                                                                        and d.func.id in MUTABLE_CTORS)
            if mutable:
                n += 1
                ctx.ob('cross-run-state', f'{mname}.{qn}:default', False,
                       f'{qn} has a mutable default argument ({ast.unparse(d)}): state leaks from one call (one serialisation) into the next',
                       py.where(mname, d))
    for mname, mi in py.modules.items():
        mutable_globals = {}
        for name, val in mi.assigns.items():
            if isinstance(val, (ast.List, ast.Dict, ast.Set)) or (isinstance(val, ast.Call) and isinstance(val.func, ast.Name)
                                                                   and val.func.id in MUTABLE_CTORS):
                mutable_globals[name] = val
        funcs = [(f.name, f) for f in mi.functions.values()] + [(f'{c.name}.{f.name}', f) for c in mi.classes.values() for f in c.methods.values()]
        for qn, fn in funcs:
            local = {a.arg for a in fn.args.args} | {n_.id for n_ in ast.walk(fn) if isinstance(n_, ast.Name) and isinstance(n_.ctx, ast.Store)}
            declared_global = {nm for n_ in ast.walk(fn) if isinstance(n_, ast.Global) for nm in n_.names}
            for node in ast.walk(fn):
                if isinstance(node, ast.Call) and isinstance(node.func, ast.Attribute) and isinstance(node.func.value, ast.Name):
                    g = node.func.value.id
                    if g in mutable_globals and (g not in local or g in declared_global) and node.func.attr in (
                            'append', 'extend', 'add', 'update', 'pop', 'clear', 'setdefault', 'insert', 'remove', '__setitem__'):
                        n += 1
                        ctx.ob('cross-run-state', f'{mname}.{qn}:{g}', False,
                               f'{qn} mutates the module-level object `{g}`: what was serialised earlier in the process changes later output',
                               py.where(mname, node))
                if isinstance(node, (ast.Assign, ast.AugAssign)):
                    tg = node.targets if isinstance(node, ast.Assign) else [node.target]
                    for t in tg:
                        if isinstance(t, ast.Subscript) and isinstance(t.value, ast.Name) and t.value.id in mutable_globals \
                                and (t.value.id not in local or t.value.id in declared_global):
                            n += 1
                            ctx.ob('cross-run-state', f'{mname}.{qn}:{t.value.id}', False,
                                   f'{qn} writes into the module-level object `{t.value.id}`', py.where(mname, node))
                        if isinstance(t, ast.Name) and t.id in declared_global:
                            n += 1
                            ctx.ob('cross-run-state', f'{mname}.{qn}:{t.id}', False, f'{qn} rebinds the global `{t.id}`', py.where(mname, node))
    for mname, c, attr, node in shared_class_state(py):
        n += 1
        ctx.ob('cross-run-state', f'{mname}.{c.name}.{attr}', False,
               f'class attribute {c.name}.{attr} is a mutable object shared by all instances and is mutated through them',
               py.where(mname, node))
    # module-level (import-time) instances of classes whose methods mutate their own attributes: one object shared by every run
    for mname, node, cname, attrs in module_level_stateful_instances(py):
        n += 1
        ctx.ob('cross-run-state', f'{mname}:<module>:{cname}', False,
               f'{mname} creates a {cname} at import time; {cname} mutates its own state ({", ".join(attrs[:3])}) while working, so what one run '
               f'records is still there in the next run of the same process', py.where(mname, node))
    # functools.cache: results must not depend on mutable state (arguments only)
    for mname, qn, fn, ci in py.all_functions():
        if any(ast.unparse(d).split('(')[0].split('.')[-1] in ('cache', 'lru_cache') for d in fn.decorator_list):
            reads_state = False
            params = {a.arg for a in fn.args.args}
            for node in ast.walk(fn):
                if isinstance(node, ast.Attribute) and isinstance(node.value, ast.Name) and node.value.id == 'self':
                    reads_state = True
            ctx.ob('cross-run-state', f'{mname}.{qn}:cache', not reads_state,
                   f'{qn} is memoised with functools.cache but reads instance state: a cached answer can outlive the state it was computed from',
                   py.where(mname, fn), facts={'parameters': sorted(params)})
            n += 1
    ctx.ob('cross-run-state', 'scan', True, f'{n} candidate constructs examined', '')
    ctx.analysed['cross-run state candidates'] = n


def run(ctx):
    py = PyRepo.get()
    oa = OrderAnalysis(py)
    reach = reachable_functions(py, ENTRY_POINTS)
    have = [e for e in ENTRY_POINTS if e in {(m, q) for m, q, _f, _c in py.all_functions()}]
    ctx.require(len(have) >= 4, f'anchor vanished: only {len(have)} of the entry points exist')
    order_sites(ctx, py, oa, reach)
    ambient(ctx, py, reach)
    cross_run_state(ctx, py)
    ctx.floor('iteration-order', 10)
    ctx.analysed['functions reachable from the entry points'] = len(reach)
    ctx.explanation = (
        'Non-interference of iteration order and ambient state with the output: every construct that iterates a set/frozenset '
        '(set-typedness from annotations, constructors, set operators, resolved return types; int elements exempt) is classified by its '
        'consumer - order-free consumers (sorted, min/max/sum/len/any/all, set construction, loops whose body only inserts into sets or '
        'returns a boolean) are safe, the rest must be in the triage table with a reason or are violations when reachable (name-based '
        'call graph, over-approximate) from ProofExp.serialize/main, translate.main/exec_proof, MetamathConverter.__init__ and the K '
        'drivers; uses of id/hash/directory order/clock/randomness/environment are enumerated likewise; mutable defaults, module-level '
        'and class-level mutable state written from functions, and caches that read instance state are flagged. Byte equality of outputs '
        'is never observed.')
    ctx.assumptions = ['spec/order_triage.py (6 order entries, 3 ambient entries, each with a reason)',
                       'annotations are truthful about set-typedness', 'dict preserves insertion order (language guarantee)']
