"""C08 - a proof means the same under every interpreter (structural facts that make the interpreters agree)."""
from __future__ import annotations

import ast

from ..core import pymachine as PM
from ..core.pyeval import PyEval, show
from ..core.pyfacts import PyRepo
from ..core.report import AnalysisError
from ..core.wiring import Wiring

LEVEL = 'other'
SELF = ('param', 'self')

# who may construct a Proved: (module, enclosing function) with the reason
PROVED_SITES = {
    ('basic_interpreter', 'prop1'): 'axiom schema', ('basic_interpreter', 'prop2'): 'axiom schema',
    ('basic_interpreter', 'prop3'): 'axiom schema', ('basic_interpreter', 'exists_quantifier'): 'axiom schema',
    ('basic_interpreter', 'modus_ponens'): 'rule', ('basic_interpreter', 'exists_generalization'): 'rule',
    ('basic_interpreter', 'instantiate'): 'rule',
    ('proof', 'load_axiom'): 'declared axiom (asserted to be in _axioms)',
    ('proof', 'publish_proof'): 'publish_proof returns the conclusion it just published',
    ('stateful_interpreter', 'publish_axiom'): 'memory entry of a published axiom',
    ('metamath.translate', 'exec_proof'): 'comparison with the expected final term',
}


def enclosing(tree, node) -> str:
    # the function a call site belongs to is the outermost one it is written in: a nested closure has no licence of its own
    from ..core.pyfacts import enclosing_top
    f_ = enclosing_top(tree, node)
    return f_.name if f_ is not None else '<module>'


def proved_confinement(ctx, py: PyRepo):
    n = 0
    for mname, mi in py.modules.items():
        for node in ast.walk(mi.tree):
            if isinstance(node, ast.Call) and isinstance(node.func, ast.Name) and node.func.id == 'Proved':
                fn = enclosing(mi.tree, node)
                n += 1
                ctx.ob('proved-confinement', f'{mname}:{fn}', (mname, fn) in PROVED_SITES,
                       f'{mname}.{fn} constructs a Proved term; conclusions may only come from the rule methods of BasicInterpreter '
                       f'and the listed DSL entry points', py.where(mname, node), facts={'reason': PROVED_SITES.get((mname, fn))})
    ctx.analysed['Proved construction sites'] = n


def transformer_forwards(ctx, py: PyRepo):
    base = py.cls('Interpreter', 'interpreter')
    tr = py.cls('InterpreterTransformer')
    abstract = [m for m, fn in base.methods.items() if any('abstractmethod' in ast.unparse(d) for d in fn.decorator_list)]
    ctx.require(len(abstract) >= 24, f'Interpreter declares only {len(abstract)} abstract methods')
    for meth in abstract:
        where = py.where(tr.module, tr.methods.get(meth) or tr.node)
        if meth not in tr.methods:
            ctx.ob('forwarding', f'InterpreterTransformer.{meth}', False, f'InterpreterTransformer does not implement {meth}', where)
            continue
        mf = PM.level_facts(py, tr, meth)
        want = tuple(('param', p) for p in mf.params)
        probs = []
        base_params = [a.arg for a in base.methods[meth].args.args[1:]]
        if mf.params != base_params:
            probs.append(f'parameters ({", ".join(mf.params)}) differ from the interface ({", ".join(base_params)})')
        returns_value = base.methods[meth].returns is not None and ast.unparse(base.methods[meth].returns) != 'None'
        for rec in mf.paths:
            calls = [s for s in rec['subcalls'] if s[0] == meth]
            if len(calls) != 1 or len(rec['subcalls']) != 1:
                probs.append(f'{len(calls)} forwarding calls ({[s[0] for s in rec["subcalls"]]})')
                continue
            if calls[0][1] != want or calls[0][2]:
                probs.append(f'forwards ({", ".join(show(a) for a in calls[0][1])}) instead of ({", ".join(mf.params)})')
            if returns_value and rec['ret'] != ('call', ('attr', ('attr', SELF, 'sub_interpreter'), meth), want, ()):
                probs.append(f'returns {show(rec["ret"]) if rec["ret"] else None} instead of the forwarded value')
        ctx.ob('forwarding', f'InterpreterTransformer.{meth}', not probs, '; '.join(probs), where)
    # phase transitions forward too
    for meth in ('into_claim_phase', 'into_proof_phase'):
        mf = PM.level_facts(py, tr, meth)
        ok = mf is not None and all(any(s[0] == meth for s in rec['subcalls']) and any(s[0] == meth for s in rec['supers'])
                                    for rec in mf.paths)
        ctx.ob('forwarding', f'InterpreterTransformer.{meth}', ok, f'{meth} must advance both its own phase and the wrapped interpreter',
               py.where(tr.module, tr.methods.get(meth) or tr.node))
    # subclasses of the transformer: every override of an interface method still reaches the wrapped interpreter or is listed
    for ci in py.subclasses(tr):
        for meth in ci.methods:
            if meth not in abstract:
                continue
            mf = PM.level_facts(py, ci, meth)
            where = py.where(ci.module, ci.methods[meth])
            if ci.name == 'InstantiationOptimizer':
                optimizer_rule(ctx, py, ci, mf, where)
            else:
                probs = []
                for rec in mf.paths:
                    calls = [s for s in rec['subcalls'] if s[0] == meth] + [s for s in rec['supers'] if s[0] == meth]
                    if len(calls) != 1:
                        probs.append(f'{len(calls)} calls of the next {meth}')
                ctx.ob('forwarding', f'{ci.name}.{meth}', not probs, '; '.join(probs), where)


def optimizer_rule(ctx, py, ci, mf, where):
    """returns BasicInterpreter(self.phase).<same method>(<same arguments>)"""
    want_args = tuple(('param', p) for p in mf.params)
    probs = []
    for rec in mf.paths:
        ret = rec['ret']
        ok = ret is not None and ret[0] == 'call' and ret[1][0] == 'attr' and ret[1][2] == mf.meth and ret[2] == want_args \
            and ret[1][1][0] == 'call' and ret[1][1][1] == ('name', 'BasicInterpreter')
        if not ok:
            probs.append(f'returns {show(ret) if ret else None} instead of BasicInterpreter(..).{mf.meth}({", ".join(mf.params)})')
        fwd = [s for s in rec['subcalls'] if s[0] == mf.meth]
        if any(s[1] != want_args for s in fwd):
            probs.append('forwards different arguments to the wrapped interpreter')
        LEN = ('call', ('name', 'len'), (('param', 'delta'),), ())

        def says_nonempty(c, b):
            # len(delta) / delta (truth value) holds; len(delta) == 0 / not delta refuted; len(delta) != 0 / > 0 / >= 1 holds
            if c in (LEN, ('param', 'delta')):
                return b is True
            if isinstance(c, tuple) and c[:1] == ('cmp',) and len(c) == 4 and c[2] == LEN and c[3][0] == 'const':
                op, k = c[1], c[3][1]
                if (op, k) in (('==', 0), ('<=', 0), ('<', 1)):
                    return b is False
                if (op, k) in (('!=', 0), ('>', 0), ('>=', 1)):
                    return b is True
            if isinstance(c, tuple) and c[:2] == ('unop', 'Not') and c[2] in (LEN, ('param', 'delta')):
                return b is False
            return False
        nonempty = any(says_nonempty(c, b) for c, b in rec['conds'])
        if fwd and not nonempty:
            probs.append('forwards without testing that the map is non-empty')
        if nonempty and len(fwd) != 1:
            probs.append(f'forwards {len(fwd)} times for a non-empty map: the wrapped interpreter must see the instantiation exactly once')
    if not any(s_[0] == mf.meth for rec in mf.paths for s_ in rec['subcalls']):
        probs.append('never forwards: the wrapped interpreter does not see an instantiation with a non-empty map')
    ctx.ob('forwarding', f'{ci.name}.{mf.meth}', not probs, '; '.join(probs), where)


def thunk_call(ctx, py: PyRepo):
    fn = py.method('ProofThunk', '__call__')
    where = py.where('proof', fn)
    from ..core.pyfacts import self_method_resolver
    ev = PyEval(resolver=self_method_resolver(py, py.cls('ProofThunk'), SELF))
    rets = [p for p in ev.paths(fn) if p.end[0] == 'return']
    ok = bool(rets)
    for p in rets:
        v = p.end[1]
        dyn = ('attr', v, 'conclusion')
        static = ('attr', SELF, 'conc')
        ok = ok and any(b is True and c[0] == 'cmp' and c[1] == '==' and {c[2], c[3]} == {dyn, static} for c, b in p.conds)
        ok = ok and v == ('call', ('attr', SELF, '_expr'), (('param', 'interpreter'),), ())
    ctx.ob('thunk-check', 'ProofThunk.__call__', ok,
           'ProofThunk.__call__ must return the value of self._expr(interpreter) only after asserting that its conclusion equals self.conc',
           where)
    # conc is assigned only in __init__
    ci = py.cls('ProofThunk')
    writers = []
    for mname, mi in py.modules.items():
        for node in ast.walk(mi.tree):
            if isinstance(node, (ast.Assign, ast.AugAssign, ast.AnnAssign)):
                tgts = node.targets if isinstance(node, ast.Assign) else [node.target]
                for t in tgts:
                    if isinstance(t, ast.Attribute) and t.attr == 'conc':
                        writers.append((mname, enclosing(mi.tree, node)))
    ctx.ob('thunk-check', 'conc-immutable', set(writers) <= {('proof', '__init__')},
           f'ProofThunk.conc is assigned outside its constructor: {sorted(set(writers))}', py.where('proof', ci.node))


def static_vs_dynamic(ctx, py: PyRepo, w: Wiring):
    """the static conclusion each ProofExp primitive advertises equals what BasicInterpreter returns for premises with those conclusions"""
    ev = PyEval()

    def norm(v):
        # ProofThunk.conc and Proved.conclusion denote the same thing
        if isinstance(v, tuple) and v:
            if v[0] == 'attr' and v[2] in ('conc', 'conclusion'):
                return ('concl', norm(v[1]))
            if v[0] == 'call' and v[1] == ('name', 'Proved') and len(v[2]) == 1:
                return norm(v[2][0])
            if v[0] == 'name' and v[1] in ('phi0', 'phi1', 'phi2'):
                return ('call', ('name', 'MetaVar'), (('const', int(v[1][3])),), ())
            return tuple(norm(x) if isinstance(x, tuple) else x for x in v)
        return v

    pairs = {'modus_ponens': 'modus_ponens', 'exists_generalization': 'exists_generalization', 'instantiate': 'instantiate',
             'prop1': 'prop1', 'prop2': 'prop2', 'prop3': 'prop3', 'exists_quantifier': 'exists_quantifier'}
    for pm, bm in pairs.items():
        fn = py.method('ProofExp', pm)
        where = py.where('proof', fn)
        from ..core.wiring import canon_components
        static = None
        for p in ev.paths(fn):
            if p.end[0] == 'return' and p.end[1][0] == 'call' and p.end[1][1] == ('name', 'ProofThunk') and len(p.end[1][2]) == 2:
                static = canon_components(p.end[1][2][1], p.conds, py)
        mf = PM.level_facts(py, w.basic, bm)
        dyn = [canon_components(rec['ret'], rec['conds'], py) for rec in mf.paths
               if rec['ret'] is not None and rec['ret'] != ('param', 'proved')]
        # ... for the premises the thunk actually hands over: the call inside the thunk passes, for every parameter of
        # BasicInterpreter.<bm>, the same-named argument of the primitive (a premise thunk applied to the interpreter, or the value)
        bparams = [a.arg for a in mf.node.args.args[1:]]
        lam_ok, lam_why = None, ''
        for p in ev.paths(fn):
            if p.end[0] == 'return' and p.end[1][0] == 'call' and p.end[1][1] == ('name', 'ProofThunk') and len(p.end[1][2]) == 2 \
                    and p.end[1][2][0][0] == 'lambda' and len(p.end[1][2][0][1]) == 1:
                iv = ('bound', p.end[1][2][0][1][0])
                body = p.end[1][2][0][2]
                if body[0] == 'call' and body[1] == ('attr', iv, bm) and not body[3]:
                    got = []
                    for a in body[2]:
                        if a[0] == 'param':
                            got.append(a[1])
                        elif a[0] == 'call' and a[1][0] == 'param' and a[2] == (iv,):
                            got.append(a[1][1])
                        else:
                            got.append(None)
                    lam_ok = got == bparams
                    lam_why = f'the thunk calls interpreter.{bm}({", ".join(str(g) for g in got)}) for the parameters ({", ".join(bparams)})'
                else:
                    lam_ok, lam_why = False, f'the thunk does not call interpreter.{bm}(..)'
        if lam_ok is not None:
            ctx.ob('static-conclusion', f'{pm}/premises-in-order', lam_ok,
                   f'ProofExp.{pm}: {lam_why} - the conclusion advertised is computed for other premises than the ones interpreted',
                   where)
        ok = static is not None and bool(dyn) and all(_same_term(w, norm(static), norm(d)) for d in dyn)
        ctx.ob('static-conclusion', pm, ok,
               f'ProofExp.{pm} advertises {show(static) if static else None} but BasicInterpreter.{bm} returns '
               f'{[show(d) for d in dyn]}', where, facts={'static': show(static) if static else None, 'dynamic': [show(d) for d in dyn]})
    # dynamic_inst: pf.conc.instantiate(delta) (identity for the empty map); load_axiom: the axiom; publish_proof: proved.conc
    fn = py.method('ProofExp', 'dynamic_inst')
    ok = False
    for p in ev.paths(fn):
        if p.end[0] == 'return' and p.end[1][0] == 'call' and p.end[1][1] == ('name', 'ProofThunk'):
            ok = p.end[1][2][1] == ('call', ('attr', ('attr', ('param', 'pf'), 'conc'), 'instantiate'), (('param', 'delta'),), ())
    ctx.ob('static-conclusion', 'dynamic_inst', ok, 'dynamic_inst must advertise pf.conc.instantiate(delta)', py.where('proof', fn))
    fn = py.method('ProofExp', 'load_axiom')
    ok = any(p.end[0] == 'return' and p.end[1][0] == 'call' and p.end[1][2][1] == ('param', 'axiom_term')
             and any(c == ('cmp', 'in', ('param', 'axiom_term'), ('attr', SELF, '_axioms')) and b is True for c, b in p.conds)
             for p in ev.paths(fn))
    ctx.ob('static-conclusion', 'load_axiom', ok, 'load_axiom must advertise the axiom and require it to be declared', py.where('proof', fn))
    fn = py.method('ProofExp', 'publish_proof')
    ok = any(p.end[0] == 'return' and p.end[1][0] == 'call' and p.end[1][2][1] == ('attr', ('param', 'proved'), 'conc')
             for p in ev.paths(fn))
    ctx.ob('static-conclusion', 'publish_proof', ok, 'publish_proof must advertise proved.conc', py.where('proof', fn))
    # the thunks written as nested functions perform the interpreter call they stand for, on every path
    for pm, meth, nargs in (('publish_proof', 'publish_proof', 1), ('load_axiom', 'load', 2)):
        fn = py.method('ProofExp', pm)
        inner = [g for g in fn.body if isinstance(g, ast.FunctionDef) and len(g.args.args) == 1]
        if len(inner) != 1:
            continue
        iv = inner[0].args.args[0].arg
        good = True
        n_paths = 0
        for sp in __import__('sa.core.astpaths', fromlist=['paths']).paths(inner[0].body):
            if sp.end == 'raise':
                continue
            n_paths += 1
            calls = [c for a in sp.actions for c in ast.walk(a) if isinstance(c, ast.Call) and isinstance(c.func, ast.Attribute)
                     and c.func.attr == meth and isinstance(c.func.value, ast.Name) and c.func.value.id == iv and len(c.args) == nargs]
            good = good and len(calls) == 1
        ctx.ob('static-conclusion', f'{pm}/thunk-performs-the-call', good and n_paths >= 1,
               f'the thunk of ProofExp.{pm} must call interpreter.{meth}(..) exactly once on every path: otherwise the step is advertised '
               f'but not performed', py.where('proof', inner[0]))


def _same_term(w: Wiring, a, b) -> bool:
    if a == b:
        return True
    try:
        ta = w.N.term(a, 'proof', _LeafEnv())
        tb = w.N.term(b, 'proof', _LeafEnv())
        return ta == tb
    except Exception:  # noqa: BLE001 - not comparable as terms
        return False


class _LeafEnv(dict):
    """treat everything that is not a constructor / notation call as an opaque leaf"""

    def __contains__(self, v):
        if isinstance(v, tuple) and v:
            if v[0] == 'component':
                return True
            if v[0] == 'call' and v[1][0] == 'name':
                return False
            if v[0] in ('const',):
                return False
            if v[0] == 'name' and v[1] in ('phi0', 'phi1', 'phi2'):
                return False
            return True
        return False

    def __getitem__(self, v):
        return ('leaf', v)


def ctor_forwarding(ctx, py):
    """an interpreter class that refines the constructor hands each of its own parameters to the parent's parameter of the SAME
    name (positionally or by keyword): `super().__init__(phase, out, claims, proof_out, claim_out)` writes the claims into the proof
    stream and the proof into the claim stream although every call still type-checks"""
    n = 0
    for mi in py.modules.values():
        for ci in mi.classes.values():
            chain = py.mro(ci)
            if not any(c.name == 'Interpreter' for c in chain) or '__init__' not in ci.methods:
                continue
            fn = ci.methods['__init__']
            own = [a.arg for a in fn.args.args[1:] + fn.args.kwonlyargs]
            parent = next((c for c in chain[1:] if '__init__' in c.methods), None)
            if parent is None:
                continue
            pparams = [a.arg for a in parent.methods['__init__'].args.args[1:]]
            for call in [c for c in ast.walk(fn) if isinstance(c, ast.Call) and isinstance(c.func, ast.Attribute) and c.func.attr == '__init__'
                         and isinstance(c.func.value, ast.Call) and isinstance(c.func.value.func, ast.Name) and c.func.value.func.id == 'super']:
                if any(isinstance(a, ast.Starred) for a in call.args) or any(k.arg is None for k in call.keywords):
                    continue
                got = dict(zip(pparams, call.args))
                got.update({k.arg: k.value for k in call.keywords})
                wrong = [f'`{q}` receives `{ast.unparse(v)}`' for q, v in got.items()
                         if isinstance(v, ast.Name) and v.id in own and q in own and v.id != q]
                n += 1
                ctx.ob('override-chain', f'{ci.name}.__init__/forwards-by-name', not wrong,
                       f'{ci.name}.__init__ hands its parameters to {parent.name}.__init__ under other names: ' + '; '.join(wrong)
                       + ' - the streams / state the interpreter was given are exchanged', py.where(ci.module, call))
    ctx.require(n >= 3, 'anchor vanished: interpreter constructors that call super().__init__')


def walk_order(ctx, py, w):
    """Interpreter.pattern pushes the operands of a constructor by interpreting the sub-patterns; the ORDER of those recursive calls
    is the order of the stack slots the tracking interpreters check (`expected_x = self.stack[-k]`).  The conclusion-only
    interpreter has no stack and accepts any order, so a wrong order makes the interpreters disagree on success."""
    from ..core.pyeval import PyEval, show
    fn = py.method('Interpreter', 'pattern', 'interpreter')
    where = py.where('interpreter', fn)
    SELF = ('param', 'self')
    n_arms = 0
    for p in PyEval().paths(fn):
        if p.end[0] != 'return' or p.end[1][0] != 'call' or p.end[1][1][0] != 'attr' or p.end[1][1][1] != SELF:
            continue
        meth, args = p.end[1][1][2], p.end[1][2]
        st = PM.level_facts(py, w.stateful, meth)
        if st is None:
            continue
        params = [a.arg for a in st.node.args.args[1:]]
        slot_of, run_of = {}, {}
        for rec in st.paths:
            for a, b in rec['binds']:
                for x, y in ((a, b), (b, a)):
                    if x[0] == 'slot' and y[0] == 'param':
                        slot_of[y[1]] = x[1]
                    if x[0] == 'run':
                        for q in params:
                            if ('param', q) in _flat(y):
                                run_of[q] = x
        recs, loops = [], []
        for i, e in enumerate(p.events):
            if e.kind == 'ecall' and e.value[0] == 'call' and e.value[1] == ('attr', SELF, 'pattern'):
                recs.append((i, e.value))
            if e.kind == 'loop':
                loops.append((i, e))
        n = len(recs)
        probs = []
        for q, a in zip(params, args):
            if q in slot_of:
                idx = [j for j, (_i, v) in enumerate(recs) if v == a]
                if not idx:
                    continue                   # not built by the walker in this arm (scalar operand)
                got = n - idx[0]
                if got != slot_of[q]:
                    probs.append(f'`{q}` is interpreted {_ord(idx[0] + 1)} of {n} and so lands {_ord(got)} from the top, the tracking '
                                 f'interpreters expect it {_ord(slot_of[q])} from the top')
            if q in run_of:
                good = [1 for i, e in loops if e.value[2] == ('call', ('attr', a, 'values'), (), ()) and (not recs or i < recs[0][0])
                        and any(ev.kind == 'ecall' and ev.value[0] == 'call' and ev.value[1] == ('attr', SELF, 'pattern')
                                for sp in e.extra for ev in sp.events)]
                if not good or n != 1:
                    probs.append(f'the values of `{q}` must be interpreted, in map order, before the pattern they are plugged into')
        n_arms += 1
        ctx.ob('walk-order', f'pattern/{meth}', not probs,
               f'Interpreter.pattern, {meth} arm: ' + '; '.join(probs) + ' - interpreters without a stack accept the call, the tracking ones '
               f'raise', where, facts={'order': [show(v)[:40] for _i, v in recs], 'tracker slots': slot_of})
    # ... and what is rebuilt is the pattern itself: the conclusion-only interpreter's method builds C(c_1 .. c_k) from its
    # parameters; with the arguments the walker passes (a recursive `self.pattern(x)` rebuilds x - induction) every component must be
    # the same-named field of the pattern walked.  A swap of two scalar operands of one arm (the positive / negative lists of a
    # metavariable) publishes another pattern than the one declared although every interpreter accepts the call.
    P = ('param', fn.args.args[1].arg)
    basic = py.cls('BasicInterpreter')
    n_rebuilt = 0

    def strip_walk(v):
        if isinstance(v, tuple) and len(v) >= 3 and v[0] == 'call' and v[1] == ('attr', SELF, 'pattern') and len(v[2]) == 1:
            return v[2][0]
        return v

    def subst(v, table):
        if isinstance(v, tuple) and len(v) == 2 and v[0] == 'param' and v[1] in table:
            return table[v[1]]
        if isinstance(v, tuple):
            return tuple(subst(x, table) if isinstance(x, tuple) else x for x in v)
        return v

    for p in PyEval().paths(fn):
        if p.end[0] != 'return' or p.end[1][0] != 'call' or p.end[1][1][0] != 'attr' or p.end[1][1][1] != SELF:
            continue
        meth, args = p.end[1][1][2], p.end[1][2]
        subj = [c[2][1][1] for c, b in p.conds if b and c[0] == 'call' and c[1] == ('name', 'isinstance') and c[2][0] == P and c[2][1][0] == 'name']
        if len(subj) != 1 or meth not in basic.methods:
            continue
        bm = basic.methods[meth]
        bparams = [a.arg for a in bm.args.args[1:]]
        rets = [q.end[1] for q in PyEval().paths(bm) if q.end[0] == 'return']
        built = [r for r in rets if r[0] == 'call' and r[1] == ('name', subj[0]) and not r[3]]
        ci_ = py.find_class(subj[0], 'pattern')
        if len(rets) != 1 or len(built) != 1 or ci_ is None or len(bparams) != len(args):
            continue
        fields = [f for f, _t in ci_.fields]
        table = {q: strip_walk(a) for q, a in zip(bparams, args)}
        probs = []
        for j, c_ in enumerate(built[0][2]):
            if j >= len(fields):
                break
            v = subst(c_, table)
            want = ('attr', P, fields[j])
            wrapped = v[0] == 'call' and v[1][0] == 'name' and v[1][1] in ('EVar', 'SVar') and len(v[2]) == 1 and v[2][0] == ('attr', want, 'name')
            # frozendict(m) of a map m is that map (value equality)
            remapped = v[0] == 'call' and v[1] == ('name', 'frozendict') and v[2] == (want,) and not v[3]
            if v != want and not wrapped and not remapped:
                probs.append(f'component `{fields[j]}` of the rebuilt {subj[0]} is `{show(v)[:50]}`')
        n_rebuilt += 1
        ctx.ob('walk-order', f'pattern/{meth}/rebuilds-the-pattern', not probs,
               f'Interpreter.pattern, {meth} arm: ' + '; '.join(probs) + f' - what is interpreted (and published) is not the {subj[0]} that '
               f'was declared', where)
    ctx.require(n_rebuilt >= 6, 'Interpreter.pattern: the arms that rebuild a constructor from its own fields were not recognised')
    ctx.floor('walk-order', 8)


def _flat(v):
    out = [v]
    if isinstance(v, tuple):
        for x in v:
            if isinstance(x, tuple):
                out.extend(_flat(x))
    return out


def _ord(k: int) -> str:
    return {1: '1st', 2: '2nd', 3: '3rd'}.get(k, f'{k}th')


def super_calls_same_method(ctx, py):
    """every interpreter class that refines an interpreter call through `super()` must call the SAME method with its own
    parameters in order: an override that delegates to a sibling method (ssubst -> super().esubst) gives that one interpreter a
    different meaning from all the others"""
    base = py.cls('Interpreter', 'interpreter')
    n = 0
    for ci in py.subclasses(base):
        for mname, fn in ci.methods.items():
            if mname not in PM.INTERP_METHODS:
                continue
            params = [a.arg for a in fn.args.args[1:]]
            # the super() calls this method makes, read off its value paths (a parent method handed to a private helper of the class -
            # `self._bind(super().exists, ..)` - is called inside the helper and counts as called here)
            found = None
            try:
                mf = PM.level_facts(py, ci, mname)
                found = []
                for rec in mf.paths + mf.raises:
                    for sname, sargs, skw in rec['supers']:
                        if sname in PM.INTERP_METHODS and (sname, sargs, skw) not in [f[:3] for f in found]:
                            found.append((sname, sargs, skw, rec['node'] or fn))
            except AnalysisError:
                found = None
            if found is not None:
                from ..core.pyeval import show as _show
                for sname, sargs, skw, node in found:
                    n += 1
                    got = list(sargs) + [None] * max(0, len(params) - len(sargs))
                    kw_ok = True
                    for k, v in skw:
                        if k in params:
                            got[params.index(k)] = v
                        else:
                            kw_ok = False
                    ok = sname == mname and kw_ok and tuple(got) == tuple(('param', p_) for p_ in params)
                    # def m(self, *args, **kwargs): super().m(*args, **kwargs) forwards everything it was given
                    va, ka = fn.args.vararg, fn.args.kwarg
                    if not params and va is not None and ka is not None and sname == mname \
                            and tuple(sargs) in ((('star', ('param', va.arg)),), (('star', ('param', '*' + va.arg)),)) \
                            and tuple(skw) in (((None, ('param', ka.arg)),), ((None, ('param', '**' + ka.arg)),)):
                        ok = True
                    ctx.ob('super-same-method', f'{ci.name}.{mname}', ok,
                           f'{ci.name}.{mname} delegates to super().{sname}({", ".join(_show(a) for a in sargs)}); an interpreter refines a call '
                           f'by calling the same method of its parent with the same arguments ({mname}({", ".join(params)}))',
                           py.where(ci.module, node if isinstance(node, ast.AST) else fn))
                continue
            for node in ast.walk(fn):
                if isinstance(node, ast.Call) and isinstance(node.func, ast.Attribute) and isinstance(node.func.value, ast.Call) \
                        and isinstance(node.func.value.func, ast.Name) and node.func.value.func.id == 'super' and node.func.attr in PM.INTERP_METHODS:
                    n += 1
                    args = [ast.unparse(a) for a in node.args] + [f'{k.arg}={ast.unparse(k.value)}' for k in node.keywords]
                    want_pos = params[:len(node.args)]
                    kw_ok = all(k.arg in params and ast.unparse(k.value) == k.arg for k in node.keywords)
                    ok = node.func.attr == mname and [ast.unparse(a) for a in node.args] == want_pos and kw_ok \
                        and len(node.args) + len(node.keywords) == len(params)
                    ctx.ob('super-same-method', f'{ci.name}.{mname}', ok,
                           f'{ci.name}.{mname} delegates to super().{node.func.attr}({", ".join(args)}); an interpreter refines a call by calling '
                           f'the same method of its parent with the same arguments ({mname}({", ".join(params)}))', py.where(ci.module, node))
    ctx.analysed['super() delegations of interpreter calls'] = n
    ctx.floor('super-same-method', 60)


def tracker_compares_structurally(ctx, py, w):
    """the tracking interpreters check that the caller's terms are the tracked ones with `==` (structural, sees through notation);
    an identity test accepts strictly fewer calls than the other interpreters do (equal terms built twice, e.g. by a transformer)"""
    n = 0
    for ci in [w.stateful] + py.subclasses(w.stateful):
        for mname, fn in ci.methods.items():
            for node in ast.walk(fn):
                if isinstance(node, ast.Compare):
                    n += 1
                    for op, rhs in zip(node.ops, node.comparators):
                        if isinstance(op, (ast.Is, ast.IsNot)) and not any(
                                isinstance(x, ast.Constant) and x.value in (None, True, False) for x in (node.left, rhs)):
                            ctx.ob('tracker-compares-structurally', f'{ci.name}.{mname}', False,
                                   f'{ci.name}.{mname} compares terms by identity (`{ast.unparse(node)[:70]}`): two equal terms that are '
                                   f'distinct objects (rebuilt by a transformer, shared dict updated in between) are rejected here and '
                                   f'accepted by every interpreter that compares with ==', py.where(ci.module, node))
    ctx.ob('tracker-compares-structurally', 'scan', True, f'{n} comparisons examined', '')


def run(ctx):
    py = PyRepo.get()
    w = Wiring(py)
    proved_confinement(ctx, py)
    transformer_forwards(ctx, py)
    thunk_call(ctx, py)
    static_vs_dynamic(ctx, py, w)
    # sibling guards: methods that slice the tracked stack by len(delta) must treat the empty map alike
    for meth in ('instantiate', 'instantiate_pattern'):
        mf = PM.level_facts(py, w.stateful, meth)
        guarded = all(rec['n'] is None or any((c == ('call', ('name', 'len'), (('param', 'delta'),), ()) or c == ('param', 'delta'))
                                               and b is True for c, b in rec['conds']) for rec in mf.paths)
        ctx.ob('sibling-guard', f'StatefulInterpreter.{meth}', guarded,
               f'StatefulInterpreter.{meth} slices by -len(delta) without the empty-map guard its siblings '
               f'(BasicInterpreter.instantiate, InstantiationOptimizer) have: instantiate(pf, {{}}) succeeds under the conclusion-only '
               f'interpreter and trips the tracker', py.where(w.stateful.module, mf.node))
    walk_order(ctx, py, w)
    ctor_forwarding(ctx, py)
    tracker_compares_structurally(ctx, py, w)
    # the serialising interpreter (plain or under the memoiser) means the same as the others only if what it writes is what the
    # checker reads: the Instantiate operands pair id i with plug i, and the memoiser never needs a slot a one-byte operand cannot
    # address (shared with C02)
    from ..core import machine as M
    from ..core.rustfacts import Rust
    from . import c02, c05
    r = Rust.get()
    arms = M.rust_arms(r)
    py_ops = c02.py_opcodes(py)
    dec = c05.decode_table(r)
    for meth in ('instantiate', 'instantiate_pattern'):
        c02.method_row(ctx, w, meth, arms, py_ops, dec)
    c02.slot_budget(ctx, py)
    super_calls_same_method(ctx, py)
    # the stateful interpreters only accept a Load of something published or saved before: the gamma phase must publish the axioms
    # of ALL imported modules (to any depth) or a proof that the conclusion-only interpreter accepts trips every tracker (shared
    # with C03); and the pretty printer's step decorator must hand the call on to the next implementation with the same arguments
    # (shared with C07) - through `super(<the class>, self)`, not `super(type(self), self)`, which recurses under a subclass
    from . import c03, c07
    c03.loop_shape(ctx, py)
    ctx.ob('override-chain', 'pretty-decorator-forwards', c07.pretty_decorator_forwards(py),
           'the @pretty decorator does not return the value of the next implementation (super(PrettyPrintingInterpreter, self)) called with '
           'the same arguments: the pretty-printing interpreter (or a subclass of it) means something else than the others',
           py.where('pretty_printing_interpreter', py.cls('PrettyPrintingInterpreter').node))
    # an interpreter whose state is shared between its instances behaves differently from the others once a second instance
    # exists (its symbol numbering / memory continues): the instance state of every interpreter class is per instance
    from .c18 import shared_class_state
    base = py.cls('Interpreter', 'interpreter')
    names = {c.name for c in py.subclasses(base)} | {'Interpreter'}
    for mname, c, attr, node in shared_class_state(py, names):
        ctx.ob('instance-state', f'{c.name}.{attr}', False,
               f'{c.name}.{attr} is a class-level mutable object mutated through instances: every {c.name} in the process shares it, so a '
               f'fresh {c.name} continues where the previous one stopped while the other interpreters start clean', py.where(mname, node))
    ctx.ob('instance-state', 'scan', True, f'{len(names)} interpreter classes examined', '')
    ctx.floor('proved-confinement', 10)
    ctx.floor('forwarding', 26)
    ctx.floor('static-conclusion', 9)
    ctx.explanation = (
        'Conclusions have one source (Proved is constructed only in the rule methods of BasicInterpreter and the listed DSL entry points); '
        'InterpreterTransformer implements every abstract interpreter method by exactly one call of the same method of the wrapped '
        'interpreter with the same arguments and returns its value; the instantiation optimiser returns what BasicInterpreter returns on '
        'the same arguments; ProofThunk.__call__ returns only after asserting dynamic == static conclusion and conc is never reassigned; '
        'every ProofExp primitive advertises the term BasicInterpreter computes; methods slicing by len(delta) share the empty-map guard. '
        'Joint behaviour of stacked interpreters on concrete expressions is not observed.')
    ctx.assumptions = ['override chain of the stateful interpreters (C07), effect tables (C04)', 'python ast']
