"""C06 - freshness / positivity judgements are sound for every instantiation.

Per-arm soundness by structural induction: each match arm of the four Rust
judgement functions and each `evar_is_free` of the Python pattern classes is
extracted as a decision function and must imply the weakest sound condition of
its constructor (spec/judgements.py, table 2.1) on every valuation of its atoms.
"""
from __future__ import annotations

import ast

from ..core import decide, pypattern
from ..core.pyfacts import PyRepo
from ..core.rustfacts import Rust, arms_of, judgement_df
from ..spec import judgements as S

LEVEL = 'proof'


def _val_show(val):
    return ', '.join(f'{decide.a_show(k)}={v}' for k, v in val.items())


def rust_half(ctx, r: Rust):
    n_atoms = 0
    for j in S.JUDGEMENTS:
        short = 'Pattern::' + j
        arms = arms_of(r, short)
        where = r.line_of(short)
        missing = [v for v in S.VARIANTS if v not in arms]
        extra = [v for v in arms if v not in S.VARIANTS and v != '_']
        ctx.require(not extra, f'{short}: constructor(s) {extra} unknown to the soundness table')
        for v in S.VARIANTS:
            if v in missing:
                # handled by the catch-all arm: evaluate the catch-all as this constructor's arm
                if '_' not in arms or any(p.end != 'return' for p in arms['_']):
                    ctx.ob('sound-arm', f'rust/{j}/{v}', False, 'no arm and no returning catch-all', where)
                    continue
                paths = arms['_']
            else:
                paths = arms[v]
            df = judgement_df(r, short, v, paths)
            spec = S.SOUND[(v, j)]
            ctx.require(decide.monotone(spec, S.exact), f'spec entry {(v, j)} is not monotone')
            cex, n = decide.implies(df, spec, S.closure, S.consistent)
            doms = df.domains()
            n_atoms = max(n_atoms, len(doms))
            ctx.ob('sound-arm', f'rust/{j}/{v}', cex is None,
                   '' if cex is None else f'arm answers true although the sound condition {decide.f_show(spec)} fails at {_val_show(cex)}',
                   where, facts={'arm': [(list(map(str, c)), str(res)) for c, res in df.outcomes],
                                 'spec': decide.f_show(spec), 'valuations': n},
                   nontrivial=len(doms) > 0)
    ctx.analysed['rust judgement arms'] = ctx.count('sound-arm')
    ctx.analysed['max atoms per arm'] = n_atoms


def python_half(ctx, py: PyRepo):
    # a judgement written as a loop over an explicit work list is read as the recursion it computes (core/pynormal.py); that reading
    # is exact unless the loop returns the final answer early - which answers for every node still on the list
    for mod, cname, meth, node in getattr(py, 'early_accepts', []):
        if meth == 'evar_is_free':
            ctx.ob('sound-arm', f'python/evar_is_free/{cname}@early-accept', False,
                   f'{cname}.evar_is_free walks the pattern with an explicit work list and returns "fresh" from inside the loop '
                   f'(line {getattr(node, "lineno", "?")}): that answers for the whole pattern although sibling subpatterns are still on the '
                   f'list - a free occurrence waiting there is never inspected (inside a recursion the same `return` would only answer for '
                   f'the subpattern; here it has to be `continue`)', py.where(mod, node))
    classes = pypattern.pattern_classes(py)
    names = [c.name for c in classes]
    for c in classes:
        ctx.require(c.name in S.VARIANTS or c.name == 'Instantiate',
                    f'Pattern subclass {c.name} is unknown to the soundness table')
        if 'evar_is_free' not in c.methods:
            inherited = py.find_method(c, 'evar_is_free')
            stub = inherited is None or all(isinstance(st, (ast.Raise, ast.Pass)) or (isinstance(st, ast.Expr) and isinstance(st.value, ast.Constant))
                                            for st in inherited[1].body)
            # implemented once for all constructors in a form that cannot be split per constructor (e.g. an explicit work list):
            # its soundness is a loop invariant, which this analysis does not establish - undecided, not a violation
            ctx.require(stub, f'{c.name}.evar_is_free is inherited from {inherited[0].name if inherited else "?"}, which implements the judgement '
                              f'for all constructors in one function that cannot be specialised per constructor; the per-arm soundness argument does not apply')
            ctx.ob('sound-arm', f'python/evar_is_free/{c.name}', False, 'class does not define evar_is_free',
                   py.where(c.module, c.node))
            continue
        where = py.where(c.module, c.methods['evar_is_free'])
        df = pypattern.bool_method_df(py, c.name, 'evar_is_free')
        if c.name == 'Instantiate':
            spec = S.INSTANTIATE_SOUND
            cex, n = decide.implies(df, spec, S.closure_py, S.consistent_py)
        else:
            spec = S.SOUND[(c.name, 'e_fresh')]
            cex, n = decide.implies(df, spec, S.closure, S.consistent)
        ctx.ob('sound-arm', f'python/evar_is_free/{c.name}', cex is None,
               '' if cex is None else f'answers "fresh" although the sound condition {decide.f_show(spec)} fails at {_val_show(cex)}',
               where, facts={'body': [(list(map(str, cnd)), str(res)) for cnd, res in df.outcomes],
                             'spec': decide.f_show(spec), 'valuations': n},
               nontrivial=len(df.domains()) > 0)
    for v in S.VARIANTS + ['Instantiate']:
        ctx.require(v in names, f'anchor vanished: pattern class {v}')


def run(ctx):
    r = Rust.get()
    py = PyRepo.get()
    rust_half(ctx, r)
    python_half(ctx, py)
    ctx.floor('sound-arm', 51)
    ctx.explanation = (
        'Per-arm soundness of e_fresh/s_fresh/positive/negative (Rust, from MIR paths) and evar_is_free (Python, from ast paths): '
        'each arm is a decision function over atoms (child judgements, equalities, constraint-list membership) and is shown to imply '
        'the weakest sound condition of its constructor on all valuations; with well-formedness at construction and constraint checks '
        'at instantiation (C01 S2/S4) this is the induction step of the soundness proof for all meta-patterns and instantiations.')
    ctx.trusted_base = ['spec/judgements.py table SOUND and its derivation (DESIGN.md 2.1)', 'structural induction over patterns',
                        'rustc MIR is a faithful rendering of rust/src/lib.rs', 'python ast']
    ctx.assumptions = ['metavariable constraints are enforced at instantiation (decided under C01 S4)',
                       'ESubst/SSubst/Mu are checked well-formed when constructed (C01 S2)',
                       'substitution is capture-avoiding (C01 S3)']
