"""C10 - every derived rule proves exactly its advertised schema (modular schema type-checking)."""
from __future__ import annotations

import ast

from ..core import schema as S
from ..core.pyfacts import PyRepo
from ..spec.lemmas import CHECKABLE

LEVEL = 'proof'

LEMMA_CLASSES = ['Propositional', 'Tautology']
ALLOWED_PRIMITIVES = {'prop1', 'prop2', 'prop3', 'modus_ponens', 'dynamic_inst', 'instantiate', 'load_axiom',
                      'load_axiom_by_index'}
OTHER_RULES = {'exists_quantifier', 'exists_generalization', 'publish_proof'}


def lemma_schemas(ctx, py):
    """the lemma-schema obligations alone (also composed into C09: the prover's stages are typed against these schemas)"""
    sc = S.SchemaChecker(py, LEMMA_CLASSES)
    for name, lem in sc.lemmas.items():
        fn = lem.fn
        if not (fn.returns is not None and ast.unparse(fn.returns) == 'ProofThunk'):
            continue
        where = py.where(lem.owner.module, fn)
        try:
            sc.check(name, lem.owner.name)
            ctx.ob('lemma-schema', name, True, '', where)
        except S.Violation as v:
            ctx.ob('lemma-schema', name, False, str(v), where)
        except S.Decline:
            pass


def run(ctx):
    py = PyRepo.get()
    sc = S.SchemaChecker(py, LEMMA_CLASSES)
    checked = 0
    broken: list[str] = []
    for name, lem in sc.lemmas.items():
        fn = lem.fn
        if not (fn.returns is not None and ast.unparse(fn.returns) == 'ProofThunk'):
            continue
        where = py.where(lem.owner.module, fn)
        try:
            n = sc.check(name, lem.owner.name)
            checked += 1
            prems, concl = lem.schemas[0]
            ctx.ob('lemma-schema', name, True, '', where,
                   facts={'premises': [S.tshow(p) for p in prems], 'conclusion': S.tshow(concl), 'alternatives': n})
        except S.Violation as v:
            ctx.ob('lemma-schema', name, False, str(v), where)
        except S.Decline as d:
            if name in CHECKABLE:
                broken.append(f'lemma {name} was type-checked on the reference tree but is now outside the analysed subset: {d}')
            ctx.decline(name, str(d))
    missing = [n for n in CHECKABLE if n not in sc.lemmas]
    ctx.require(not missing, f'anchor vanished: reference lemmas {missing[:5]} no longer exist')
    # confinement 1: ProofThunk objects are built only by the proof DSL (proof.py)
    n_sites = 0
    for mname, mi in py.modules.items():
        for node in ast.walk(mi.tree):
            if isinstance(node, ast.Call) and isinstance(node.func, ast.Name) and node.func.id == 'ProofThunk':
                n_sites += 1
                ctx.ob('thunk-confinement', f'{mname}:{_enclosing(mi.tree, node)}', mname == 'proof',
                       f'{mname} constructs a ProofThunk directly (static conclusion not tied to a rule of the DSL)',
                       py.where(mname, node))
    ctx.analysed['ProofThunk construction sites'] = n_sites
    # confinement 2: the lemma classes use no primitive beyond the propositional rules and the module's axioms
    for cname in LEMMA_CLASSES:
        ci = py.cls(cname)
        for mname, fn in ci.methods.items():
            for node in ast.walk(fn):
                if isinstance(node, ast.Call) and isinstance(node.func, ast.Attribute) and isinstance(node.func.value, ast.Name) \
                        and node.func.value.id == 'self' and node.func.attr in OTHER_RULES and mname != '__init__':
                    ctx.ob('primitive-confinement', f'{cname}.{mname}/{node.func.attr}', False,
                           f'{cname}.{mname} uses the rule {node.func.attr}; the propositional libraries may use only '
                           f'{sorted(ALLOWED_PRIMITIVES)}', py.where(ci.module, node))
        ctx.ob('primitive-confinement', cname, True, 'only propositional primitives are reachable', py.where(ci.module, ci.node))
    build_subst_contract(ctx, py)
    # the resolution front-end advertises clause_conjunctionto_pattern(clauses): nesting of the conjunction of trivial-clause proofs
    from .c09 import conj_form_contract, fold_direction
    fold_direction(ctx, py)
    # to_conj_form advertises, for its two proofs, `input -> form` and `form -> input`: checked as the inductive step of its recursion
    conj_form_contract(ctx, py)
    nth_conjunct_contract(ctx, py)
    # the other derived rules of the tautology library return proofs too (pairs of implications between a form and its normal form,
    # a refutation from a clause list): their advertised conclusions are checked as inductive steps (shared with C09)
    from .c09 import clauses_stage_contract, form_stage_contract, resolution_contract, resolvable_contract
    form_stage_contract(ctx, py, 'propag_neg')
    form_stage_contract(ctx, py, 'to_cnf')
    clauses_stage_contract(ctx, py, max_k=8 if ctx.tier == 'thorough' else 4)
    resolution_contract(ctx, py)
    resolvable_contract(ctx, py)
    # a reference lemma that left the analysed subset fails the run closed - unless a violation already explains it
    if broken and not any(not o['ok'] for o in ctx.obligations):
        ctx.require(False, broken[0])
    ctx.floor('lemma-schema', 75)
    ctx.analysed['lemmas type-checked'] = checked
    ctx.analysed['axioms per class'] = {k: len(v) for k, v in sc.axioms.items()}
    ctx.explanation = (
        'Each lemma with a schema docstring is type-checked as a function from premise schemas to a conclusion schema: the body is '
        'evaluated symbolically on fresh constants standing for arbitrary argument patterns and arbitrary premise proofs of the '
        'documented shape; callee lemmas contribute their declared schema only (modular), primitives have built-in rules, notation is '
        'expanded from the definitions in pattern.py. By induction over the call graph every checked lemma proves exactly its docstring '
        'schema at all arguments, every assertion and modus ponens inside it succeeds for all such inputs, and only prop1-3, modus '
        'ponens, instantiation and declared axioms are used. Lemmas with run-time matching or loops are declined by name.')
    ctx.trusted_base = ['docstring grammar and parameter-binding convention (DESIGN.md C10)', 'built-in rules of the primitives '
                        '(modus_ponens, dynamic_inst as simultaneous instantiation, prop1-3 = spec/axioms.py)',
                        'replayed conclusion equals static conclusion (ProofThunk assertion, decided under C08)', 'python ast']
    ctx.assumptions = ['instantiation is simultaneous (C11)', 'notation expansion as read from pattern.py']


def nth_conjunct_contract(ctx, py):
    """conjunction_implies_nth(term, n, l) advertises `p0 /\\ (p1 /\\ (... /\\ p(l-1))) -> pn` for the conjunction of l conjuncts: the
    recursion must be driven by the COUNT l (a single conjunct may itself be a conjunction), and each step must be the inductive
    step: l = 1: the term implies itself; n = 0: the head; otherwise the projection of the tail composed with the tail's n-1."""
    from ..core import schema as S
    from ..core.pyeval import PyEval, show
    fn = py.method('Tautology', 'conjunction_implies_nth')
    where = py.where('tautology', fn)
    sc = S.SchemaChecker(py, LEMMA_CLASSES)
    N = sc.N
    names = [a.arg for a in fn.args.args[1:]]
    ctx.require(len(names) == 3, 'conjunction_implies_nth: signature changed')
    TERM, NN, LL = (('param', x) for x in names)
    SELF = ('param', 'self')

    def atom(x):
        return ('P', 'Symbol', ('str', '$' + x))

    H, T, P = atom('head'), atom('tail'), atom('pn')
    k = 0
    for p in PyEval().paths(fn):
        if p.end[0] != 'return':
            continue
        k += 1
        conds = {c: b for c, b in p.conds}
        single = None
        for c, b in p.conds:
            if c[0] == 'cmp' and c[1] == '==' and {c[2], c[3]} == {LL, ('const', 1)}:
                single = b
            if c[0] == 'cmp' and c[1] in ('>', '!=') and c[2] == LL and c[3] == ('const', 1):
                single = not b
        first = None
        for c, b in p.conds:
            if c[0] == 'cmp' and c[1] == '==' and {c[2], c[3]} == {NN, ('const', 0)}:
                first = b
        rv = p.end[1]
        tag = f'conjunction_implies_nth/path{k}'
        destructures = any(v[0] == 'call' and v[1] in (('attr', ('name', '_and'), 'assert_matches'), ('attr', ('name', '_and'), 'matches'))
                           for v in _walk_values(rv)) or any('_and' in repr(c) and 'matches' in repr(c) for c in conds)
        if single is None:
            ctx.ob('stage-contract', tag, False,
                   f'a path returns {show(rv)[:80]} without having decided whether the term is the LAST conjunct by the count `{names[2]}`: '
                   f'driving the recursion by the shape of the term takes a conjunct that is itself a conjunction apart', where)
            continue
        ov = {}
        try:
            if single:
                ty = S.Typer(sc, {names[0]: ('pat', P)}, 'conjunction_implies_nth', 'Tautology')
                got = ty.pf(rv)
                ctx.ob('stage-contract', tag, got == ('P', 'Implies', P, P) and not destructures,
                       f'with one conjunct left the result must be `term -> term`; it is {S.tshow(got)}', where)
                continue
            term_t = N.apply('_and', [H, T])
            rec = [v for v in _walk_values(rv) if v[0] == 'call' and v[1] == ('attr', SELF, 'conjunction_implies_nth')]
            for r in rec:
                ov[r] = ('pf', ('P', 'Implies', T, P))
            ty = S.Typer(sc, {names[0]: ('pat', term_t)}, 'conjunction_implies_nth', 'Tautology')
            ty.overrides = ov
            got = ty.pf(rv)
            if first:
                ok = got == ('P', 'Implies', term_t, H) and not rec
                why = f'for n = 0 the result must project the head: {S.tshow(("P", "Implies", term_t, H))}; it is {S.tshow(got)}'
            else:
                tail_val = None
                args_ok = len(rec) == 1 and len(rec[0][2]) == 3 and rec[0][2][1] == ('binop', 'Sub', NN, ('const', 1)) \
                    and rec[0][2][2] == ('binop', 'Sub', LL, ('const', 1))
                if rec:
                    tail_t = ty.pat(rec[0][2][0])
                    args_ok = args_ok and tail_t == T
                ok = got == ('P', 'Implies', term_t, P) and args_ok
                why = (f'for n > 0 the result must be `term -> pn` from the recursive call on (tail, n - 1, l - 1); it is {S.tshow(got)}'
                       + ('' if args_ok else f' and the recursive call is {show(rec[0])[:90] if rec else "missing"}'))
            ctx.ob('stage-contract', tag, ok, why, where)
        except S.Violation as v:
            ctx.ob('stage-contract', tag, False, f'does not type-check: {v}', where)
        except S.Decline as d:
            ctx.decline(tag, str(d))
    ctx.floor('stage-contract', 14)


def _walk_values(v):
    if isinstance(v, tuple) and v:
        yield v
        for x in v:
            if isinstance(x, tuple):
                yield from _walk_values(x)


def build_subst_contract(ctx, py):
    """the schema typing reads `_build_subst([a0, .., an])` as the simultaneous substitution phi_i := a_i.  That is what the helper
    computes iff it drops an entry only when it is the identity, i.e. when a_i is STRUCTURALLY the unconstrained metavariable
    MetaVar(i) (a constrained metavariable with the same id is a different pattern and must be substituted)."""
    from ..core.pyeval import PyEval, show
    fn = py.function('proofs.propositional', '_build_subst')
    where = py.where('proofs.propositional', fn)
    ctx.require(len(fn.args.args) == 1, '_build_subst: unexpected signature')
    PATS = ('param', fn.args.args[0].arg)

    def is_enum(v):
        return v[0] == 'call' and v[1] == ('name', 'enumerate') and v[2] == (PATS,)

    def identity_test(c, idx, pat):
        mv = ('call', ('name', 'MetaVar'), (idx,), ())
        return c[0] == 'cmp' and c[1] == '==' and {c[2], c[3]} == {mv, pat}

    n = 0
    from .c16 import returned_exprs
    rvs = [v for st, v in returned_exprs(fn) if st is fn.body[-1]]
    comp = rvs[0] if rvs and isinstance(rvs[0], ast.DictComp) else None
    if comp is not None:
        # {i: p for i, p in enumerate(pats) if p != MetaVar(i)}
        g = comp.generators[0]
        ok = len(comp.generators) == 1 and ast.unparse(g.iter) == f'enumerate({PATS[1]})' and isinstance(g.target, ast.Tuple) \
            and len(g.target.elts) == 2 and ast.unparse(comp.key) == ast.unparse(g.target.elts[0]) \
            and ast.unparse(comp.value) == ast.unparse(g.target.elts[1])
        i_, p_ = (ast.unparse(e) for e in g.target.elts) if ok else ('', '')
        filt_ok = all(ast.unparse(f) in (f'{p_} != MetaVar({i_})', f'MetaVar({i_}) != {p_}', f'not {p_} == MetaVar({i_})') for f in g.ifs)
        ctx.ob('helper-contract', '_build_subst', ok and filt_ok,
               f'_build_subst must map position i to the i-th pattern and may drop only entries equal to MetaVar(i); its comprehension '
               f'`{ast.unparse(comp)[:120]}` does something else', where)
        ctx.analysed['_build_subst loop paths'] = 1
        return
    for p in PyEval().paths(fn):
        loops = [e for e in p.events if e.kind == 'loop']
        good_shape = p.end[0] == 'return' and p.end[1][0] == 'dict' and len(loops) == 1 and is_enum(loops[0].value[2])
        ctx.require(good_shape, f'_build_subst: shape outside the analysed idioms (a loop over enumerate({PATS[1]}) filling a dict, or a '
                                f'dict comprehension)')
        elem = ('elem', loops[0].value[2])
        idx, pat = ('item', elem, 0), ('item', elem, 1)
        for sp in loops[0].extra:
            n += 1
            stores = [e for e in sp.events if e.kind == 'setitem']
            if stores:
                good = len(stores) == 1 and stores[0].value[1] == idx and stores[0].value[2] == pat
                ctx.ob('helper-contract', f'_build_subst/store{n}', good,
                       f'_build_subst stores `{show(stores[0].value[1])}` -> `{show(stores[0].value[2])}`; the typing of every lemma assumes '
                       f'position i maps to the i-th pattern', where)
                # an entry may only be kept under conditions that do not also exclude non-identity entries: nothing to check,
                # keeping an identity entry is harmless
                continue
            drops_identity_only = any(b is True and identity_test(c, idx, pat) for c, b in sp.conds)
            why = ' and '.join(f'{show(c)} is {b}' for c, b in sp.conds) or 'unconditionally'
            ctx.ob('helper-contract', f'_build_subst/drop{n}', drops_identity_only and sp.end[0] in ('fall', 'continue'),
                   f'_build_subst drops the entry for position i when {why[:200]}; only an argument that is structurally the unconstrained '
                   f'MetaVar(i) may be dropped (a metavariable with side conditions and the same id is a different pattern and must be '
                   f'substituted), otherwise every lemma built on it concludes a schema other than the documented one', where)
    ctx.analysed['_build_subst loop paths'] = n
    ctx.floor('helper-contract', 2)


def _enclosing(tree, node) -> str:
    from ..core.pyfacts import enclosing_def
    f_ = enclosing_def(tree, node)
    return f_.name if f_ is not None else '<module>'
