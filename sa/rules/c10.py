"""C10 - every derived rule proves exactly its advertised schema (modular schema type-checking)."""
from __future__ import annotations

import ast

from ..core import schema as S
from ..core.pyfacts import PyRepo
from ..spec.lemmas import CHECKABLE

LEVEL = 'proof'

LEMMA_CLASSES = ['Propositional', 'Tautology']
ALLOWED_PRIMITIVES = {'prop1', 'prop2', 'prop3', 'modus_ponens', 'dynamic_inst', 'instantiate', 'load_axiom',
                      'load_axiom_by_index'}
OTHER_RULES = {'exists_quantifier', 'exists_generalization', 'publish_proof'}


def run(ctx):
    py = PyRepo.get()
    sc = S.SchemaChecker(py, LEMMA_CLASSES)
    checked = 0
    broken: list[str] = []
    for name, lem in sc.lemmas.items():
        fn = lem.fn
        if not (fn.returns is not None and ast.unparse(fn.returns) == 'ProofThunk'):
            continue
        where = py.where(lem.owner.module, fn)
        try:
            n = sc.check(name, lem.owner.name)
            checked += 1
            prems, concl = lem.schemas[0]
            ctx.ob('lemma-schema', name, True, '', where,
                   facts={'premises': [S.tshow(p) for p in prems], 'conclusion': S.tshow(concl), 'alternatives': n})
        except S.Violation as v:
            ctx.ob('lemma-schema', name, False, str(v), where)
        except S.Decline as d:
            if name in CHECKABLE:
                broken.append(f'lemma {name} was type-checked on the reference tree but is now outside the analysed subset: {d}')
            ctx.decline(name, str(d))
    missing = [n for n in CHECKABLE if n not in sc.lemmas]
    ctx.require(not missing, f'anchor vanished: reference lemmas {missing[:5]} no longer exist')
    # confinement 1: ProofThunk objects are built only by the proof DSL (proof.py)
    n_sites = 0
    for mname, mi in py.modules.items():
        for node in ast.walk(mi.tree):
            if isinstance(node, ast.Call) and isinstance(node.func, ast.Name) and node.func.id == 'ProofThunk':
                n_sites += 1
                ctx.ob('thunk-confinement', f'{mname}:{_enclosing(mi.tree, node)}', mname == 'proof',
                       f'{mname} constructs a ProofThunk directly (static conclusion not tied to a rule of the DSL)',
                       py.where(mname, node))
    ctx.analysed['ProofThunk construction sites'] = n_sites
    # confinement 2: the lemma classes use no primitive beyond the propositional rules and the module's axioms
    for cname in LEMMA_CLASSES:
        ci = py.cls(cname)
        for mname, fn in ci.methods.items():
            for node in ast.walk(fn):
                if isinstance(node, ast.Call) and isinstance(node.func, ast.Attribute) and isinstance(node.func.value, ast.Name) \
                        and node.func.value.id == 'self' and node.func.attr in OTHER_RULES and mname != '__init__':
                    ctx.ob('primitive-confinement', f'{cname}.{mname}/{node.func.attr}', False,
                           f'{cname}.{mname} uses the rule {node.func.attr}; the propositional libraries may use only '
                           f'{sorted(ALLOWED_PRIMITIVES)}', py.where(ci.module, node))
        ctx.ob('primitive-confinement', cname, True, 'only propositional primitives are reachable', py.where(ci.module, ci.node))
    # a reference lemma that left the analysed subset fails the run closed - unless a violation already explains it
    if broken and not any(not o['ok'] for o in ctx.obligations):
        ctx.require(False, broken[0])
    ctx.floor('lemma-schema', 75)
    ctx.analysed['lemmas type-checked'] = checked
    ctx.analysed['axioms per class'] = {k: len(v) for k, v in sc.axioms.items()}
    ctx.explanation = (
        'Each lemma with a schema docstring is type-checked as a function from premise schemas to a conclusion schema: the body is '
        'evaluated symbolically on fresh constants standing for arbitrary argument patterns and arbitrary premise proofs of the '
        'documented shape; callee lemmas contribute their declared schema only (modular), primitives have built-in rules, notation is '
        'expanded from the definitions in pattern.py. By induction over the call graph every checked lemma proves exactly its docstring '
        'schema at all arguments, every assertion and modus ponens inside it succeeds for all such inputs, and only prop1-3, modus '
        'ponens, instantiation and declared axioms are used. Lemmas with run-time matching or loops are declined by name.')
    ctx.trusted_base = ['docstring grammar and parameter-binding convention (DESIGN.md C10)', 'built-in rules of the primitives '
                        '(modus_ponens, dynamic_inst as simultaneous instantiation, prop1-3 = spec/axioms.py)',
                        'replayed conclusion equals static conclusion (ProofThunk assertion, decided under C08)', 'python ast']
    ctx.assumptions = ['instantiation is simultaneous (C11)', 'notation expansion as read from pattern.py']


def _enclosing(tree, node) -> str:
    best = '<module>'
    for n in ast.walk(tree):
        if isinstance(n, (ast.FunctionDef, ast.ClassDef)) and n.lineno <= node.lineno <= getattr(n, 'end_lineno', n.lineno):
            best = n.name if isinstance(n, ast.FunctionDef) else best
    return best
