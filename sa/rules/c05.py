"""C05 - the checker implements the documented machine (arm-wise conformance, no silent input)."""
from __future__ import annotations

import re

from ..core import decide, machine as M, mireval, rustsubst as RS
from ..core.report import AnalysisError
from ..core.rustfacts import Rust, arms_of, judgement_df
from ..spec import judgements as SJ, machine as SP, substitution as SS

LEVEL = 'other'

SILENT_ADAPTERS = {'take', 'zip', 'take_while', 'map_while', 'skip', 'skip_while', 'nth', 'step_by', 'chain', 'peekable',
                   'fuse', 'by_ref', 'filter', 'filter_map', 'last', 'count', 'for_each', 'fold', 'collect', 'copied',
                   'cloned', 'rev', 'next_back', 'nth_back', 'as_slice', 'advance_by', 'next_chunk', 'find', 'position',
                   'any', 'all', 'min', 'max', 'sum', 'enumerate', 'map', 'scan', 'flat_map', 'inspect', 'cycle'}
UNSAFE_CALLEES = ('get_unchecked', 'from_raw_parts', 'transmute', 'unwrap_unchecked', 'unreachable_unchecked',
                  'assume_init', 'set_len', 'read_unaligned', 'offset', 'as_ptr', 'as_mut_ptr')


def _val_show(val):
    return ', '.join(f'{decide.a_show(k)}={v}' for k, v in val.items())


def judgement_conformance(ctx, r: Rust):
    for j in SJ.JUDGEMENTS:
        short = 'Pattern::' + j
        arms = arms_of(r, short)
        where = r.line_of(short)
        for v in SJ.VARIANTS:
            paths = arms.get(v, arms.get('_'))
            if paths is None or (v not in arms and any(p.end != 'return' for p in paths)):
                ctx.ob('doc-arm', f'{j}/{v}', False, 'constructor has no arm', where)
                continue
            df = judgement_df(r, short, v, paths)
            cex, got, n = decide.equivalent(df, SJ.DOC[(v, j)], SJ.consistent)
            ctx.ob('doc-arm', f'{j}/{v}', cex is None,
                   '' if cex is None else f'differs from the documented {j} of {v} ({decide.f_show(SJ.DOC[(v, j)])}) at {_val_show(cex)}: code gives {got}',
                   where, facts={'arm': [(list(map(str, c)), str(res)) for c, res in df.outcomes],
                                 'doc': decide.f_show(SJ.DOC[(v, j)]), 'valuations': n},
                   nontrivial=bool(df.domains()))
    # well_formed and is_redundant_subst
    arms = arms_of(r, 'Pattern::well_formed')
    where = r.line_of('Pattern::well_formed')
    for v, f in SJ.DOC_WF.items():
        if v not in arms:
            ctx.ob('doc-arm', f'well_formed/{v}', False, 'constructor has no well_formed arm', where)
            continue
        df = judgement_df(r, 'Pattern::well_formed', v, arms[v])
        cex, got, n = decide.equivalent(df, f)
        ctx.ob('doc-arm', f'well_formed/{v}', cex is None,
               '' if cex is None else f'differs from the documented well_formed of {v} ({decide.f_show(f)}) at {_val_show(cex)}: code gives {got}',
               where, facts={'arm': [(list(map(str, c)), str(res)) for c, res in df.outcomes], 'doc': decide.f_show(f)})
    arms = arms_of(r, 'Pattern::is_redundant_subst')
    where = r.line_of('Pattern::is_redundant_subst')
    for v, f in SJ.DOC_REDUNDANT.items():
        if v not in arms:
            ctx.ob('doc-arm', f'redundant/{v}', False, 'constructor has no is_redundant_subst arm', where)
            continue
        df = judgement_df(r, 'Pattern::is_redundant_subst', v, arms[v])
        cex, got, n = decide.equivalent(df, f)
        ctx.ob('doc-arm', f'redundant/{v}', cex is None,
               '' if cex is None else f'differs from the documented redundancy test of {v} ({decide.f_show(f)}) at {_val_show(cex)}: code gives {got}',
               where, facts={'arm': [(list(map(str, c)), str(res)) for c, res in df.outcomes], 'doc': decide.f_show(f)})


def _spec_cases(op):
    out = []
    for c in SP.SPEC[op]:
        out.append({'reads': c['reads'], 'conds': M.canon_conds(c['conds']), 'effects': c['effects']})
    return out


def opcode_conformance(ctx, r: Rust, arms):
    where = r.line_of('execute_instructions')
    names = {n for n, _d in r.enums.get('Instruction', [])}
    for op in SP.SPEC:
        if op not in arms:
            ctx.ob('opcode-row', op, False, f'documented opcode {op} has no arm in execute_instructions'
                   + ('' if op in names else ' (and no enum variant)'), where)
            continue
        acc = [M.to_case(ap) for ap in arms[op] if ap.end == 'next']
        spec = _spec_cases(op)
        problems = []
        for a in acc:
            if a['extra']:
                problems.append('undocumented effect: ' + '; '.join(a['extra']))
            if a.get('silent'):
                problems.append('operands are read through ' + ', '.join(a['silent']) + ', which stops silently at end of input')
            if not any(M.same_case(a, s) for s in spec):
                problems.append('accepting case not in the documented row: ' + M.show_case(a))
        for s in spec:
            if not any(M.same_case(a, s) for a in acc):
                problems.append('documented case missing: ' + M.show_case(s))
        ctx.ob('opcode-row', op, not problems, ' | '.join(problems), where,
               facts={'extracted': [M.show_case(a) for a in acc], 'documented': [M.show_case(s) for s in spec]})
    for op in arms:
        if op == '_' or op in SP.SPEC:
            continue
        ctx.ob('opcode-row', op, all(ap.end != 'next' for ap in arms[op]),
               f'opcode {op} is accepted by execute_instructions but is not an implemented row of the documented machine', where)
    # documented-but-unimplemented opcodes must reach a diverging block
    catch = arms.get('_', [])
    for op in SP.REJECT:
        if op in arms:
            ok = all(ap.end == 'diverge' for ap in arms[op])
        else:
            ok = bool(catch) and all(ap.end == 'diverge' for ap in catch) and op in names
        ctx.ob('opcode-row', f'reject/{op}', ok, '' if ok else f'{op} must be rejected (unimplemented) but a path continues', where)


def no_silent_input(ctx, r: Rust, arms):
    where = r.line_of('execute_instructions')
    # (1) decode table: default diverges, table equals the documented byte values
    dec = decode_table(r)
    for name, byte in sorted(SP.OPCODES.items(), key=lambda kv: kv[1]):
        ctx.ob('decode', name, dec['table'].get(byte) == name,
               f'byte {byte} decodes to {dec["table"].get(byte)} instead of {name}', r.line_of('Instruction::from'),
               facts={'byte': byte})
    extra = {b: n for b, n in dec['table'].items() if SP.OPCODES.get(n) != b}
    ctx.ob('decode', 'no-extra-bytes', not extra, f'undocumented byte values are accepted: {extra}', r.line_of('Instruction::from'))
    ctx.ob('decode', 'unknown-byte-rejected', dec['default_diverges'],
           'an unknown opcode byte does not lead to a panic', r.line_of('Instruction::from'))
    # (2) every operand / stack / claim read is checked
    n_reads = 0
    for op, aps in arms.items():
        for ap in aps:
            if ap.end != 'next':
                continue            # a path that rejects anyway cannot ignore input
            n_reads += sum(1 for s in _flat(ap.steps) if s[0] in ('byte', 'pop', 'claimpop', 'list', 'peek'))
            for s in _flat(ap.steps):
                if (s[0] == 'byte' and not s[2]) or (s[0] == 'pop' and not s[3]) or (s[0] == 'claimpop' and not s[1]):
                    ctx.ob('checked-read', f'{op}/{M.show_step(s).split(" ")[0]}', False,
                           f'{op}: {M.show_step(s)} is used without a rejecting branch for "absent"', where)
    ctx.ob('checked-read', 'all-arms', True, f'{n_reads} operand/stack/claim reads, each followed by expect/unwrap', where,
           facts={'reads': n_reads})
    ctx.analysed['operand and stack reads'] = n_reads
    # (3) the instruction iterator is consumed only through next()
    for fname in ('execute_instructions', 'read_u8_vec'):
        fn = r.fn(fname)
        iters = {M.BUFFER_ITER, ('param', 'iterator')}
        for p in r.paths(fname):
            for e in p.events:
                if e.kind != 'call':
                    continue
                touches = any(a in iters or (isinstance(a, tuple) and a and a[0] == 'iter' and a in iters) for a in e.args)
                if touches and e.name.split('::')[-1] != 'next' and e.name not in ('read_u8_vec',):
                    meth = e.name.split('::')[-1]
                    ctx.ob('iterator-discipline', f'{fname}/{meth}', False,
                           f'{fname} passes the instruction iterator to `{e.name}`, which can stop silently at end of input',
                           r.line_of(fname))
    ctx.ob('iterator-discipline', 'only-next', True, 'the instruction iterator is advanced only by next()', where)
    # (4) read_u8_vec: length and every element are checked reads, the loop bound is the length
    ps = r.paths('read_u8_vec')
    reads = [(e, p) for p in ps for e in p.events if e.kind == 'call' and e.name == 'Iterator::next'
             and e.args and e.args[0] == ('param', 'iterator')]
    guarded = all(any(g.kind == 'guard' and g.args[0][1] == e.result and g.args[1] == 'Some' for g in p.events)
                  or p.end == 'diverge' for e, p in reads)
    rng = [M._range_of(e) for p in ps for e in p.events if M._range_of(e) is not None]
    # the iterator spelling: (0..len).map(|_| *iterator.next().expect(..)).collect() - the element reads are in the closure
    for p in ps:
        for e in p.events:
            if e.kind == 'call' and e.name == 'Iterator::map' and len(e.args) == 2 and e.args[1][0] == 'closure' \
                    and e.args[0][0] == 'agg' and 'Range' in e.args[0][1]:
                d_ = dict(e.args[0][2])
                collected = any(x.kind == 'call' and x.name == 'Iterator::collect' and x.args and x.args[0] == e.result for x in p.events)
                if collected:
                    rng.append((d_.get('start'), d_.get('end')))
                    for cp in r.ev.closure_paths(e.args[1]):
                        for x in cp.events:
                            if x.kind == 'call' and x.name == 'Iterator::next' and x.args and x.args[0] == ('param', 'iterator'):
                                reads.append((x, cp))
    guarded = all(any(g.kind == 'guard' and g.args[0][1] == e.result and g.args[1] == 'Some' for g in p.events)
                  or p.end == 'diverge' for e, p in reads)
    ok_rng = bool(rng) and all(x[0] == ('int', 0) and x[1][0] == 'field' and x[1][2] == 'Some' for x in rng)
    ctx.ob('checked-read', 'read_u8_vec', guarded and ok_rng and len(reads) >= 2,
           'read_u8_vec does not check its length byte or its elements, or does not read exactly `len` elements',
           r.line_of('read_u8_vec'), facts={'reads': len(reads)})


def _flat(steps):
    for s in steps:
        yield s
        if s[0] == 'loop' and s[2]:
            for b in s[2]:
                yield from _flat(b['steps'])


def decode_table(r: Rust):
    ps = r.paths('Instruction::from')
    table = {}
    default_diverges = False
    saw_default = False
    for p in ps:
        if not p.conds:
            raise AnalysisError('Instruction::from: path without a decision on the byte')
        a, o = p.conds[0]
        if a[0] != 'intval':
            raise AnalysisError('Instruction::from: first decision is not on the byte value')
        if isinstance(o, tuple):
            saw_default = True
            default_diverges = (p.end == 'diverge')
            continue
        if p.end != 'return' or p.ret[0] != 'agg' or not p.ret[1].startswith('Instruction::'):
            raise AnalysisError(f'Instruction::from: byte {o} does not return an Instruction variant')
        table[int(o)] = p.ret[1].split('::')[1]
    return {'table': table, 'default_diverges': saw_default and default_diverges}


def no_unsafe(ctx, r: Rust):
    with open(r.src) as f:
        src = f.read()
    from ..core.mir import _strip_comments
    code = _strip_comments(src)
    # drop string literals
    code = re.sub(r'"(?:\\.|[^"\\])*"', '""', code)
    has_unsafe = re.search(r'\bunsafe\b', code) is not None
    ctx.ob('checked-memory', 'no-unsafe', not has_unsafe, 'the crate contains an `unsafe` block or function', 'rust/src/lib.rs')
    bad = []
    for fn in r.fns.values():
        for b in fn.blocks.values():
            if b.cleanup:
                continue
            m = re.search(r'= (.*?)\(', b.term)
            if m and any(u in m.group(1) for u in UNSAFE_CALLEES):
                bad.append(f'{fn.short}: {m.group(1)}')
    ctx.ob('checked-memory', 'checked-indexing', not bad, 'unchecked access: ' + '; '.join(bad), 'rust/src/lib.rs')


def verify_shape(ctx, r: Rust):
    where = r.line_of('verify')
    ps = [p for p in r.paths('verify')]
    rets = [p for p in ps if p.end == 'return']
    ctx.require(len(rets) >= 1, 'verify has no returning path')
    ok_all = True
    detail = ''
    for p in rets:
        calls = [e for e in p.events if e.kind == 'call' and e.name == 'execute_instructions']
        phases = [mireval.show(e.args[4]) for e in calls]
        bufs = [e.args[0] for e in calls]
        params = [('param', r.fn('verify').debug_of.get(n, f'_{n}')) for n, _t in r.fn('verify').params]
        if phases != ['ExecutionPhase::Gamma', 'ExecutionPhase::Claim', 'ExecutionPhase::Proof']:
            ok_all, detail = False, f'phases run as {phases}'
        elif bufs != params:
            ok_all, detail = False, f'buffers passed as {[mireval.show(b) for b in bufs]}'
        elif len({e.args[1] for e in calls}) != 1 or len({e.args[2] for e in calls}) != 1 or len({e.args[3] for e in calls}) != 1:
            ok_all, detail = False, 'stack, memory or claims are not the same objects across the three phases'
        else:
            stack, memory, claims = calls[0].args[1:4]
            evs = [e for e in p.events if e.kind == 'call' and e.extra != 'pure']
            seq = [(e.name, e.args[0] if e.args else None) for e in evs]
            want_clear = [i for i, (n, a) in enumerate(seq) if n == 'Vec::clear' and a == stack]
            idx = [i for i, (n, a) in enumerate(seq) if n == 'execute_instructions']
            # between two consecutive phases the stack is cleared (a clear before the first phase, on the fresh stack, is harmless)
            if not all(any(idx[i] < c < idx[i + 1] for c in want_clear) for i in (0, 1)):
                ok_all, detail = False, 'the stack is not cleared between phases'
            if any(n == 'Vec::clear' and a in (memory, claims) for n, a in seq):
                ok_all, detail = False, 'memory or claims are cleared between phases'
            final = [(a, o) for a, o in p.conds if a[0] == 'call' and a[1] == 'Vec::is_empty' and a[2] == (claims,)]
            if not final or final[-1][1] is not True:
                ok_all, detail = False, 'acceptance is not conditional on claims.is_empty()'
    ctx.ob('verify-shape', 'phases-and-final-claims', ok_all, detail, where)
    # the failing branch of the final check diverges
    div = [p for p in ps if p.end == 'diverge' and any(a[0] == 'call' and a[1] == 'Vec::is_empty' and o is False for a, o in p.conds)]
    ctx.ob('verify-shape', 'unproved-claims-rejected', bool(div),
           'no path rejects when claims are left over', where)


STRUCTURAL_VARIANTS = ('EVar', 'SVar', 'Symbol', 'Implies', 'App', 'Exists', 'Mu')


def subst_conformance(ctx, r: Rust, only_structural: bool = False):
    """only_structural (C01): the arms whose result is DETERMINED by soundness - leaves, connectives, binders (shadowing, capture).
    The deferral arms (metavariables, pending substitutions) and instantiate admit several sound representations; which one the
    checker uses matters for agreement with the generator and the document (C02, C05, C11), not for validity."""
    for short, kind in (('apply_esubst', 'e'), ('apply_ssubst', 's')):
        got = RS.subst_outcomes(r, short)
        spec = SS.subst_table(kind, 'rust')
        for v in spec:
            if only_structural and v not in STRUCTURAL_VARIANTS and v != 'MetaVar':
                continue
            # MetaVar (C01): DROPPING the substitution is sound only where the table drops it (the variable of that sort is
            # declared fresh); keeping it pending is always sound
            m = RS.compare(v, got[v], spec[v], refuse_ok=only_structural, defer_ok=only_structural and v == 'MetaVar')
            ctx.ob('subst-arm', f'{short}/{v}', m is None, m or '', r.line_of(short),
                   facts={'code': [(sorted(map(str, c)), RS.show(o)) for c, o in got[v]],
                          'table': [(sorted(map(str, c)), RS.show(o)) for c, o in spec[v]]})
    if only_structural:
        return
    got, mv = RS.inst_outcomes(r)
    spec = SS.inst_table()
    for v in got:
        m = RS.compare(v, got[v], spec[v])
        ctx.ob('subst-arm', f'instantiate_internal/{v}', m is None, m or '', r.line_of('instantiate_internal'),
               facts={'code': [(sorted(map(str, c)), RS.show(o)) for c, o in got[v]],
                      'table': [(sorted(map(str, c)), RS.show(o)) for c, o in spec[v]]})


def run(ctx):
    r = Rust.get()
    arms = M.rust_arms(r)
    judgement_conformance(ctx, r)
    opcode_conformance(ctx, r, arms)
    no_silent_input(ctx, r, arms)
    no_unsafe(ctx, r)
    verify_shape(ctx, r)
    subst_conformance(ctx, r)
    # documented InstantiateSchema.well_formed: each constraint list is checked against the plug with the judgement of that name
    from . import c01
    c01.s4_instantiation(ctx, r)
    ctx.floor('constraint-check', 6)
    ctx.floor('doc-arm', 46)
    ctx.floor('opcode-row', 30)
    ctx.floor('decode', 30)
    ctx.floor('subst-arm', 29)
    ctx.analysed['opcode arms'] = len([a for a in arms if a != '_'])
    ctx.explanation = (
        'Arm-by-arm conformance of the Rust checker with the documented machine, decided on rustc MIR: every judgement / well-formedness '
        'arm is equivalent (all valuations) to the pseudocode of docs/proof-language.md as transcribed in spec/judgements.py; every opcode '
        'arm has exactly the documented operand reads, pops (order, Term kind), side conditions and pushes (spec/machine.py); documented '
        'but unimplemented opcodes and unknown bytes reach a panic; every operand, stack and claim read has a rejecting "absent" branch and '
        'the instruction iterator is advanced only by next(); no unsafe/unchecked access; verify runs gamma, claim, proof over one '
        'stack/memory/claims, clears only the stack between phases, and accepts only when no claim is left; substitution and '
        'instantiation arms equal the textbook table. Decides the per-arm determinants of acceptance, not final-state equality on concrete bytes.')
    ctx.assumptions = ['spec/judgements.py DOC*, spec/machine.py and spec/substitution.py transcribe docs/proof-language.md and the '
                       'matching-logic rules faithfully (the prose is not parsed at run time)',
                       'rustc MIR (nightly, -Zmir-opt-level=0) is a faithful rendering of rust/src/lib.rs',
                       '`?` on Option and Option::expect/unwrap have their standard semantics']
