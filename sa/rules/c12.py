"""C12 - notation is transparent: dispatchers see through notation; the notation node delegates to its expansion."""
from __future__ import annotations

import ast

from ..core.pyeval import PyEval, show
from ..core.pyfacts import PyRepo

LEVEL = 'other'
SELF = ('param', 'self')
CONCRETE = {'EVar', 'SVar', 'Symbol', 'Implies', 'App', 'Exists', 'Mu', 'MetaVar', 'ESubst', 'SSubst'}
# modules whose functions implement the operations the property names (free-variable test, metavariable set, substitution,
# instantiation, matching, destructuring)
SCOPE = ['pattern', 'proofs.kore', 'proofs.definedness', 'proofs.substitution', 'proofs.propositional']
# dispatchers that are syntactic on purpose: (module, function) -> reason
SYNTACTIC = {
    ('pattern', 'pretty'): 'rendering is about the syntax the user wrote',
}
SEE_THROUGH_HELPERS = {'unwrap', 'extract', 'deconstruct'}


def dispatch_sites(py: PyRepo):
    """(module, qualname, fn, subject name, [tested constructors], has_instantiate_branch)"""
    out = []
    for mname in SCOPE:
        mi = py.modules.get(mname)
        if mi is None:
            continue
        fns = [(f.name, f, None) for f in mi.functions.values()]
        for c in mi.classes.values():
            fns += [(f'{c.name}.{f.name}', f, c) for f in c.methods.values()]
        for qn, fn, ci in fns:
            tests: dict[str, list] = {}
            for node in ast.walk(fn):
                if isinstance(node, ast.Assert):
                    continue
                if isinstance(node, ast.Call) and isinstance(node.func, ast.Name) and node.func.id == 'isinstance' and len(node.args) == 2 \
                        and isinstance(node.args[0], ast.Name):
                    subj = node.args[0].id
                    classes = _class_names(node.args[1], ci)
                    if _inside_assert(fn, node):
                        continue
                    tests.setdefault(subj, []).extend((c, node) for c in classes)
                if isinstance(node, ast.Match) and isinstance(node.subject, ast.Name):
                    subj = node.subject.id
                    def class_pats(pt):
                        """class patterns of a case: C(..), C(..) | D(..), C(..) as x"""
                        if isinstance(pt, ast.MatchClass):
                            return [pt]
                        if isinstance(pt, ast.MatchOr):
                            return [q for sub in pt.patterns for q in class_pats(sub)]
                        if isinstance(pt, ast.MatchAs) and pt.pattern is not None:
                            return class_pats(pt.pattern)
                        return []
                    for case in node.cases:
                        for cp in class_pats(case.pattern):
                            tests.setdefault(subj, []).append((ast.unparse(cp.cls), cp))
            for subj, lst in tests.items():
                ctors = [c for c, _n in lst if c in CONCRETE or c == 'cls']
                if not ctors:
                    continue
                has_inst = any(c == 'Instantiate' for c, _n in lst)
                out.append((mname, qn, fn, subj, lst, has_inst))
    return out


def _inside_assert(fn, node) -> bool:
    for a in ast.walk(fn):
        if isinstance(a, ast.Assert):
            for x in ast.walk(a):
                if x is node:
                    return True
    return False


def _class_names(n, ci):
    if isinstance(n, ast.Name):
        return [n.id]
    if isinstance(n, ast.Tuple):
        return [x.id for x in n.elts if isinstance(x, ast.Name)]
    if isinstance(n, ast.BinOp) and isinstance(n.op, ast.BitOr):
        return _class_names(n.left, ci) + _class_names(n.right, ci)
    return []


def instantiate_branch_sees_through(fn: ast.FunctionDef, subj: str) -> bool:
    """some `isinstance(subj, Instantiate)` / `case Instantiate(..)` branch re-dispatches on subj.simplify() ALL THE WAY: simplify()
    removes one notation level, and a notation may be defined as an application of another notation, so the branch must re-enter
    the dispatcher (a call of this very function, or of a method of the expansion) or be a `while isinstance(..)` loop; expanding
    once and falling through to the concrete tests handles only one level"""
    aliases = {subj}

    def simp_of_subj(x) -> bool:
        return isinstance(x, ast.Call) and isinstance(x.func, ast.Attribute) and x.func.attr == 'simplify' \
            and isinstance(x.func.value, ast.Name) and x.func.value.id in aliases and not x.args

    for node in ast.walk(fn):
        body = None
        if isinstance(node, ast.While):
            t = node.test
            if isinstance(t, ast.Call) and isinstance(t.func, ast.Name) and t.func.id == 'isinstance' and len(t.args) == 2 \
                    and isinstance(t.args[0], ast.Name) and t.args[0].id == subj and 'Instantiate' in ast.unparse(t.args[1]):
                # while isinstance(subj, Instantiate): subj = subj.simplify()
                if any(isinstance(st, ast.Assign) and len(st.targets) == 1 and isinstance(st.targets[0], ast.Name)
                       and st.targets[0].id == subj and simp_of_subj(st.value) for st in node.body):
                    # the stripped value only reaches the tests that FOLLOW the loop: a constructor test of the subject placed
                    # before it was answered for the notation node and is not asked again for the expansion
                    before = False
                    for x in ast.walk(fn):
                        if isinstance(x, ast.Call) and isinstance(x.func, ast.Name) and x.func.id == 'isinstance' and len(x.args) == 2 \
                                and isinstance(x.args[0], ast.Name) and x.args[0].id == subj and 'Instantiate' not in ast.unparse(x.args[1]) \
                                and (x.lineno, x.col_offset) < (node.lineno, node.col_offset) and not _inside_assert(fn, x):
                            before = True
                        if isinstance(x, ast.match_case) and isinstance(x.pattern, (ast.MatchClass, ast.MatchOr)) \
                                and x.pattern.lineno < node.lineno and 'Instantiate' not in ast.unparse(x.pattern):
                            before = True
                    if not before:
                        return True
        if isinstance(node, ast.If):
            t = node.test
            if isinstance(t, ast.Call) and isinstance(t.func, ast.Name) and t.func.id == 'isinstance' and len(t.args) == 2 \
                    and isinstance(t.args[0], ast.Name) and t.args[0].id == subj and 'Instantiate' in ast.unparse(t.args[1]):
                body = node.body
        if isinstance(node, ast.match_case) and isinstance(node.pattern, ast.MatchClass) \
                and ast.unparse(node.pattern.cls) == 'Instantiate':
            body = node.body
        if isinstance(node, ast.match_case) and isinstance(node.pattern, ast.MatchAs) and isinstance(node.pattern.pattern, ast.MatchClass) \
                and ast.unparse(node.pattern.pattern.cls) == 'Instantiate':
            body = node.body                      # `case Instantiate() as n`: n names the subject in this arm
            if node.pattern.name:
                aliases.add(node.pattern.name)
        if body is None:
            continue
        # locals of the branch that hold the expansion: `expanded = subj.simplify()`
        holders = {st.targets[0].id for st in body if isinstance(st, ast.Assign) and len(st.targets) == 1
                   and isinstance(st.targets[0], ast.Name) and st.targets[0].id != subj and simp_of_subj(st.value)}
        for st in body:
            for x in ast.walk(st):
                if not isinstance(x, ast.Call):
                    continue
                # re-entry: f(.., subj.simplify(), ..) where f is this function (by name, cls.f, Class.f, self.f)
                callee = x.func.attr if isinstance(x.func, ast.Attribute) else (x.func.id if isinstance(x.func, ast.Name) else None)
                if callee == fn.name and any(simp_of_subj(a) or (isinstance(a, ast.Name) and a.id in holders) for a in x.args):
                    return True
                # dynamic re-dispatch: subj.simplify().<method>(..)
                if isinstance(x.func, ast.Attribute) and simp_of_subj(x.func.value):
                    return True
    return False


def is_stripper(py: PyRepo, g: ast.FunctionDef) -> bool:
    """a function of one pattern that returns it with every level of notation at the root expanded: every return is either the
    parameter itself where it is known not to be an Instantiate, or the function applied again to `<parameter>.simplify()`; or the
    loop form `while isinstance(p, Instantiate): p = p.simplify()` followed by `return p`"""
    args = g.args.posonlyargs + g.args.args
    if len(args) != 1 or g.args.vararg or g.args.kwarg or g.args.kwonlyargs:
        return False
    pn = args[0].arg
    P = ('param', pn)
    ISI = ('call', ('name', 'isinstance'), (P, ('name', 'Instantiate')), ())
    body = [st for st in g.body if not (isinstance(st, ast.Expr) and isinstance(st.value, ast.Constant))]
    if len(body) == 2 and isinstance(body[0], ast.While) and isinstance(body[1], ast.Return) and isinstance(body[1].value, ast.Name) \
            and body[1].value.id == pn and ast.unparse(body[0].test) == f'isinstance({pn}, Instantiate)' and len(body[0].body) == 1 \
            and ast.unparse(body[0].body[0]) == f'{pn} = {pn}.simplify()' and not body[0].orelse:
        return True
    try:
        paths = PyEval().paths(g)
    except Exception:  # noqa: BLE001
        return False
    rets = [q for q in paths if q.end[0] == 'return']
    if not rets or len(rets) != len([q for q in paths if q.end[0] != 'raise']):
        return False
    base = rec = 0
    for q in rets:
        v = q.end[1]
        conds = dict((c, b) for c, b in q.conds)
        if v == P and conds.get(ISI) is False:
            base += 1
        elif v[0] == 'call' and v[1] == ('name', g.name) and len(v[2]) == 1 and not v[3] \
                and v[2][0] == ('call', ('attr', P, 'simplify'), (), ()) and conds.get(ISI) is True:
            rec += 1
        else:
            return False
    return base >= 1 and rec >= 1


def subject_is_stripped(py: PyRepo, fn: ast.FunctionDef, subj: str) -> bool:
    """the tested local is the result of a notation-stripping function (is_stripper): no notation node ever reaches the tests"""
    from ..core.localkeys import single_def
    d = single_def(fn, subj)
    if d is None:
        # a parameter re-bound to its stripped self before anything else happens: `p = strip(p)` as the first statement, and no
        # other binding of p in the function
        body = [st for st in fn.body if not (isinstance(st, ast.Expr) and isinstance(st.value, ast.Constant))]
        params = {a.arg for a in fn.args.posonlyargs + fn.args.args + fn.args.kwonlyargs}
        stores = [n for n in ast.walk(fn) if isinstance(n, ast.Name) and n.id == subj and isinstance(n.ctx, (ast.Store, ast.Del))]
        if subj in params and body and isinstance(body[0], ast.Assign) and len(body[0].targets) == 1 and isinstance(body[0].targets[0], ast.Name) \
                and body[0].targets[0].id == subj and len(stores) == 1 and isinstance(body[0].value, ast.Call) and len(body[0].value.args) == 1 \
                and isinstance(body[0].value.args[0], ast.Name) and body[0].value.args[0].id == subj:
            d = body[0].value
    if not (isinstance(d, ast.Call) and isinstance(d.func, ast.Name) and len(d.args) == 1 and not d.keywords):
        return False
    for mi in py.modules.values():
        g = mi.functions.get(d.func.id)
        if g is not None and is_stripper(py, g):
            return True
    return False


def sees_through(py: PyRepo, fn: ast.FunctionDef, subj: str, has_inst: bool) -> bool:
    return (has_inst and instantiate_branch_sees_through(fn, subj)) or subject_is_stripped(py, fn, subj)


def first_test_order_ok(fn: ast.FunctionDef, subj: str) -> bool:
    """the Instantiate test is not preceded (in the statement list) by a concrete-constructor test that returns for that subject"""
    for st in fn.body:
        for x in ast.walk(st):
            if isinstance(x, ast.Call) and isinstance(x.func, ast.Name) and x.func.id == 'isinstance' and len(x.args) == 2 \
                    and isinstance(x.args[0], ast.Name) and x.args[0].id == subj:
                names = ast.unparse(x.args[1])
                if 'Instantiate' in names:
                    return True
                # a concrete test first is harmless: it is false for a notation node and falls through to the Instantiate test
                continue
            if isinstance(x, ast.Match):
                return True
    return True


def t1(ctx, py: PyRepo):
    sites = dispatch_sites(py)
    for mname, qn, fn, subj, lst, has_inst in sites:
        where = py.where(mname, fn)
        short = qn.split('.')[-1]
        if (mname, short) in SYNTACTIC:
            ctx.advisory(f'{mname}.{qn}: syntactic dispatcher ({SYNTACTIC[(mname, short)]})')
            continue
        ctors = sorted({c for c, _n in lst if c in CONCRETE or c == 'cls'})
        ok = sees_through(py, fn, subj, has_inst)
        ctx.ob('dispatch-sees-through', f'{mname}.{qn}({subj})', ok,
               f'{qn} tests `{subj}` for the concrete constructor(s) {ctors} but has no branch that expands a notation node '
               f'({subj}.simplify()) first: a notation application whose expansion is such a constructor is treated differently '
               f'from its expansion', where, facts={'tests': ctors, 'instantiate_branch': has_inst})
    ctx.analysed['dispatch sites'] = len(sites)


def t2(ctx, py: PyRepo):
    ci = py.cls('Instantiate', 'pattern')
    ev = PyEval()
    want_ops = {'evar_is_free': 1, 'apply_esubst': 2, 'apply_ssubst': 2}
    for op, nargs in want_ops.items():
        fn = ci.methods.get(op)
        where = py.where('pattern', fn or ci.node)
        if fn is None:
            inherited = py.find_method(ci, op)
            stub = inherited is None or all(isinstance(st, (ast.Raise, ast.Pass)) or (isinstance(st, ast.Expr) and isinstance(st.value, ast.Constant))
                                            for st in inherited[1].body)
            ctx.require(stub, f'Instantiate.{op} is inherited from {inherited[0].name if inherited else "?"}, which implements the operation for all '
                              f'constructors in one function that cannot be specialised for the notation node; whether it works on the expansion is not decided')
            ctx.ob('notation-delegates', f'Instantiate.{op}', False, f'Instantiate does not define {op}', where)
            continue
        params = tuple(('param', a.arg) for a in fn.args.args[1:])
        rets = [p for p in ev.paths(fn) if p.end[0] == 'return']
        want = ('call', ('attr', ('call', ('attr', SELF, 'simplify'), (), ()), op), params, ())

        def equals_delegation(p):
            """the path returns the delegation's value: directly, or as the constant the path has just tested it to be"""
            if p.end[1] == want:
                return True
            known = [b for c, b in p.conds if c == want]
            return bool(known) and p.end[1] == ('const', known[-1])
        ok = bool(rets) and all(equals_delegation(p) for p in rets)
        why = ''
        if not ok:
            # not the delegation form: equality with the expansion cannot be decided in general; two necessary conditions can
            from ..core import decide, pypattern
            from ..spec import judgements as SJ
            decided = False
            if op == 'evar_is_free':
                df = pypattern.bool_method_df(py, 'Instantiate', op)
                cex, _n = decide.implies(df, SJ.INSTANTIATE_SOUND, SJ.closure_py, SJ.consistent_py)
                decided = cex is not None       # a freshness answer that is not even sound differs from the expansion's answer
            else:
                verdict, why = pypattern.notation_op_verdict(py, op)
                decided = verdict == 'violation'
            ctx.require(decided, f'Instantiate.{op} is not the delegation self.simplify().{op}(..); whether it equals the operation on '
                                 f'the expansion cannot be decided statically')
        ctx.ob('notation-delegates', f'Instantiate.{op}', ok,
               why or f'Instantiate.{op} returns {[show(p.end[1]) for p in rets]}; on a notation node the operation must be the operation '
               f'on the expansion: self.simplify().{op}({", ".join(a[1] for a in params)})', where)
    fn = ci.methods.get('__eq__')
    where = py.where('pattern', fn or ci.node)
    ok = False
    if fn is not None:
        rets = [p for p in ev.paths(fn) if p.end[0] == 'return']
        other = ('param', fn.args.args[1].arg)
        simp = ('call', ('attr', SELF, 'simplify'), (), ())
        ok = bool(rets) and all(p.end[1][0] == 'cmp' and p.end[1][1] == '==' and {p.end[1][2], p.end[1][3]} == {simp, other} for p in rets)
    ctx.ob('notation-delegates', 'Instantiate.__eq__', ok, 'Instantiate.__eq__ must compare the expansion with the other pattern', where)
    # simplify is one-level expansion of the stored body with the stored map
    fn = ci.methods.get('simplify')
    ok = False
    if fn is not None:
        rets = [p for p in ev.paths(fn) if p.end[0] == 'return']
        ok = bool(rets) and all(p.end[1] == ('call', ('attr', ('attr', SELF, 'pattern'), 'instantiate'), (('attr', SELF, 'inst'),), ())
                                for p in rets)
    ctx.ob('notation-delegates', 'Instantiate.simplify', ok, 'simplify must be self.pattern.instantiate(self.inst)', py.where('pattern', fn or ci.node))
    # metavars: compositional by design - every metavariable of the body is either replaced by the metavariables of its plug or kept
    fn = ci.methods.get('metavars')
    ctx.ob('notation-delegates', 'Instantiate.metavars', fn is not None, 'Instantiate must define metavars', py.where('pattern', fn or ci.node))
    # equality on the constructor classes is the structural dataclass equality (the notation node is the only override)
    for cname in sorted(CONCRETE):
        c = py.cls(cname, 'pattern')
        deco = [d for d in c.decorators if d.startswith('dataclass')]
        ok = bool(deco) and 'eq=False' not in ''.join(deco) and '__eq__' not in c.methods and '__ne__' not in c.methods
        ctx.ob('structural-equality', cname, ok,
               f'{cname} must keep the generated dataclass equality (all fields): a hand-written __eq__ or eq=False changes what '
               f'"equal patterns" means for every rule check', py.where('pattern', c.node), facts={'decorators': c.decorators})
    # T3 advisory: __eq__ without __hash__ coherence
    ctx.advisory('Instantiate.__eq__ compares expansions but the dataclass hash is structural: a notation application and its expansion '
                 'are equal and hash differently (dictionaries in the tool key by definition, not by instance); reported, not a violation')


METAVARS_SPEC = {'EVar': set(), 'SVar': set(), 'Symbol': set(), 'Implies': {'left', 'right'}, 'App': {'left', 'right'},
                 'Exists': {'subpattern'}, 'Mu': {'subpattern'}, 'ESubst': {'pattern', 'plug'}, 'SSubst': {'pattern', 'plug'}}


def metavars_arms(ctx, py: PyRepo):
    """metavars() is the union of the children's sets (the metavariable's own index for MetaVar); the notation node replaces
    each metavariable of its body by the metavariables of the plug bound to it"""
    ev = PyEval()

    def children(v):
        # -> set of child field names whose .metavars() are united, or None
        if v == ('call', ('name', 'set'), (), ()):
            return set()
        if v[0] == 'call' and v[1][0] == 'attr' and v[1][2] == 'metavars' and not v[2] and v[1][1][0] == 'attr' and v[1][1][1] == SELF:
            return {v[1][1][2]}
        if v[0] == 'call' and v[1][0] == 'attr' and v[1][2] == 'union' and len(v[2]) >= 1:
            parts = [children(v[1][1])] + [children(a) for a in v[2]]
            if all(p_ is not None for p_ in parts):
                return set().union(*parts)
        if v[0] == 'binop' and v[1] == 'BitOr':
            a, b = children(v[2]), children(v[3])
            if a is not None and b is not None:
                return a | b
        return None

    for cname, want in METAVARS_SPEC.items():
        fn = py.method(cname, 'metavars', 'pattern')
        rets = [p for p in ev.paths(fn) if p.end[0] == 'return']
        got = [children(p.end[1]) for p in rets]
        ok = bool(rets) and all(g == want for g in got)
        ctx.ob('metavars-arm', cname, ok,
               f'{cname}.metavars() returns {[show(p.end[1]) for p in rets]}; it must be the union over the pattern-typed fields {sorted(want)}',
               py.where('pattern', fn))
    fn = py.method('MetaVar', 'metavars', 'pattern')
    rets = [p for p in ev.paths(fn) if p.end[0] == 'return']
    ok = bool(rets) and all(p.end[1] == ('set', (('attr', SELF, 'name'),)) for p in rets)
    ctx.ob('metavars-arm', 'MetaVar', ok, 'MetaVar.metavars() must be {self.name}', py.where('pattern', fn))
    # notation node: for v in body.metavars(): inst[v].metavars() if v in inst else {v}
    fn = py.method('Instantiate', 'metavars', 'pattern')
    loops = [n for n in ast.walk(fn) if isinstance(n, ast.For)]
    ok = False
    if len(loops) == 1 and ast.unparse(loops[0].iter) == 'self.pattern.metavars()' and isinstance(loops[0].target, ast.Name):
        from ..core import astpaths
        v = loops[0].target.id
        sps = [sp for sp in astpaths.paths(loops[0].body) if sp.end in ('fall', 'continue')]
        ok = len(sps) >= 2
        for sp in sps:
            bound = sp.holds(f'{v} in self.inst')
            acts = ' ; '.join(ast.unparse(a) for a in sp.actions)
            plug, own = f'self.inst[{v}].metavars()' in acts, (f'.add({v})' in acts or f'{{{v}}}' in acts)
            if bound is None or (bound and not (plug and not own)) or (not bound and not (own and not plug)):
                ok = False
    from .c16 import returned_exprs
    delegated = any(ast.unparse(v) == 'self.simplify().metavars()' for _st, v in returned_exprs(fn))
    ctx.ob('metavars-arm', 'Instantiate', ok or delegated,
           'Instantiate.metavars() must replace each metavariable of the body by the metavariables of its plug (or keep it when unbound), '
           'or delegate to the expansion', py.where('pattern', fn))


def loop_defined_recursion(ctx, py: PyRepo):
    """a function defined inside a loop (one variant per iteration, the variant pinned by a default argument or the loop variable)
    that calls itself BY NAME reaches, at call time, whatever that name was bound to last - the variant of the final iteration -
    so its re-dispatch after expanding a notation continues as another constructor's function"""
    n = 0
    for mname in ('pattern', 'proofs.kore', 'proofs.propositional', 'proofs.substitution', 'proofs.definedness'):
        mi = py.modules.get(mname)
        if mi is None:
            continue
        for loop in [x for x in ast.walk(mi.tree) if isinstance(x, (ast.For, ast.While))]:
            for f in [x for st in loop.body for x in ast.walk(st) if isinstance(x, ast.FunctionDef)]:
                n += 1
                params = [a.arg for a in f.args.args + f.args.kwonlyargs]
                defaults_from_loop = bool(f.args.defaults or any(d is not None for d in f.args.kw_defaults))
                for c in ast.walk(f):
                    if isinstance(c, ast.Call) and isinstance(c.func, ast.Name) and c.func.id == f.name:
                        passed = len(c.args) + len(c.keywords)
                        if defaults_from_loop and passed < len(params):
                            ctx.ob('dispatch-sees-through', f'{mname}.{f.name}@loop', False,
                                   f'`{f.name}` is defined once per iteration of a loop, pinned to the iteration by a default argument, and '
                                   f'calls `{f.name}(..)` by name without that argument: the call reaches the definition of the LAST iteration, so '
                                   f'the re-dispatch (e.g. after `.simplify()`) continues as a different variant', py.where(mname, c))
    ctx.ob('dispatch-sees-through', 'loop-defined-functions', True, f'{n} functions defined in loops examined', '')


def run(ctx):
    py = PyRepo.get()
    t1(ctx, py)
    t2(ctx, py)
    metavars_arms(ctx, py)
    loop_defined_recursion(ctx, py)
    # instantiating a notation application equals instantiating its expansion: ONE merged map over the untouched body (shared with C11)
    from .c11 import simultaneity
    simultaneity(ctx, py)
    ctx.floor('metavars-arm', 11)
    ctx.floor('dispatch-sees-through', 8)
    ctx.floor('notation-delegates', 6)
    ctx.floor('structural-equality', 10)
    ctx.explanation = (
        '(T1) every function of pattern.py and the notation libraries that dispatches on the concrete constructor of a pattern '
        '(isinstance / match, asserts excluded) has a branch that expands a notation node and re-dispatches, so a notation application is '
        'handled as its expansion; (T2) the notation node\'s own evar_is_free, apply_esubst, apply_ssubst and __eq__ are the operation on '
        'the expansion, simplify is the stored body instantiated with the stored map; instantiate is held to C11. Congruence at every '
        'nesting depth beyond these structural facts is not evaluated.')
    ctx.assumptions = ['helpers unwrap/extract/deconstruct are themselves dispatch sites and are checked', 'python ast']
