"""C07 - the Python proof rules apply exactly when the documented rule applies.

Decided on the ast: (1) BasicInterpreter.modus_ponens / exists_generalization / instantiate return exactly the documented
conclusion, and every path to the return passes the destructuring of the premise as an implication (which raises
otherwise) and the rule's side condition; (2) every override in the interpreter classes hands the same arguments to the
next implementation and returns its value; (3) the destructuring helper raises on a non-implication; (4) ProofExp checks
the same condition on the static conclusions.
"""
from __future__ import annotations

import ast

from ..core import pymachine as PM
from ..core.pyeval import PyEval, show
from ..core.pyfacts import PyRepo
from ..core.wiring import Wiring

LEVEL = 'other'
RULES = ['modus_ponens', 'exists_generalization', 'instantiate']
SELF = ('param', 'self')


def CONC(p):
    return ('attr', ('param', p), 'conclusion')


def EXTRACT(x, i):
    return ('item', ('call', ('attr', ('name', 'Implies'), 'extract'), (x,), ()), i)


def destructured_as_implication(v):
    if v[0] == 'component' and v[2] == 'Implies':
        return v[1], 0 if v[3] == 'left' else 1
    return _destructured_raw(v)


def _destructured_raw(v):
    """the value is component i of a raising destructuring of X as an implication -> (X, i) else None.
    Accepted idioms: Implies.extract(X)[i]; `match X: case Implies(l, r)` (attribute of X under an isinstance condition)."""
    if v[0] == 'item' and v[1][0] == 'call' and v[1][1] == ('attr', ('name', 'Implies'), 'extract') and len(v[1][2]) == 1:
        return v[1][2][0], v[2]
    return None


def basic_rules(ctx, py: PyRepo, w: Wiring):
    basic = w.basic
    # modus ponens ---------------------------------------------------------------------------------------------
    from ..core.wiring import canon_components
    mf = PM.level_facts(py, basic, 'modus_ponens')
    where = py.where(basic.module, mf.node)
    ctx.require(mf.paths, 'BasicInterpreter.modus_ponens has no returning path')
    for i, rec in enumerate(mf.paths):
        rec = dict(rec)
        rec['conds'] = [(canon_components(c, rec['conds'], py), b) for c, b in rec['conds']]
        rec['ret'] = canon_components(rec['ret'], rec['conds'], py) if rec['ret'] else None
        ret = rec['ret']
        ok_ret = False
        prem = None
        if ret and ret[0] == 'call' and ret[1] == ('name', 'Proved') and len(ret[2]) == 1:
            d = destructured_as_implication(ret[2][0])
            if d and d[1] == 1:
                prem = d[0]
                ok_ret = prem == CONC('left')
        ctx.ob('rule-conclusion', f'modus_ponens/path{i}', ok_ret,
               f'modus_ponens returns {show(ret)}; the rule yields Proved(<consequent of left.conclusion>)', where,
               facts={'returns': show(ret)})
        guard = False
        for c, b in rec['conds']:
            if b is True and c[0] == 'cmp' and c[1] == '==':
                sides = {c[2], c[3]}
                ante = [s for s in sides if (destructured_as_implication(s) or (None, None))[1] == 0
                        and destructured_as_implication(s)[0] == CONC('left')]
                if ante and CONC('right') in sides:
                    guard = True
        ctx.ob('rule-guard', f'modus_ponens/path{i}', guard,
               'a path returns without requiring <antecedent of left.conclusion> == right.conclusion', where,
               facts={'conditions': [(show(c), b) for c, b in rec['conds']]})
        # attribute-style destructuring without an isinstance / case decision stays an `attr` and is not accepted above
    # generalization -------------------------------------------------------------------------------------------
    mf = PM.level_facts(py, basic, 'exists_generalization')
    where = py.where(basic.module, mf.node)
    ctx.require(mf.paths, 'BasicInterpreter.exists_generalization has no returning path')
    L, R = EXTRACT(CONC('proved'), 0), EXTRACT(CONC('proved'), 1)
    VARNAME = ('attr', ('param', 'var'), 'name')
    want = ('call', ('name', 'Proved'), (('call', ('name', 'Implies'), (('call', ('name', 'Exists'), (VARNAME, L), ()), R), ()),), ())
    for i, rec in enumerate(mf.paths):
        ctx.ob('rule-conclusion', f'exists_generalization/path{i}', _norm_destr(rec['ret']) == _norm_destr(want),
               f'exists_generalization returns {show(rec["ret"])}; the rule yields Proved(Implies(Exists(var.name, l), r))', where,
               facts={'returns': show(rec['ret'])})
        fresh = any(b is True and c[0] == 'call' and c[1][0] == 'attr' and c[1][2] == 'evar_is_free'
                    and _norm_destr(c[1][1]) == _norm_destr(R) and c[2] == (VARNAME,) for c, b in rec['conds'])
        ctx.ob('rule-guard', f'exists_generalization/path{i}', fresh,
               'a path returns without requiring that var is fresh in the consequent (r.evar_is_free(var.name))', where,
               facts={'conditions': [(show(c), b) for c, b in rec['conds']]})
    # instantiation --------------------------------------------------------------------------------------------
    mf = PM.level_facts(py, basic, 'instantiate')
    where = py.where(basic.module, mf.node)
    want = ('call', ('name', 'Proved'), (('call', ('attr', CONC('proved'), 'instantiate'), (('param', 'delta'),), ()),), ())
    for i, rec in enumerate(mf.paths):
        ret = rec['ret']
        shortcut = ret == ('param', 'proved') and any(c == ('param', 'delta') and b is False for c, b in rec['conds'])
        ctx.ob('rule-conclusion', f'instantiate/path{i}', ret == want or shortcut,
               f'instantiate returns {show(ret)}; the rule yields Proved(proved.conclusion.instantiate(delta)) '
               f'(or the premise itself for the empty map)', where, facts={'returns': show(ret)})


def _norm_destr(v):
    """Implies.extract(X)[i] and attribute-style components compare equal"""
    if isinstance(v, tuple) and v:
        d = destructured_as_implication(v) if v[0] in ('item', 'attr') else None
        if d and (v[0] == 'item' or v[2] in ('left', 'right')):
            return ('component', _norm_destr(d[0]), d[1])
        return tuple(_norm_destr(x) if isinstance(x, tuple) else x for x in v)
    return v


def extract_raises(ctx, py: PyRepo):
    """Pattern.extract must raise when unwrap fails, and unwrap must fail unless the (expanded) pattern is of that class"""
    ci = py.cls('Pattern', 'pattern')
    ev = PyEval()
    fn = ci.methods.get('extract')
    ctx.require(fn is not None, 'anchor vanished: Pattern.extract')
    paths = ev.paths(fn)
    rets = [p for p in paths if p.end[0] == 'return']
    ok = bool(rets) and all(any(c[0] == 'cmp' and c[1] == 'is' and c[3] == ('const', None) and b is False for c, b in p.conds)
                            for p in rets)
    ctx.ob('destructuring-raises', 'Pattern.extract', ok, 'Pattern.extract can return without having checked that unwrap succeeded',
           py.where('pattern', fn))
    fn = ci.methods.get('unwrap')
    ctx.require(fn is not None, 'anchor vanished: Pattern.unwrap')
    paths = ev.paths(fn)
    ok = True
    for p in paths:
        if p.end[0] == 'return' and p.end[1] != ('const', None):
            v = p.end[1]
            delegated = v[0] == 'call' and v[1] == ('attr', ('param', 'cls'), 'unwrap')
            def the_pattern(x):
                # the parameter itself, or the parameter with the notation at its root expanded by a stripping function
                if x == ('param', 'pattern'):
                    return True
                if x[0] == 'call' and x[1][0] == 'name' and x[2] == (('param', 'pattern'),) and not x[3]:
                    from .c12 import is_stripper
                    g = py.modules[ci.module].functions.get(x[1][1])
                    return g is not None and is_stripper(py, g)
                return False
            checked = any(c[0] == 'call' and c[1] == ('name', 'isinstance') and len(c[2]) == 2 and the_pattern(c[2][0]) and c[2][1] == ('param', 'cls')
                          and b is True for c, b in p.conds)
            ok = ok and (delegated or checked)
    ctx.ob('destructuring-raises', 'Pattern.unwrap', ok,
           'Pattern.unwrap returns components without isinstance(pattern, cls)', py.where('pattern', fn))


def override_chain(ctx, py: PyRepo, w: Wiring):
    base = py.cls('Interpreter', 'interpreter')
    n = 0
    for ci in py.subclasses(base):
        for meth in RULES:
            if meth not in ci.methods or ci.name == 'BasicInterpreter':
                continue
            fn = ci.methods[meth]
            where = py.where(ci.module, fn)
            n += 1
            decos = [ast.unparse(d) for d in fn.decorator_list]
            if any('pretty' in d for d in decos):
                ok = pretty_decorator_forwards(py)
                ctx.ob('override-chain', f'{ci.name}.{meth}', ok,
                       'the @pretty decorator does not return the value of the next implementation called with the same arguments', where)
                continue
            mf = PM.level_facts(py, ci, meth)
            is_transformer = any(c.name == 'InterpreterTransformer' for c in py.mro(ci))
            probs = []
            for rec in mf.paths:
                if is_transformer:
                    calls = [s for s in rec['subcalls'] if s[0] == meth] + [s for s in rec['supers'] if s[0] == meth]
                    basic_calls = [o for o in rec['other']]
                else:
                    calls = [s for s in rec['supers'] if s[0] == meth]
                want = tuple(('param', p) for p in mf.params)
                if ci.name == 'InstantiationOptimizer':
                    continue      # decided under C08 (returns BasicInterpreter's value on the same arguments)
                if len(calls) != 1:
                    probs.append(f'{len(calls)} calls of the next {meth} on an accepting path')
                    continue
                if calls[0][1] != want:
                    probs.append(f'next {meth} called with ({", ".join(show(a) for a in calls[0][1])}) instead of ({", ".join(mf.params)})')
                ret = rec['ret']
                recv = PM.SUPER if not is_transformer or calls[0] in rec['supers'] else ('attr', SELF, 'sub_interpreter')
                want_ret = ('call', ('attr', recv, meth), want, ())
                if ret != want_ret:
                    probs.append(f'returns {show(ret)} instead of the value of the next {meth}')
            ctx.ob('override-chain', f'{ci.name}.{meth}', not probs, '; '.join(probs), where)
    ctx.analysed['overrides of the three rules'] = n


def pretty_wrapper(py: PyRepo):
    """the function the @pretty decorator substitutes for a method: value-level paths plus the values that stand for the receiver,
    the forwarded positional arguments and the decorated function. -> (wrapper def, paths, SELF, forwarded args tuple, FUNC name)"""
    ci = py.cls('PrettyPrintingInterpreter')
    # the decorator is found through its use: the callee of the decorator expression on the interpreter methods of the class
    # (`@pretty()`, `@PrettyPrintingInterpreter.pretty()`), defined in the class or at module level
    names = set()
    for g in ci.methods.values():
        for d in g.decorator_list:
            f = d.func if isinstance(d, ast.Call) else d
            nm = f.attr if isinstance(f, ast.Attribute) else (f.id if isinstance(f, ast.Name) else None)
            if nm and nm not in ('staticmethod', 'classmethod', 'property', 'cache', 'wraps'):
                names.add(nm)
    fn = None
    if len(names) == 1:
        nm = next(iter(names))
        fn = ci.methods.get(nm) or py.modules[ci.module].functions.get(nm)
    if fn is None:
        return None
    inner = [n for n in ast.walk(fn) if isinstance(n, ast.FunctionDef) and n is not fn
             and not any(isinstance(m, ast.FunctionDef) and m is not n for m in ast.walk(n))]
    if len(inner) != 1 or inner[0].args.vararg is None:
        return None
    wrp = inner[0]
    outer = [n for n in ast.walk(fn) if isinstance(n, ast.FunctionDef) and n is not fn and n is not wrp and wrp in ast.walk(n)]
    if len(outer) != 1 or len(outer[0].args.args) != 1:
        return None
    func = outer[0].args.args[0].arg
    star = ('param', '*' + wrp.args.vararg.arg)
    if wrp.args.args:
        SELF, rest = ('param', wrp.args.args[0].arg), (('star', star),)
        if len(wrp.args.args) != 1:
            return None
    else:
        SELF, rest = ('item', star, 0), (('star', ('rest', star, 1, 0)),)
    kw = ((None, ('param', '**' + wrp.args.kwarg.arg)),) if wrp.args.kwarg else ()
    return wrp, PyEval().paths(wrp), SELF, rest, kw, func


def pretty_decorator_forwards(py: PyRepo) -> bool:
    """every returning path of the wrapper returns the value of the next implementation (super() of the pretty printer, looked up by
    the decorated function's name) called with the same arguments"""
    facts = pretty_wrapper(py)
    if facts is None:
        return False
    _wrp, paths, SELF, rest, kw, func = facts
    nxt = ('call', ('name', 'getattr'), (('call', ('name', 'super'), (('name', 'PrettyPrintingInterpreter'), SELF), ()),
                                         ('attr', ('name', func), '__name__')), ())
    want = ('call', nxt, rest, kw)
    rets = [p for p in paths if p.end[0] == 'return']
    return bool(rets) and all(p.end[1] == want for p in rets)


def proofexp_static(ctx, py: PyRepo):
    ev = PyEval()
    fn = py.method('ProofExp', 'modus_ponens')
    where = py.where('proof', fn)
    ok = False
    for p in ev.paths(fn):
        if p.end[0] != 'return':
            continue
        for c, b in p.conds:
            if b is True and c[0] == 'cmp' and c[1] == '==':
                sides = {c[2], c[3]}
                left0 = ('item', ('call', ('attr', ('name', 'Implies'), 'extract'), (('attr', ('param', 'left'), 'conc'),), ()), 0)
                if left0 in sides and ('attr', ('param', 'right'), 'conc') in sides:
                    ok = True
    ctx.ob('rule-guard', 'ProofExp.modus_ponens', ok,
           'ProofExp.modus_ponens builds a thunk without requiring <antecedent of left.conc> == right.conc', where)


def run(ctx):
    py = PyRepo.get()
    w = Wiring(py)
    basic_rules(ctx, py, w)
    extract_raises(ctx, py)
    override_chain(ctx, py, w)
    proofexp_static(ctx, py)
    # what the guards rely on: the freshness judgement is sound on every pattern class (shared with C06) and `==` between
    # patterns is structural equality that sees through notation by expansion (shared with C12)
    from . import c06, c11, c12
    c06.python_half(ctx, py)
    c12.t2(ctx, py)
    # "exactly when documented": the guard of the generalization rule is the generator's freshness judgement, which must not only be
    # sound (above) but also answer "fresh" WHENEVER the documented judgement does - per constructor, on every valuation of the atoms
    # (the judgements on the children taken as arbitrary booleans); a stricter judgement refuses steps the documentation allows
    from ..core import decide, pypattern
    from ..spec import judgements as SJ
    n_ex = 0
    for c_ in pypattern.pattern_classes(py):
        if c_.name == 'Instantiate' or 'evar_is_free' not in c_.methods:
            continue
        doc = SJ.DOC.get((c_.name, 'e_fresh'))
        if doc is None:
            continue
        df = pypattern.bool_method_df(py, c_.name, 'evar_is_free')
        cex = None
        for val in decide.valuations(decide.merge_domains(df, doc), SJ.consistent):
            if decide.f_eval(doc, val) and df.truth(val) is False:
                cex = val
                break
        n_ex += 1
        ctx.ob('rule-guard', f'freshness-exact/{c_.name}', cex is None,
               '' if cex is None else f'{c_.name}.evar_is_free answers "not fresh" where the documented e_fresh of {c_.name} '
               f'({decide.f_show(doc)}) holds, at {cex}: exists_generalization is refused although the documented rule applies',
               py.where(c_.module, c_.methods['evar_is_free']))
    ctx.require(n_ex >= 10, 'anchor vanished: evar_is_free of the pattern classes')
    # the conclusion of schema instantiation IS `conclusion.instantiate(delta)`: it is the documented instance only if instantiate
    # (and the substitutions it resolves) follow the textbook table on every pattern class (shared with C11)
    c11.python_half(ctx, py)
    ctx.floor('rule-conclusion', 4)
    ctx.floor('rule-guard', 3)
    ctx.floor('override-chain', 9)
    ctx.floor('destructuring-raises', 2)
    ctx.explanation = (
        'modus_ponens, exists_generalization and instantiate of BasicInterpreter are evaluated symbolically: each returning path yields '
        'exactly the documented conclusion and has passed a raising destructuring of the premise as an implication and the rule\'s side '
        'condition (antecedent equality; freshness judgement of the generalised variable in the consequent), so adversarial premises are '
        'covered on all paths, not by sampling; every override (Stateful, Serializing, Counting, PrettyPrinting through its decorator, '
        'InterpreterTransformer) hands the same arguments to the next implementation exactly once and returns its value; '
        'Pattern.extract/unwrap raise on a non-implication; ProofExp repeats the antecedent check statically. The two things the guards rely '
        'on are decided here as well: evar_is_free is sound on all 11 pattern classes (C06 rule) and pattern equality is structural with the '
        'notation node comparing its expansion (C12 rule).')
    ctx.assumptions = ['evar_is_free is sound (C06), also under notation', 'python assert statements are enabled (no -O)']
