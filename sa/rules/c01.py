"""C01 - checker soundness: the structural obligations of the rule induction, decided on MIR.

S1 Proved terms are minted only by the rule arms, with the rule's conclusion as payload
S2 every side condition of a rule dominates its push (and well_formed implies what the judgements rely on)
S3 substitution never descends under a binder without the capture check of the binder's sort
S4 instantiation checks every constraint list of a metavariable against the plug with the judgement of the same name
S5 the axiom constants are the axiom schemas of the proof system
S6 the freshness / positivity judgements are sound arm by arm (shared with C06)
"""
from __future__ import annotations

import re

from ..core import decide, machine as M, mireval, rustsubst as RS
from ..core.rustfacts import Rust, arms_of, judgement_df
from ..spec import axioms as AX, judgements as SJ, machine as SP, substitution as SS
from . import c06

LEVEL = 'other'

def s1_minting(ctx, r: Rust, arms):
    where = r.line_of('execute_instructions')
    # (a) crate-wide: a function other than the interpreter loop may build a Proved value only as a conversion that preserves
    #     provedness - on a path where one of its parameters IS a Proved (Term or Entry) and with that parameter's payload
    #     (derive(Clone), Term <-> Entry conversions).  Anything else mints a theorem outside the rule arms.
    sites = 0

    def proved_aggs(v, out):
        if isinstance(v, tuple):
            if v and v[0] == 'agg' and isinstance(v[1], str) and v[1].endswith('::Proved'):
                out.append(v)
            for x in v:
                proved_aggs(x, out)
        return out

    for fn in r.fns.values():
        has = False
        for b in fn.blocks.values():
            if b.cleanup:
                continue
            for st in b.stmts + [b.term]:
                if re.search(r'= (Term|Entry)::Proved\(', st):
                    sites += 1
                    has = True
        if not has or fn.short in ('execute_instructions', 'Term::Proved', 'Entry::Proved'):
            continue
        try:
            fpaths = r.paths(fn.short)
        except Exception as ex:  # noqa: BLE001
            ctx.ob('minting', f'{fn.short}', False,
                   f'function {fn.short} constructs a Proved term and cannot be evaluated ({ex}); only the rule arms of '
                   f'execute_instructions and provedness-preserving conversions may', r.line_of(fn.short))
            continue
        for p in fpaths:
            if p.end != 'return':
                continue
            aggs = proved_aggs(p.ret, [])
            for ev in p.events:
                proved_aggs(tuple(ev) if isinstance(ev, (list, tuple)) else (), aggs)
            for g in aggs:
                payload = g[2][0][1] if g[2] else None
                ok = bool(payload) and payload[0] == 'field' and payload[2] == 'Proved' and payload[1][0] == 'param' \
                    and any(a[0] == 'variant' and a[1] == payload[1] and o == 'Proved' for a, o in p.conds)
                ctx.ob('minting', f'{fn.short}/{g[1]}', ok,
                       f'function {fn.short} constructs a Proved term ({mireval.show(g)}) that is not the payload of a parameter already '
                       f'known to be Proved; only the rule arms of execute_instructions may mint theorems', r.line_of(fn.short))
    # derive(Clone) must map Proved to Proved and Pattern to Pattern
    for p in r.paths('Term::clone'):
        if p.end == 'return' and p.conds:
            kind = p.conds[0][1]
            ok = p.ret[0] == 'agg' and p.ret[1] == f'Term::{kind}' and p.ret[2][0][1] == ('field', ('param', 'self'), kind, 0)
            ctx.ob('minting', f'Term::clone/{kind}', ok, f'Term::clone turns a {kind} into {mireval.show(p.ret)}', 'rust/src/lib.rs')
    # (b) every Proved pushed by an arm is the conclusion the rule prescribes
    allowed = {}
    for op, cases in SP.SPEC.items():
        for c in cases:
            for e in c['effects']:
                if e[2] and e[2].endswith('::Proved'):
                    allowed.setdefault(op, []).append((M.canon_conds(c['conds']), e))
    n = 0
    for op, aps in arms.items():
        for ap in aps:
            if ap.end != 'next':
                continue
            case = M.to_case(ap)
            for e in case['effects']:
                if not (e[2] and e[2].endswith('::Proved')):
                    continue
                n += 1
                want = allowed.get(op, [])
                ok = any(e == w and wc <= case['conds'] for wc, w in want)
                cond_txt = ' & '.join(sorted(f'{M.show_val(a)}={o}' for a, o in case['conds']))
                ctx.ob('minting', f'{op}/{e[1]}/{cond_txt or "always"}', ok,
                       f'{op} marks {M.show_val(e[3])} as proved ({e[2]} pushed to {e[1]}); the rule allows only '
                       + (' or '.join(M.show_val(w[3]) for _c, w in want) or 'nothing'), where,
                       facts={'payload': M.show_val(e[3]), 'conds': cond_txt})
    ctx.analysed['Proved minting sites (MIR aggregates)'] = sites
    ctx.analysed['Proved pushes in arms'] = n


def s2_guards(ctx, r: Rust, arms):
    where = r.line_of('execute_instructions')
    for op, cases in SP.SPEC.items():
        for c in cases:
            if not c['conds']:
                continue
            want = M.canon_conds(c['conds'])
            # side conditions proper (not the case selectors phase= / kind=)
            guards = {(a, o) for a, o in want if not (a[0] == 'variant' and a[1] in (('param', 'phase'), ('pop', 1), ('top',))
                                                      or (a[0] == 'variant' and a[1][0] == 'mem'))}
            if not guards:
                continue
            selectors = want - guards
            for ap in arms.get(op, []):
                if ap.end != 'next':
                    continue
                case = M.to_case(ap)
                if not selectors <= case['conds']:
                    continue
                missing = guards - case['conds']
                for g in sorted(guards, key=repr):
                    ctx.ob('guard', f'{op}/{M.show_val(g[0])}={g[1]}', g not in missing,
                           f'{op} continues to its push without the side condition {M.show_val(g[0])} = {g[1]}', where,
                           facts={'path conditions': sorted(f'{M.show_val(a)}={o}' for a, o in case['conds'])})
    # well_formed implies what the soundness argument uses
    arms_wf = arms_of(r, 'Pattern::well_formed')
    need = {'Mu': SJ.J('positive', 'S', 'v'),
            'ESubst': SJ.AND(('not', SJ.A('redundant',)), ('vin', ('variant', 'P'), SJ.HEADS)),
            'SSubst': SJ.AND(('not', SJ.A('redundant',)), ('vin', ('variant', 'P'), SJ.HEADS))}
    for v, f in need.items():
        if v not in arms_wf:
            ctx.ob('guard', f'well_formed/{v}', False, f'well_formed has no arm for {v}', r.line_of('Pattern::well_formed'))
            continue
        df = judgement_df(r, 'Pattern::well_formed', v, arms_wf[v])
        cex, n = decide.implies(df, f)
        ctx.ob('guard', f'well_formed/{v}', cex is None,
               '' if cex is None else f'well_formed({v}) answers true without {decide.f_show(f)}', r.line_of('Pattern::well_formed'),
               facts={'arm': [(list(map(str, c)), str(res)) for c, res in df.outcomes], 'needs': decide.f_show(f)})


def s2b_equality(ctx, r: Rust):
    """the equality the side conditions rely on (MP antecedent, claim == theorem) is structural: equal constructors and every field equal"""
    from ..core import mir as _mir
    where = 'rust/src/lib.rs'
    ctx.ob('structural-equality', 'no-custom-ne', 'Pattern::ne' not in r.fns, 'Pattern defines its own `ne`; `!=` is no longer the negation of `==`', where)
    if 'Pattern::eq' not in r.fns:
        ctx.ob('structural-equality', 'Pattern::eq', False, 'Pattern has no PartialEq::eq in the crate', where)
        return
    SELFP, OTHER = ('param', 'self'), ('param', 'other')
    per: dict[str, list] = {}
    for p in r.paths('Pattern::eq'):
        if p.end != 'return':
            continue
        var = None
        for a, o in p.conds:
            if a[0] == 'variant' and a[1] == SELFP and isinstance(o, str):
                var = o
        if var is None:
            # the discriminant test: unequal constructors must give false
            if p.ret != ('bool', False) and not any(a[0] == 'eq' and 'discr' in repr(a) and o is False for a, o in p.conds):
                continue
            continue
        per.setdefault(var, []).append(p)
    discr_checked = any(a[0] == 'eq' and 'discr' in repr(a) for p in r.paths('Pattern::eq') for a, _o in p.conds)
    ctx.ob('structural-equality', 'constructors-compared', discr_checked, 'Pattern::eq does not compare the constructors', where)
    for var, _d in r.enums.get('Pattern', []):
        nfields = len(_mir.ENUM_FIELDS['Pattern'][var])
        bad = []
        for p in per.get(var, []):
            compared = set()
            for a, o in p.conds:
                if a[0] == 'eq' and o is True:
                    for side in (a[1], a[2]):
                        if side[0] == 'field' and side[1] in (SELFP, OTHER) and side[2] == var:
                            compared.add(side[3])
            rv = p.ret
            can_be_true = rv != ('bool', False)
            if rv[0] == 'call' and rv[1] in ('PartialEq::eq',) or rv[0] == 'op' and rv[1] == 'Eq':
                args = rv[2]
                for side in args:
                    if side[0] == 'field' and side[2] == var:
                        compared.add(side[3])
            if can_be_true and compared != set(range(nfields)):
                bad.append(sorted(set(range(nfields)) - compared))
        ok = var in per and not bad
        ctx.ob('structural-equality', f'Pattern::eq/{var}', ok,
               f'two {var} patterns can compare equal without field(s) {bad[:1]} being compared' if var in per else f'no arm for {var}',
               where, facts={'fields': nfields})


def s3_capture(ctx, r: Rust):
    for short, kind in (('apply_esubst', 'e'), ('apply_ssubst', 's')):
        got = RS.subst_outcomes(r, short)
        spec = SS.subst_table(kind, 'rust')
        for binder in ('Exists', 'Mu'):
            # soundness needs: no descent under the binder unless the plug is fresh for the bound variable
            sort = 'e' if binder == 'Exists' else 's'
            fresh = ('fresh', sort, 'plug', 'v')
            bad = []
            for conds, o in got[binder]:
                if o == 'raise':
                    continue
                descends = 'rec' in repr(o)
                cd = dict(conds)
                if descends and cd.get(fresh) is not True:
                    bad.append(RS.show(o))
            ctx.ob('capture-guard', f'{short}/{binder}', not bad,
                   f'{short} rebuilds {binder} around a substituted body ({"; ".join(bad)}) without first checking that the plug is '
                   f'{"e" if sort == "e" else "s"}_fresh for the bound variable', r.line_of(short),
                   facts={'code': [(sorted(map(str, c)), RS.show(o)) for c, o in got[binder]],
                          'table': [(sorted(map(str, c)), RS.show(o)) for c, o in spec[binder]]})


def s4_instantiation(ctx, r: Rust):
    where = r.line_of('instantiate_internal')
    _got, mv = RS.inst_outcomes(r)
    ctx.require(mv, 'instantiate_internal has no MetaVar arm')
    params = [('param', r.fn('instantiate_internal').debug_of.get(n)) for n, _t in r.fn('instantiate_internal').params]
    p_self, p_vars, p_plugs = params
    replaced = [p for p in mv if p.end == 'return' and p.ret[0] == 'agg' and p.ret[1] == 'Option::Some']
    ctx.require(replaced, 'instantiate_internal/MetaVar: no path replaces the metavariable')
    for i, p in enumerate(replaced):
        rv = p.ret[2][0][1]
        ok_ret = rv[0] == 'index' and rv[1] == p_plugs
        pos = rv[2] if ok_ret else None
        # pos must be the position of this metavariable's id in `vars`
        ok_pos = False
        if pos is not None and pos[0] == 'field' and pos[2] == 'Some' and pos[1][0] == 'call' and pos[1][1] == 'Iterator::position':
            it, clo = pos[1][2]
            body = r.ev.closure_value(r.ev._closure_by_loc[clo[1]], clo) if clo[0] == 'closure' else None
            if it == ('iter', p_vars) and body is not None:
                atom, pol = r.ev.bool_atom(body)
                want = {('param', 'arg1'), ('field', p_self, 'MetaVar', 0)}
                ok_pos = atom[0] == 'eq' and {atom[1], atom[2]} == want and pol is True
        ctx.ob('constraint-check', 'lookup-by-id', ok_ret and ok_pos,
               f'the replacement {mireval.show(rv)} is not plugs[position of this metavariable id in vars]', where)
        found = {}
        for a, o in p.conds:
            if a[0] == 'variant' and a[1][0] == 'call' and a[1][1] == 'Iterator::find':
                it, clo = a[1][2]
                if it[0] == 'iter' and it[1][0] == 'field' and it[1][1] == p_self and it[1][2] == 'MetaVar':
                    from ..core import mir
                    lname = mir.field_name('Pattern', 'MetaVar', it[1][3])
                    body = r.ev.closure_value(r.ev._closure_by_loc[clo[1]], clo)
                    found[lname] = (body, o)
        for lname, jname in SS.CONSTRAINT_CHECKS.items():
            ok = False
            detail = f'the {lname} constraint list is not checked before the metavariable is replaced'
            if lname in found:
                body, o = found[lname]
                none_branch = (o == 'None') or (isinstance(o, tuple) and o[0] == 'not' and 'Some' in o[1])
                good_body = body is not None and body[0] == 'op' and body[1] == 'Not' and body[2][0][0] == 'call' \
                    and body[2][0][1] == f'Pattern::{jname}' and body[2][0][2] == (('index', p_plugs, pos), ('param', 'arg1'))
                ok = none_branch and good_body
                if not good_body:
                    detail = f'the {lname} list is searched with {mireval.show(body)} instead of !plugs[pos].{jname}(v)'
                elif not none_branch:
                    detail = f'the replacement happens on the branch where a violated {lname} constraint was found'
            ctx.ob('constraint-check', f'{lname}', ok, detail, where,
                   facts={'closure': mireval.show(found[lname][0]) if lname in found else None})
        # every "found a violation" branch diverges
    viol = [p for p in mv if p.end == 'diverge' and p.why != 'unreachable']
    ctx.ob('constraint-check', 'violations-rejected', len(viol) >= 4,
           f'only {len(viol)} rejecting paths for violated constraints (need one per list)', where)
    # app_ctx_holes is ignored at instantiation: sound only while no implemented axiom uses it
    holes_used = any('app_ctx_holes' in repr(v) for v in [])
    for name, t in AX.AXIOMS.items():
        if _uses_holes(t):
            holes_used = True
    ctx.ob('constraint-check', 'app_ctx_holes-unused', not holes_used,
           'an axiom schema constrains app_ctx_holes but instantiate_internal does not check that list', where)


def _uses_holes(t) -> bool:
    if isinstance(t, tuple) and t and t[0] == 'P' and t[1] == 'MetaVar':
        return t[7] != AX.EMPTY
    if isinstance(t, tuple):
        return any(_uses_holes(x) for x in t if isinstance(x, tuple))
    return False


def s5_axioms(ctx, r: Rust, arms):
    where = r.line_of('execute_instructions')
    for name, schema in AX.AXIOMS.items():
        got = None
        for ap in arms.get(name, []):
            if ap.end == 'next':
                for e in M.to_case(ap)['effects']:
                    if e[2] == 'Term::Proved':
                        got = e[3]
        ctx.ob('axiom-schema', name, got == schema,
               f'{name} pushes {M.show_val(got) if got else "nothing"} as proved; the schema is {M.show_val(schema)}', where,
               facts={'constant': M.show_val(got) if got else None})


def run(ctx):
    r = Rust.get()
    arms = M.rust_arms(r)
    s1_minting(ctx, r, arms)
    s2_guards(ctx, r, arms)
    s2b_equality(ctx, r)
    s3_capture(ctx, r)
    s4_instantiation(ctx, r)
    s5_axioms(ctx, r, arms)
    c06.rust_half(ctx, r)
    # (S3b) the substitution the rules apply is the textbook one on every constructor: besides capture (S3) this covers shadowing
    # at the binder of the substituted variable and the leaves (the deferral arms admit several sound representations and are left to C05 / C11) - an instance of the Quantifier or
    # Substitution rule computed with a different function is not an instance of the rule (shared with C05 / C11)
    from . import c05
    c05.subst_conformance(ctx, r, only_structural=True)
    ctx.floor('minting', 12)
    ctx.floor('guard', 10)
    ctx.floor('capture-guard', 4)
    ctx.floor('structural-equality', 12)
    ctx.floor('constraint-check', 6)
    ctx.floor('axiom-schema', 5)
    ctx.floor('sound-arm', 40)
    ctx.explanation = (
        'Soundness of a Hilbert-style checker follows by rule induction from finitely many facts about the code, each decided on rustc '
        'MIR on all paths: (S1) Proved terms are built only in rule arms and carry exactly the rule conclusion; (S2) each side condition '
        '(antecedent equality, freshness for Generalization, claim equality, well-formedness of Mu/ESubst/SSubst/MetaVar) holds on every '
        'path that reaches the push; (S3) apply_esubst/apply_ssubst never rebuild a binder around a substituted body without the capture '
        'check of the binder sort; (S4) a metavariable is replaced only after its four constraint lists were checked against the plug with '
        'the judgement of the same name; (S5) the axiom constants are the schemas of the proof system; (S6) the judgements are sound arm '
        'by arm. Validity in models is not evaluated: the induction and the adequacy of the proof system are paper mathematics.')
    ctx.assumptions = ['the matching-logic proof system (axiom schemas, MP, Generalization, Substitution, metavariable instantiation) is sound',
                       'spec tables in sa/spec/ (axioms.py, machine.py, judgements.py, substitution.py)',
                       'rustc MIR is a faithful rendering of rust/src/lib.rs']
